#!/usr/bin/env python3
"""Single entry point of the vita verification machinery.

  python3 check.py <Cxx> [--tier quick|thorough] [--replay file]
  python3 check.py --setup          build everything that can be prebuilt (Lean library, drivers, libvita)
  python3 check.py --all [--tier t] run every registered check (convenience)

Environment: VERIF_SEED (int, default 1), VERIF_TIER (overrides --tier when --tier is absent).
Exit status: 0 = property held on everything explored (known findings are printed as
KNOWN-FINDING lines); 1 = a `VIOLATION property=<id> replay=<path>` line was printed.
"""
import importlib
import json
import os
import sys
import traceback

ROOT = os.path.dirname(os.path.abspath(__file__))
sys.path.insert(0, ROOT)
from vlib import common  # noqa: E402


def registered():
    m = json.load(open(os.path.join(ROOT, "MANIFEST.json")))
    return [c["property_id"] for c in m["checks"]]


def run_one(pid, tier, replay=None):
    seed = common.env_seed()
    try:
        mod = importlib.import_module("checks." + pid.lower())
    except ModuleNotFoundError:
        print(f"no check implemented for {pid}", file=sys.stderr)
        return 2
    chk = common.Check(pid, tier, seed)
    try:
        return mod.run(chk, replay)
    except Exception as e:  # machinery failure: never silently pass
        traceback.print_exc()
        chk.violation("the check itself failed: %r" % (e,), {"exception": traceback.format_exc()[-3000:]},
                      no_input=True)
        return chk.finish(level="proof", checker_cmd="(check crashed)", rule="check crashed")


def setup():
    ok, out = common.lake_build(["Vita"], timeout=3600)
    if not ok:
        # a property whose proof is currently broken must not block the others
        common.log("[setup] full library build reported errors (checks rebuild their own targets):")
        common.log(common.lean_errors(out)[:2000])
    exes = []
    for ln in open(os.path.join(common.LEAN, "lakefile.toml")):
        ln = ln.strip()
        if ln.startswith("name = \"") and ln.endswith("_driver\""):
            n = ln.split('"')[1]
            if os.path.exists(os.path.join(common.LEAN, "Vita", n[:3].upper(), "Driver.lean")):
                exes.append(n)
    ok2, out2 = common.lake_build(exes, timeout=3600)
    if not ok2:
        common.log(common.lean_errors(out2)[:2000])
    for cfg in ("asan",):
        try:
            common.build_vita(cfg)
        except RuntimeError as e:
            common.log(str(e)[:2000])
    print("setup done")
    return 0


def main(argv):
    if "--setup" in argv:
        return setup()
    tier = os.environ.get("VERIF_TIER", "quick")
    if "--tier" in argv:
        tier = argv[argv.index("--tier") + 1]
    if tier not in ("quick", "thorough"):
        tier = "quick"
    replay = argv[argv.index("--replay") + 1] if "--replay" in argv else None
    if "--all" in argv:
        rc = 0
        for pid in registered():
            rc |= run_one(pid, tier)
        return rc
    pids = [a for a in argv[1:] if a.upper().startswith("C") and a[1:].isdigit()]
    if not pids:
        print(__doc__)
        return 2
    rc = 0
    for pid in pids:
        rc |= run_one(pid.upper(), tier, replay)
    return rc


if __name__ == "__main__":
    sys.exit(main(sys.argv))
