"""C01 — the interpreter returns the denotation of the program.

Lean: the member functions of interpreter<i_mep> / core_interpreter / symbol_params / src_interpreter<i_mep>,
symbol::penalty, comparison_function_penalty and gene::locus_of_argument are EXTRACTED from the current
sources (tools/translate_interp.py -> Vita/C01/GenInterp.lean, a small statement language with one semantics,
Vita/C01/Lang.lean); Vita/C01/Bridge.lean proves the interpreter made of the extracted bodies equal to the
hand-written model, and Vita/C01/Props.lean proves `gen_interp_eq_denote`, `gen_run_history_indep`,
`gen_layout_indep`, `gen_intron_indep`, `gen_in_bounds`, `team_members_eq_denote`, `penalty_spec` … for every
well-formed genome, example and state of the object.  Primitive bodies: all generated (C13 / C14 translators,
tools/translate_prims01.py for bool.h, int.h `number`, variable.h, constant.h).

Tie: translators + differential.  The harness builds real individuals with vita's own constructor / mutation /
crossover / get_block / teams over five symbol sets plus engineered layouts, introns, program swaps behind a
live object, penalty collisions, long reuse and wide examples; runs vita's interpreters (fresh, one object
reused, no example, regression lambda, team lambda, penalty()) and its own independent recursive tree
evaluation; the compiled Lean driver runs the EXTRACTED interpreter (same object history, plus model-only `stale`
states) and `denote`.  All answers must agree bit for bit.
"""
import concurrent.futures as cf
import hashlib
import zlib
import json
import os
import sys
import time

from vlib import common as C

sys.path.insert(0, os.path.join(C.ROOT, "tools"))
import translate_real  # noqa: E402
import translate_int  # noqa: E402
import translate_interp  # noqa: E402
import translate_prims01  # noqa: E402
from cxx2lean import Refuse  # noqa: E402

SETS = ["real", "int", "str2", "typed3", "illtyped"]


def is_zero_tok(t):
    return t[0] == "D" and int(t[1:], 16) & 0x7FFFFFFFFFFFFFFF == 0


def same(a, b):
    """equal outcome; two zeros of opposite sign are accepted (C leaves fmax/fmin(+0,-0) open and the
    Lean runtime's choice differs from libstdc++'s, see design/C13.md) – reported separately"""
    if a == b:
        return True, False
    if len(a) > 1 and len(b) > 1 and is_zero_tok(a) and is_zero_tok(b):
        return True, True
    return False, False


def parse_transcript(line):
    """-> (chains, extras).  A chain is a list of programs that share ONE history of interpreter objects:
    [(P-line, reprog, [items])] where reprog says that the program was put behind the same object as the
    preceding one (`Q`), and an item is (op, kind, example tokens, vita, oracle, repeat, bad):
    op R = run (repeat n for `RR<k> n …`, `bad` of the n answers differing from the oracle's), N = penalty();
    kind F/S/0/L = which object.  extras: `E` (two answers of vita that must be equal) and `T` (team) items."""
    chains, extras = [], []
    for item in line.split(" ;; "):
        t = item.split()
        if not t:
            continue
        if t[0] == "P":
            chains.append([(item, False, [])])
        elif t[0] == "Q" and chains:
            chains[-1].append(("P" + item[1:], True, []))
        elif t[0] == "L" and len(t) > 1:
            extras.append(("L", t[1], [], "", ""))
        elif t[0] in ("E", "T"):
            eq = t.index("=")
            extras.append((t[0], t[1] if t[0] == "E" else "team", t[2:eq] if t[0] == "E" else t[1:eq], t[eq + 1], t[eq + 2]))
        elif t[0][0] == "N" and chains:
            chains[-1][-1][2].append(("N", t[0][1:], [], t[2], t[3], 1, 0))
        elif t[0][0] == "R" and chains:
            eq = t.index("=")
            if t[0].startswith("RR"):
                chains[-1][-1][2].append(("R", t[0][2:], t[2:eq], t[eq + 1], t[eq + 2], int(t[1]), int(t[eq + 3].split("=")[1])))
            else:
                chains[-1][-1][2].append(("R", t[0][1:], t[1:eq], t[eq + 1], t[eq + 2], 1, 0))
    return chains, extras


def driver_lines(chain, rng):
    """the same object histories for the model: F / 0 = new object per run, S / L = one object over the
    consecutive items of that kind (across `reprog`), `stale` (model only) at random.
    -> lines, [(program index in the chain, index of its `prog` answer, [answer index per item])]"""
    out, where = [], []
    prev = None
    for (prog, reprog, items) in chain:
        out.append(("reprog " if reprog else "prog ") + prog[2:])
        head = len(out) - 1
        if not reprog:
            prev = None
        idx = []
        for (op, kind, ex, _, _, rep, _) in items:
            if kind in ("F", "0") or kind != prev:
                out.append("new")
            if rng.below(4) == 0:
                out.append("stale")
            if op == "N":
                out.append("pen")
            else:
                out.append("run0" if kind == "0" else ("run " if rep == 1 else "rep %d " % rep) + " ".join(ex))
            idx.append(len(out) - 1)
            prev = kind
        where.append((head, idx))
    return out, where


def run_shard(lines):
    return C.run_driver("c01_driver", lines)


def run(chk, replay=None):
    rng = C.SplitMix(chk.seed)
    broken = []
    phase = {}
    t_phase = [time.time()]

    def lap(name):
        now = time.time()
        phase[name] = round(phase.get(name, 0.0) + now - t_phase[0], 2)
        t_phase[0] = now
    # ---- regenerate the primitive bodies, build, prove -------------------------------------------
    try:
        names, ch = translate_real.emit(os.path.join(C.LEAN, "Vita", "C13", "Gen.lean"))
        chk.cov["translated_real"] = names
        inames, ch2 = translate_int.emit(os.path.join(C.LEAN, "Vita", "C14", "Gen.lean"))
        chk.cov["translated_int"] = inames
        chk.cov["gen_changed_vs_committed"] = bool(ch or ch2)
    except Refuse as e:
        broken.append("a translator refuses the current primitive sources: %s" % e)
    try:
        pnames, ch4 = translate_prims01.emit(os.path.join(C.LEAN, "Vita", "C01", "GenPrims.lean"))
        chk.cov["translated_terminals_boolean"] = pnames
        chk.cov["genprims_changed_vs_committed"] = bool(ch4)
    except Refuse as e:
        broken.append("tools/translate_prims01.py refuses the current bool.h / int.h number / variable.h / constant.h: %s" % e)
    # ---- the member functions of the interpreters -> statement language (GenInterp.lean) ------------
    try:
        res, ch3 = translate_interp.emit(os.path.join(C.LEAN, "Vita", "C01", "GenInterp.lean"),
                                         cache=os.path.join(C.ROOT, "build", "translate_interp.cache.json"))
        chk.cov["translated_interp"] = list(translate_interp.CODE_KEYS)
        chk.cov["shipped_primitive_classes"] = len(res["shipped"])
        chk.cov["geninterp_changed_vs_committed"] = bool(ch3)
    except Refuse as e:
        broken.append("tools/translate_interp.py refuses the current interpreter sources (a member function "
                      "has a shape outside the statement language): %s" % e)
    lap("translators")
    ok, out = C.lake_build(["c01_driver"])
    drv_ok = ok
    if not ok:
        broken.append("driver does not build: " + C.lean_errors(out))
    ok, msg = chk.prove("Vita.C01.Props", ["Vita.C01.Props"])
    if not ok:
        broken.append("theorems of Vita.C01.Props no longer check: " + msg)

    lap("lean_build_and_audit")
    wire_h = os.path.join(C.ROOT, "harness", "c01_wire.h")
    wh = hashlib.sha256(open(wire_h, "rb").read()).hexdigest()[:16]
    exe = C.build_harness("c01_interp", "asan", extra_flags=["-DWIRE_H_HASH=" + wh])

    lap("vita_and_harness_build")
    # ---- scenarios -------------------------------------------------------------------------------
    quick = chk.tier == "quick"
    reqs = []
    cdir = os.path.join(C.ROOT, "corpus", "C01")
    if replay:
        reqs = [json.load(open(replay))["replay"]["request"]]
    else:
        if os.path.isdir(cdir):
            for f in sorted(os.listdir(cdir)):
                reqs += [l.strip() for l in open(os.path.join(cdir, f)) if l.strip() and not l.startswith("#")]
        # one interpreter object reused for thousands of runs, the lazily evaluated branch needed at run
        # distances 2^k-1, 2^k, 2^k+1 (k <= 9: 3066 runs per scenario; k <= 17: 786 426 runs) - a run counter
        # / generation stamp of 8 or 16 bits that wraps shows here
        LSETS = ["real", "int", "str2", "typed3"]
        for k in range(48 if quick else 400):
            reqs.append(f"long {LSETS[k % 4]} {rng.next() % 1000000007} 9")
        for k in range(0 if quick else 16):
            reqs.append(f"long {LSETS[k % 4]} {rng.next() % 1000000007} 17")
        # examples with 70000 features, variables with indices around 2^8 and 2^16
        for k in range(40 if quick else 800):
            reqs.append(f"wide {rng.next() % 1000000007} {rng.between(4, 17)} {rng.between(2, 4)}")
        n = 3000 if quick else 60000
        for k in range(n):
            st = SETS[rng.below(len(SETS))] if rng.below(10) else "illtyped"
            if st == "illtyped" and rng.below(3):
                st = SETS[rng.below(4)]
            r = rng.below(10)
            rows = rng.between(2, 9) if r < 3 else rng.between(9, 25) if r < 8 else rng.between(25, 65)
            patch = 1 + rng.below(min(rows - 1, 6))
            steps = rng.below(4)
            nex = rng.between(2, 5)
            reqs.append(f"scn {st} {rng.next() % 1000000007} {rows} {patch} {steps} {nex}")
        for k in range(60 if quick else 600):
            reqs.append(f"chain {rng.next() % 1000000007} {rng.between(2, 17)} {rng.between(2, 4)}")
        # engineered cases for the last sentence of the property and for penalty() / teams.  They come AFTER the
        # families above so that the random stream of those (and hence their programs) is what it always was.
        for k in range(160 if quick else 3000):       # penalty(): equalities among the argument indices
            reqs.append(f"pen {LSETS[k % 4]} {rng.next() % 1000000007}")
        for k in range(60 if quick else 1500):        # teams: every member on its own reused object
            reqs.append(f"team {('real', 'int')[k % 2]} {rng.next() % 1000000007} {rng.between(3, 25)} "
                        f"{rng.between(1, 6)} {rng.between(2, 4)}")
        for k in range(150 if quick else 3000):       # same tree, another layout (shared genes split / kept)
            reqs.append(f"layout {LSETS[k % 4]} {rng.next() % 1000000007} {rng.between(3, 33)} {rng.between(2, 4)}")
        for k in range(150 if quick else 3000):       # same active code, other introns
            reqs.append(f"intron {LSETS[k % 4]} {rng.next() % 1000000007} {rng.between(3, 33)} {rng.between(2, 4)}")
        for k in range(150 if quick else 3000):       # other programs behind the same interpreter object
            reqs.append(f"swap {SETS[k % 5]} {rng.next() % 1000000007} {rng.between(3, 33)} {rng.between(2, 4)}")
        for k in range(120 if quick else 2400):       # ephemeral constants with parameters outside int (load / gene::par)
            reqs.append(f"numload {('int', 'typed3')[k % 2]} {rng.next() % 1000000007} {rng.between(3, 25)} "
                        f"{rng.between(2, 4)} {('load', 'par')[(k // 2) % 2]}")

    state = {"ndis": 0, "programs": 0}
    found = []     # failing (program, example) pairs; the smallest programs are reported first

    def process(reqs):
        t_phase[0] = time.time()
        answers, deaths = C.run_lines(exe, reqs, timeout=3000)
        lap("harness_runs")
        for idx, rc, se in deaths:
            chk.violation("harness died (rc=%d) on request `%s`\n%s" % (rc, reqs[idx], se[-2500:]),
                          {"request": reqs[idx], "stderr": se[-2500:]}, tags={"request": reqs[idx], "kind": "died"})

        # ---- compare vita with the harness' own oracle (the property itself), collect the model's work --
        work = []      # (request, chain, driver lines, where)
        for q, a in zip(reqs, answers):
            if a.startswith("died") or a.startswith("skipped"):
                continue
            if a.startswith("bad-op"):
                broken.append("harness rejects request `%s`: %s" % (q, a))
                continue
            qt = q.split()
            chk.count("set:" + qt[1] if qt[0] == "scn" else qt[0] + ":" + qt[1] if qt[0] in
                      ("long", "pen", "team", "layout", "intron", "swap", "numload") else "set:" + qt[0])
            chains, extras = parse_transcript(a)
            for (what, tag, ex, va, vb) in extras:
                if what == "L":
                    chk.count("i_mep_load:" + tag)
                    continue
                chk.count("equal_pair:" + tag)
                chk.evaluations += 1
                if va != vb:
                    lines = [c[0][0] for c in chains][:2]
                    if what == "T":
                        msg = (f"reg_lambda_f<team<i_mep>> returned {va}, the running mean of the recursive evaluations "
                               f"of the members' trees is {vb}")
                    elif tag == "penalty":
                        msg = (f"two equal individuals (operator==) have different penalty(): {va[1:]} when built "
                               f"directly, {vb[1:]} when the start gene's storage held another gene before")
                    else:
                        msg = (f"two programs with the same {'expression tree in different layouts' if tag == 'layout' else 'active code and different inactive genes'} "
                               f"return {va} and {vb}")
                    found.append((len(lines[0].split(" ; ")) if lines else 0, len(ex), q, " || ".join(lines), tag, ex,
                                  va, vb, msg))
            for chain in chains:
                for (prog, reprog, items) in chain:
                    pt = prog.split()
                    chk.count("programs")
                    if reprog:
                        chk.count("programs_swapped_behind_one_object")
                    state["programs"] += 1
                    chk.count("rows:%s" % ("2-8" if int(pt[1]) < 9 else "9-24" if int(pt[1]) < 25 else "25-64"))
                    chk.count("cats:" + pt[2])
                    for (op, kind, ex, vita, orc, rep, bad) in items:
                        if op == "N":
                            chk.count("penalty:" + kind)
                            chk.count("penalty_value:" + vita)
                            chk.evaluations += 1
                            if vita != orc:
                                found.append((len(prog.split(" ; ")), 0, q, prog, "penalty " + kind, [], vita, orc,
                                              f"penalty() (object {kind}) returned {vita}, the documented penalty of the "
                                              f"start gene (from its own arguments) is {orc}"))
                            continue
                        chk.count("run:" + kind, rep)
                        chk.count("result:" + vita[0], rep)
                        if rep > 1:
                            chk.count("runs_inside_long_reuse", rep)
                            chk.evaluations += rep - 1
                        if bad:
                            found.append((len(prog.split(" ; ")), len(ex), q, prog, kind, ex,
                                          "%s (%d of %d consecutive runs of this example differ)" % (vita, bad, rep), orc, None))
                        elif orc == "skip":
                            chk.count("oracle_skipped_big_tree")
                        elif vita != orc:
                            found.append((len(prog.split(" ; ")), len(ex), q, prog, kind, ex, vita, orc, None))
                dl, where = driver_lines(chain, rng)
                work.append((q, chain, dl, where))

        lap("python_compare_with_oracle")
        # ---- the model (the interpreter extracted from the sources, run by the Lean semantics) -------------
        if drv_ok and work:
            nsh = 8
            shards = [[] for _ in range(nsh)]
            for k, w in enumerate(work):
                shards[k % nsh].append(w)
            with cf.ThreadPoolExecutor(nsh) as ex_:
                outs = list(ex_.map(lambda sh: run_shard([l for w in sh for l in w[2]]) if sh else [], shards))
            lap("lean_driver_runs")
            for sh, out in zip(shards, outs):
                pos = 0
                for (q, chain, dl, where) in sh:
                    ans = out[pos:pos + len(dl)]
                    pos += len(dl)
                    for (prog, reprog, items), (hd, idx) in zip(chain, where):
                        head = ans[hd].split() if hd < len(ans) else ["missing"]
                        if head[0] != "ok":
                            broken.append("model rejects program `%s…` (%s) of request `%s`" % (prog[:200], ans[hd:hd + 1], q))
                            break
                        size = int(head[2].split("=")[1]) if len(head) > 3 else 0
                        reach = int(head[3].split("=")[1]) if len(head) > 3 else 0
                        chk.count("tree_nodes:%s" % ("1" if size <= 1 else "2-9" if size < 10 else "10-99" if size < 100 else
                                                     "100-9999" if size < 10000 else ">=10000"))
                        if size > reach:
                            chk.count("programs_with_shared_genes")
                        for (op, kind, ex, _, _, _, _) in items:
                            chk.seen((prog, op, kind, tuple(ex)), nontrivial=size > 1)
                        if "wf=1" not in head:
                            chk.count("model_says_not_wf")
                            broken.append("a program built by vita fails the model's WF check: `%s…` request `%s`" % (prog[:200], q))
                        for (op, kind, ex, vita, orc, rep, bad), j in zip(items, idx):
                            m = ans[j].split() if j < len(ans) else ["missing"]
                            if len(m) != (3 if rep == 1 else 4) or (rep > 1 and m[3] != "same=1"):
                                broken.append("model answer malformed / not constant over a repeated example: %r on `%s`"
                                              % (ans[j:j + 1], dl[j][:200]))
                                continue
                            mi, md, mok = m[:3]
                            if dl[j - 1] == "stale":
                                chk.count("model_run_from_stale_state")
                            if mok != "ok=1":
                                chk.count("model_out_of_bounds")
                                broken.append("the extracted interpreter leaves the genome / reads beyond a gene's arguments "
                                              "(%s) on `%s…`" % (dl[j][:40], prog[:200]))
                            if op == "N":
                                if not (mi == md == vita):
                                    state["ndis"] += 1
                                    if state["ndis"] <= 3:
                                        broken.append(f"model and code disagree on penalty(): vita {vita}, documented {orc}, extracted "
                                                      f"interpreter {mi}, reference {md}; program `{prog[:300]}…`; request `{q}`")
                                continue
                            if md == "skip":
                                chk.count("denote_skipped_big_tree")
                            e1, z1 = same(mi, vita)
                            e2, z2 = (True, False) if md == "skip" else same(md, vita)
                            if z1 or z2:
                                chk.count("zero_sign_only_difference")
                            if not (e1 and e2):
                                state["ndis"] += 1
                                if state["ndis"] <= 3:
                                    broken.append(
                                        f"model and code disagree (mode {kind}): vita {vita}, tree oracle {orc}, extracted interpreter "
                                        f"{mi}, denote {md}; example [{' '.join(ex)}]; program `{prog[:300]}…`; request `{q}`")
                        if len(chk.cov["samples"]) < 6 and items and (len(work) < 12 or zlib.crc32(prog.encode()) % 97 == 0):
                            chk.sample({"program": prog[:400], "run": items[0][1], "example": items[0][2], "vita": items[0][3],
                                        "tree_oracle": items[0][4], "model": ans[idx[0]] if idx and idx[0] < len(ans) else None})
        lap("python_compare_with_model")
        state["work"] = state.get("work", 0) + len(work)

    all_reqs = reqs
    for b0 in range(0, len(all_reqs), 3000):
        process(all_reqs[b0:b0 + 3000])
    ndis = state["ndis"]
    found.sort(key=lambda t: (t[0], t[1], t[3]))
    chk.cov["failing_runs"] = len(found)
    for (_, _, q, prog, kind, ex, vita, orc, msg) in found[:8]:
        chk.violation(
            (msg or f"vita's interpreter (mode {kind}) returned {vita}, the recursive evaluation of the active "
             f"expression tree gives {orc},") + f" on example [{' '.join(ex)}] of program `{prog[:300]}…` "
            f"(smallest of {len(found)} failing runs)",
            {"request": q, "program": prog, "kind": kind, "example": ex, "vita": vita, "tree": orc},
            tags={"kind": kind, "set": " ".join(q.split()[:2]), "request": q})
    chk.cov["model_vs_code_disagreements"] = ndis
    chk.cov["phase_seconds"] = phase

    if broken and not [v for v in chk.violations if not v[2]]:
        for b in broken[:4]:
            chk.violation(b, {"broken": b, "searched": "%d interpreter runs on %d programs compared with the independent "
                              "recursive tree evaluation: no failing input" % (chk.evaluations, state.get("work", 0))}, no_input=True)
    elif broken:
        chk.notes += broken[:6]
    return chk.finish(
        level="proof",
        checker_cmd="lake build Vita.C01.Props && lake env lean <#print axioms for every theorem>",
        rule="programs: vita's random constructor over 5 symbol sets (real / integer / real+string / 3 strongly typed "
             "categories / ill-typed), 2..64 rows, patch 1..6, followed by mutation, crossover, get_block; hand-built "
             "maximal-sharing chains; long reuse of one object (gaps 2^k±1); 70000-feature examples; engineered: the same tree "
             "in another layout (genes duplicated / shared at random), the same active code with other introns, other programs "
             "assigned behind one live src_interpreter, comparison functions with colliding argument indices built directly and "
             "over storage of another arity, teams of 1..5 members through reg_lambda_f<team>; each run fresh, on one reused "
             "src_interpreter (forwards, penalty(), backwards), without example and through reg_lambda_f, examples from boundary "
             "tables; evaluations = interpreter runs + penalty() calls + equal-pair comparisons, distinct = distinct (program, "
             "operation, object kind, example) whose expression tree has more than one node; every run is compared with the "
             "harness' memo-free recursive tree evaluation (penalty: the documented rule on the gene's own arguments), with the "
             "interpreter EXTRACTED from the sources executed by the Lean semantics through the same object history (and from "
             "model-only stale states) and with `denote`",
        trusted=["Lean 4.33 kernel", "semantics of the statement language Vita/C01/Lang.lean and the dispatch / recursion wiring "
                 "Vita/C01/ModelG.lean (the hand-written model Vita/C01/Model.lean is proved equal to the extracted interpreter, "
                 "not trusted)",
                 "tools/translate_interp.py, translate_prims01.py, translate_real.py, translate_int.py (syntax-only translators), "
                 "Vita/C01/Prims.lean (progOfE)",
                 "differential harness harness/c01_interp.cc and its oracles, g++ 12 ASan/UBSan"])
