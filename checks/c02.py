"""C02 — genetic operators only produce well-formed, well-typed individuals.

Lean: Vita/C02/{Model,Lemmas,Props}.lean (WF, operators as functions of explicit draws AND of the environment
they are given, decidable step relations, closure theorem over histories with one environment per step).
Tie 1: tools/translate_mep_ops.py regenerates Vita/C02/Gen.lean (loop bounds, draw ranges, index expressions of
the operators – recording WHICH quantity each bound uses: size() of the individual or a field of the problem –,
the wedge loop of sum_container::roulette, the views symbol_set::roulette* ask, locus::operator<, the exon walk
of random_locus, from the clang AST) and Props.lean proves that they denote the model's operators (gen_*).  Tie 2: relational refinement — harness/c02_ops.cc runs the REAL
operators (every crossover flavour forced through the VITA_VERIF hook) on real individuals and
prints pre/post genomes; the compiled Lean driver decides `WF post` and the operator's `Step`
relation for every observed call; an independent C++ oracle (well-formedness + provenance, written
from the property text, not is_valid) judges the same call; every result is executed under
ASan/UBSan.  Disagreements are examined (search: replay in the assertion-enabled build).
The environment of the problem (code_length, patch_length, team size) is edited during the histories:
operators receive individuals / teams built under an earlier environment (shorter or longer than the
current code_length, possibly no longer than the current patch_length), individuals of different sizes
coexist; the request of `mutation` / `tmutation` carries the environment it was given.
"""
import concurrent.futures as cf
import glob
import json
import os
import re
import sys

from vlib import common as C

sys.path.insert(0, os.path.join(C.ROOT, "tools"))
import translate_mep_ops  # noqa: E402
from cxx2lean import Refuse  # noqa: E402

SAN = {"ASAN_OPTIONS": "detect_leaks=1:abort_on_error=0:exitcode=99:allocator_may_return_null=1",
       "UBSAN_OPTIONS": "print_stacktrace=1:halt_on_error=1:exitcode=98"}

# step-level clauses of the property text itself (C++ oracle `why=`; ill-formedness is reported through
# wf=0); any other reason is a relation-only disagreement
PROPERTY_WHY = re.compile(
    r"^(walk-leaves-genome|offspring-size|offspring-age|gene-from-neither-parent|p=0-changed-something|"
    r"cse-redirect-not-later)$")

FLAVOURS = {0: "one_point", 1: "two_points", 2: "tree", 3: "uniform"}


def parse_o(line):
    t = line.split()
    d = {"scenario": int(t[1]), "opn": int(t[2]), "op": t[3]}
    for kv in t[4:]:
        k, _, v = kv.partition("=")
        d[k] = v
    info = {}
    if d.get("info", "-") != "-":
        for kv in d["info"].split(","):
            k, _, v = kv.partition(":")
            info[k] = int(v)
    d["info"] = info
    return d


def request_of(lline, op):
    """the part of an `L` line that is known before the call (replayable request)"""
    t = lline.split()
    if op == "random":
        # random <ss> <pl> IND -> random <ss> <pl> <rows>
        return " ".join(t[:3] + [t[3]])
    return None


def run_shard(exe, args, stdin=None):
    """Run the harness; returns (records, deaths).  A record = (L line, parsed O line)."""
    recs, deaths, restarts = [], [], 0
    while True:
        try:
            rc, so, se = C.run_harness(exe, args, inp=stdin, timeout=2400, env=SAN)
        except Exception as e:   # timeout: nothing can be attributed
            deaths.append({"request": None, "rc": -1, "stderr": "harness timeout: %r" % (e,), "scenario": None})
            break
        lines = so.split("\n")
        cur, scen = None, None
        ended = False
        for ln in lines:
            if ln.startswith("L "):
                cur = ln[2:]
            elif ln.startswith("O ") and cur is not None:
                try:
                    recs.append((cur, parse_o(ln)))
                except (ValueError, IndexError):
                    pass
                cur = None
            elif ln.startswith("S "):
                scen = int(ln.split()[1])
            elif ln.startswith("E "):
                ended = True
            elif ln.startswith("X "):
                deaths.append({"request": None, "rc": 0, "stderr": "replay refused: " + ln, "scenario": scen})
        if rc == 0 and ended:
            break
        # died: `cur` is the (possibly partial) request of the call that was running
        deaths.append({"request": cur, "rc": rc, "stderr": se[-2500:], "scenario": scen})
        restarts += 1
        if args[0] != "run" or scen is None or restarts > 6:
            break
        first, last = scen + 1, int(args[3])
        if first >= last:
            break
        args = ["run", args[1], str(first), str(last)]
    return recs, deaths


def san_kind(stderr):
    m = re.search(r"(AddressSanitizer: [\w-]+|runtime error: [^\n]{0,120}|LeakSanitizer: [^\n]{0,60}|Assertion `[^']{0,120}' failed)", stderr)
    return m.group(1) if m else "abort"


def run(chk, replay=None):
    broken = []
    # loop bounds / draw ranges / index expressions of the operators, from the clang AST of the current
    # sources (Gen.lean); Props.lean proves (gen_*) that they denote the model's operators
    gen_changed = False
    try:
        tables, gen_changed = translate_mep_ops.emit(os.path.join(C.LEAN, "Vita", "C02", "Gen.lean"))
        chk.cov["translated"] = {"ctor_writes": len(tables["ctor"]), "destroy_writes": len(tables["destroy"]),
                                 "crossover_cases": [n for _, n in tables["xoverCases"]],
                                 "integer_draws": {k[6:]: len(tables[k]["draws"]) for k in tables if k.startswith("xover_")},
                                 "gene_arg_bits": tables["geneArgs"]["bits"],
                                 "ctor_dims": [x[0] for x in tables["ctorDims"]],
                                 "mutation_candidate_cases": str(tables["mutationCand"]).count("'cond'") + 1,
                                 "wedge_loop": {"cmp": tables["wedge"]["cmp"], "step": [v for v, _ in tables["wedge"]["step"]]},
                                 "roulette_views": [tables["rouletteSel"]["guard"], tables["rouletteSel"]["then"],
                                                    tables["rouletteSel"]["else"], tables["rouletteTerminal"]],
                                 "random_locus": tables["randomLocus"]["container"] + " " + tables["randomLocus"]["advance"],
                                 "exon_iterator": tables["exonIter"]["container"] + " " + tables["exonIter"]["atEnd"]}
        chk.cov["gen_changed_vs_committed"] = bool(gen_changed)
    except Refuse as e:
        broken.append("tools/translate_mep_ops.py refuses the current sources (unknown shape of an operator): %s" % e)
    ok, msg = chk.prove("Vita.C02.Props", ["Vita.C02.Props", "c02_driver"])
    if not ok:
        broken.append(("the bounds extracted from the current C++ sources (Vita/C02/Gen.lean, regenerated) differ from "
                       "the committed ones and the theorems of Vita.C02.Props no longer check: " if gen_changed else
                       "theorems of Vita.C02.Props no longer check: ") + msg)
    drv_ok = os.path.exists(C.driver_path("c02_driver")) and C.lake_build(["c02_driver"])[0]
    if not drv_ok:
        broken.append("the C02 driver does not build")

    exe = C.build_harness("c02_ops", "asan")
    # sets 9.. are generated from the seed: a replay uses the seed recorded in the replay file
    set_seed = chk.seed
    if replay:
        rj = json.load(open(replay))
        set_seed = int((rj.get("replay") or {}).get("seed", rj.get("seed", chk.seed)))
    rc, sets_out, se = C.run_harness(exe, ["sets", str(set_seed)], env=SAN)
    ss_lines = [l for l in sets_out.splitlines() if l.startswith("ss ")]
    chk.cov["symbol_sets"] = len(ss_lines)
    if rc != 0 or not ss_lines:
        broken.append("the harness cannot build its symbol sets: rc=%s %s" % (rc, se[-300:]))
    set_arity = {}
    for l in ss_lines:           # ss <id> <cats> <n> { opcode cat parametric weight arity argcat* }
        t = [int(x) for x in l.split()[1:]]
        p, ars = 3, []
        for _ in range(t[2]):
            ars.append(t[p + 4])
            p += 5 + t[p + 4]
        set_arity[t[0]] = ars
        chk.cov.setdefault("symbol_set_arities", {})[str(t[0])] = \
            {"categories": t[1], "arities": sorted(ars), "heap": sum(1 for a in ars if a > 4)}

    # ---- what to run ------------------------------------------------------
    jobs = []          # (label, args, stdin)
    probe_big = True
    if replay:
        r = json.load(open(replay))["replay"]
        a = r.get("args") or []
        if a and a[0] == "replay" and r.get("stdin"):    # a corpus file (the record carries its requests)
            jobs.append(("replay", a, r.get("stdin")))
        elif a and a[0] == "run" and r.get("scenario") is not None:   # a generated scenario
            jobs.append(("replay", ["run", a[1], str(r["scenario"]), str(r["scenario"] + 1)], None))
        elif r.get("request"):
            jobs.append(("replay", ["replay", str(set_seed), "25"], r["request"] + "\n"))
        probe_big = r.get("probe") == "big"
        if not jobs and not probe_big:                   # a broken proof / correspondence: run everything
            replay, probe_big = None, True
    if replay:
        pass
    else:
        corpus = sorted(glob.glob(os.path.join(C.ROOT, "corpus", "C02", "*.req")))
        for f in corpus:
            jobs.append(("corpus:" + os.path.basename(f), ["replay", str(set_seed), "8"], open(f).read()))
        chk.cov["corpus_files"] = len(corpus)
        nscen = 3000 if chk.tier == "quick" else 120000     # ≈ 2.9 M calls: ≈ 14 min on 4 cores of a box with load 70
        nshard = 4 if chk.tier == "quick" else 64
        step = (nscen + nshard - 1) // nshard
        for s in range(nshard):
            jobs.append(("gen", ["run", str(chk.seed), str(s * step), str(min(nscen, (s + 1) * step))], None))
        chk.cov["scenarios"] = nscen

    def work(j):
        recs, deaths = run_shard(exe, j[1], j[2])
        lean = None
        if drv_ok and recs:
            try:
                lean = C.run_driver("c02_driver", ss_lines + [r[0] for r in recs])[len(ss_lines):]
            except RuntimeError as e:
                lean = ["bad-op driver-died %s" % str(e)[:80]] * len(recs)
        return recs, deaths, lean

    ex = cf.ThreadPoolExecutor(4)
    results = ex.map(work, jobs)

    # the admissibility probe for very long genomes (C++ oracle only)
    if probe_big:
        rc, so, se = C.run_harness(exe, ["big"], env=SAN, timeout=600)
        for ln in so.splitlines():
            if ln.startswith("G "):
                d = dict(kv.split("=", 1) for kv in ln.split()[1:])
                chk.count("big:" + ("accepted" if d["accepted"] == "1" else "rejected"))
                if d["accepted"] == "1" and d["wf"] != "1":
                    chk.violation("code_length=%s is accepted by environment::is_valid but i_mep(problem) builds an "
                                  "ill-formed individual (C++ oracle: %s)"
                                  % (d["len"], d["why"]), {"probe": "big", "line": ln},
                                  tags={"op": "random", "kind": "code-length-overflow"})
        if rc != 0:
            chk.violation("the long-genome probe aborted: " + san_kind(se), {"probe": "big", "stderr": se[-1500:]},
                          tags={"op": "random", "kind": "code-length-overflow"})

    # degenerate symbol sets (zero total weights, category gaps): whatever symbol_set::is_valid /
    # problem::is_valid accept must be usable by random construction (one process per case)
    if probe_big:
        for k in range(5):
            rc, so, se = C.run_harness(exe, ["weights", str(k)], env=SAN, timeout=600)
            ln = next((l for l in so.splitlines() if l.startswith("W ")), "W case-%d" % k)
            name = ln.split()[1]
            d = dict(kv.split("=", 1) for kv in ln.split()[2:] if "=" in kv)
            chk.count("degenerate-set:" + ("accepted" if d.get("accepted") == "1" else "rejected"))
            if rc != 0 or (d.get("accepted") == "1" and d.get("wf") != "1"):
                chk.violation("symbol set `%s` is accepted by symbol_set::is_valid()/problem::is_valid() but "
                              "i_mep(problem) on it %s" % (name, ("aborts: " + san_kind(se)) if rc != 0 else
                                                          "builds an ill-formed individual (%s)" % d.get("why")),
                              {"probe": "big", "case": name, "line": ln, "stderr": se[-1500:]},
                              tags={"op": "random", "kind": "degenerate-symbol-set", "case": name})

    # ---- the Lean side ------------------------------------------------------
    suspects = []          # relation-only disagreements (searched further below)
    nlean_fail = 0
    for (label, args, jstdin), (recs, deaths, lean) in zip(jobs, results):
        for d in deaths:
            req = d["request"]
            kind = san_kind(d["stderr"])
            t = (req or "?").split()
            opname = t[0] if t else "?"
            if req is None:      # e.g. LeakSanitizer at exit: attribute through the allocation stack
                m = re.search(r"vita::i_mep::(cse|mutation|replace|destroy_block|get_block)|vita::(crossover)", d["stderr"])
                if m:
                    opname = m.group(1) or m.group(2)
            tags = {"op": opname, "kind": "sanitizer-abort", "san": kind}
            if opname in ("mutation", "tmutation") and len(t) > 6 and all(x.isdigit() for x in t[1:7]):
                # mutation <ss> <env code_length> <env patch_length> <zero?> [<k>] <rows> …
                rows_ = int(t[5] if opname == "mutation" else t[6])
                tags.update({"env_code_length": int(t[2]), "env_patch_length": int(t[3]), "rows": rows_,
                             "env_patch_length_exceeds_size": int(t[3]) > rows_})
            chk.count("death:" + tags["op"])
            chk.violation("the harness died (rc=%s, %s) in a real operator call (%s): %s"
                          % (d["rc"], kind, opname, (req or "(reported at exit)")[:200]),
                          {"request": req, "stderr": d["stderr"], "scenario": d["scenario"],
                           "seed": set_seed, "args": args}, tags=tags)
        if not recs:
            continue
        for i, (lline, o) in enumerate(recs):
            op, info = o["op"], o["info"]
            ans = lean[i] if lean is not None and i < len(lean) else None
            nontriv = info.get("trivial", 0) == 0
            chk.seen(lline, nontrivial=nontriv)
            chk.count("op:" + op)
            chk.count("set:%d" % info.get("set", -1))
            rows = info.get("rows", 0)
            chk.count("rows:" + ("2" if rows == 2 else "3" if rows == 3 else "4-8" if rows <= 8 else
                                 "9-24" if rows <= 24 else "25-64"))
            if op in ("crossover",):
                chk.count("flavour:" + FLAVOURS.get(info.get("flavour"), "?") + (":forced" if info.get("forced") else ":natural"))
                if info.get("ages_differ"):
                    chk.count("crossover:parents-of-different-age")
            if op == "cse":
                chk.count("cse:redirects>0" if info.get("redirects") else "cse:no-redirect")
            if op in ("mutation", "tmutation"):
                chk.count("mutation:n=0" if info.get("n") == 0 else "mutation:n>0")
                if "pgm%" in info:
                    chk.count("mutation:pgm=%d%%" % info["pgm%"])
            if "team" in info:
                chk.count("team:%d" % info["team"])
            # the operand against the environment the operator was given
            if "szenv" in info:
                rel = ("<", "=", ">")
                chk.count("%s:size%scode_length-of-the-environment" % (op, rel[info["szenv"]]))
                chk.count("%s:size%spatch_length-of-the-environment" % (op, rel[info["szpl"]]))
                if info["szenv"] != 1:
                    chk.count("calls-under-an-environment-that-does-not-fit-the-operand")
            if info.get("drift"):
                chk.count("environment-edited-before-this-call")
            if info.get("mixed"):
                chk.count("tmutation:members-of-different-sizes")
            if op == "tmutation" and "envteam" in info and info["envteam"] != info.get("team"):
                chk.count("tmutation:team-size-differs-from-env.team.individuals")
            # REAL argument counts of the genes of the result, overwrites across the inline/heap boundary
            for k, v in info.items():
                if k.startswith("ar") and k[2:].isdigit():
                    chk.count("result-genes:args=" + ("9+" if k == "ar9" else k[2:]), v)
                elif k in ("shrink", "grow", "heap2heap"):
                    chk.count("overwrite:%s:%s" % (op, k), v)
                elif k in ("xshort", "xlong"):
                    chk.count("overwrite:%s:parents-differ-in-length:%s-gene-kept" % (op, k[1:]), v)
            if max(set_arity.get(info.get("set"), [0]) or [0]) > 4:
                chk.count("calls-on-sets-with-heap-genes")
            if "pl" in info and info["pl"] > 1:
                chk.count("patch>1")
            if o["expect"] == "bad":
                chk.count("malformed")
            cxx_ok = o["wf"] == "1" and o["step"] == "1"
            exec_ok = o["exec"] in ("ok", "skipped")
            lean_ok = ans == "ok" if ans is not None else None
            if ans is not None and ans.startswith("bad-op"):
                broken.append("driver cannot read a harness line (%s): %s" % (ans, lline[:160]))
                continue
            tags = {"op": op, "set": info.get("set"), "rows": rows, "why": o["why"],
                    "flavour": FLAVOURS.get(info.get("flavour")), "lean": ans}
            if "envlen" in info:
                tags.update({"env_code_length": info["envlen"], "env_patch_length": info.get("pl")})
            rep = {"request_line": lline, "oracle": o, "lean": ans, "seed": set_seed, "args": args,
                   "stdin": jstdin, "scenario": o["scenario"], "op_index": o["opn"]}
            if o["expect"] == "bad":
                if cxx_ok or lean_ok:
                    broken.append("a malformed individual (replace with an incompatible gene) is accepted: "
                                  "lean=%s oracle wf=%s step=%s: %s" % (ans, o["wf"], o["step"], lline[:200]))
                continue
            if lean_ok is False:
                nlean_fail += 1
            if not exec_ok:
                chk.violation("executing the result of %s raised %s (the program left its typing discipline)"
                              % (op, o["exec"]), rep, tags=tags)
            elif not cxx_ok and (o["wf"] != "1" or PROPERTY_WHY.search(o["why"])):
                chk.violation("%s produced an individual violating the property (C++ oracle: %s; Lean: %s)"
                              % (op, o["why"], ans), rep, tags=tags)
            elif not cxx_ok or lean_ok is False:
                suspects.append((rep, tags))
            if i % 1499 == 0:
                chk.sample({"request": lline[:300], "oracle": {k: o[k] for k in ("wf", "step", "valid", "exec", "why")},
                            "lean": ans})
    ex.shutdown()
    chk.cov["lean_rejections"] = nlean_fail
    chk.cov["relation_only_disagreements"] = len(suspects)

    # ---- search: a relation-only disagreement is replayed in the assertion-enabled build --------
    if suspects:
        found = False
        try:
            exe_dbg = C.build_harness("c02_ops", "asan-dbg")
        except RuntimeError as e:
            exe_dbg = None
            chk.notes.append("assertion-enabled build failed: %s" % str(e)[:300])
        for rep, tags in suspects[:6]:
            t = rep["request_line"].split()
            op = t[0]
            # the request = the line minus the post individual(s); re-derive by replaying the scenario
            if exe_dbg is not None:
                if rep["args"][0] == "run":
                    recs, deaths = run_shard(exe_dbg, ["run", rep["args"][1], str(rep["scenario"]), str(rep["scenario"] + 1)])
                else:
                    recs, deaths = run_shard(exe_dbg, rep["args"], rep["stdin"])
                for d in deaths:
                    same_call = d["request"] and rep["request_line"].startswith(d["request"].strip())
                    if "Assertion" in d["stderr"] and same_call:
                        found = True
                        chk.violation("%s violates a precondition inside vita (assertion-enabled build): %s; in the "
                                      "release build the result is not an admissible outcome of the operator "
                                      "(C++ oracle: %s, Lean: %s)" % (op, san_kind(d["stderr"]), rep["oracle"]["why"], rep["lean"]),
                                      dict(rep, dbg_stderr=d["stderr"][-1200:]),
                                      tags=dict(tags, kind="contract-violation", san=san_kind(d["stderr"])))
                        break
        if not found:
            rep, tags = suspects[0]
            broken.append("the step relation of `%s` no longer describes the real operator: Lean says %r, the C++ "
                          "provenance oracle says %r on %s" % (tags["op"], rep["lean"], rep["oracle"]["why"],
                                                               rep["request_line"][:300]))
            chk.cov["first_divergence"] = rep

    if broken and not [v for v in chk.violations if not v[2]]:
        for b in broken[:3]:
            chk.violation(b, {"broken": b, "searched": "%d real operator calls judged by the C++ oracle "
                              "(well-formedness, provenance, execution under ASan/UBSan) and replay of the "
                              "diverging calls in the assertion-enabled build: no failing input" % chk.evaluations},
                          no_input=True)
    elif broken:
        chk.notes += broken[:5]

    return chk.finish(
        level="proof",
        checker_cmd="python3 tools/translate_mep_ops.py > lean/Vita/C02/Gen.lean && lake build Vita.C02.Props c02_driver && "
                    "lake env lean <#print axioms for every theorem>",
        rule="one evaluation = one real operator call (random construction, mutation, 4 crossover flavours, "
             "get_block, replace, destroy_block, cse, team construction (from a problem / from given members), "
             "team mutation/crossover/inc_age) whose pre/post genomes "
             "are judged by the Lean driver (WF + Step relation), by the C++ oracle and by execution under "
             "ASan/UBSan; distinct = distinct request lines whose result differs from its operand(s)",
        trusted=["Lean 4.33 kernel", "tools/translate_mep_ops.py + cxx2lean.py (clang-14 JSON AST -> loop bounds, draw ranges, "
                 "index expressions, the roulette wedge loop, the views asked by roulette / roulette_terminal, locus "
                 "operator<, the shape of random_locus; shapes it does not know are refused)",
                 "Vita/C02/GenSem.lean (meaning of loops / writes / draws / the wedge-loop language / the ordered-set walk)", "harness/c02_ops.cc (printing of genomes through operator[] / best() / age() / "
                 "the VITA_VERIF flavour accessor)", "hand-written model Vita/C02/Model.lean (bounds and index expressions tied by translation + "
                 "gen_* theorems, the rest by the relational check)", "g++ 12 ASan/UBSan", "contracts of std::uniform_int_distribution / bernoulli_distribution"])
