"""C03 — a signature identifies the active program and is never stale.

Proof side   lean/Vita/C03/Props.lean (pack is a function of the active tree only and an
             injective one; cache discipline `SigInv` preserved by every public mutator, whose
             treatment of `signature_` is read from the table generated from the clang AST;
             generated obligation: the effect skeleton of every member that touches the content
             passes the (proved sound) analysis `Eff.safe`).
Translator   tools/translate_mutators.py -> lean/Vita/C03/GenMutators.lean
Tie          harness/c03_sig.cc driven interactively:
             (a) factorisation  packed stream (computed by the Lean driver from the serialised
                 genome) |-> from-scratch C++ signature must be a function and injective over the
                 whole run (engineered pairs: same tree / different layouts and introns; trees
                 differing in one symbol, one constant, one argument order);
             (b) freshness      after every mutator of random histories, signature() == signature
                 of an equal object rebuilt from scratch (the harness's own oracle), is_valid();
             (c) informational  C++ hash128 vs Lean murmur on byte strings of every length 0..64.
             equal signatures => equal outputs: equal-signature individuals are run on random inputs.
"""
import json
import os
import subprocess
import sys

from vlib import common as C

sys.path.insert(0, os.path.join(C.ROOT, "tools"))

PID = "C03"


# ---------------------------------------------------------------------------------------------
# talking to the harness
# ---------------------------------------------------------------------------------------------
class Dead(Exception):
    pass


class Session:
    """Interactive line session with harness/c03_sig (keeps the full request log = the replay)."""

    def __init__(self, exe, problem, seed):
        self.exe, self.problem, self.seed = exe, problem, seed
        env = dict(os.environ)
        env.update(C.SAN_ENV)
        self.errf = open(os.path.join(C.BUILD, "c03_stderr_%d.txt" % problem), "w+")
        self.p = subprocess.Popen([exe], stdin=subprocess.PIPE, stdout=subprocess.PIPE,
                                  stderr=self.errf, env=env)
        self.log = []
        a = self.ask("setup %d %d" % (problem, seed))
        if a != "ok setup":
            raise RuntimeError("harness setup failed: " + a)

    def ask(self, line):
        self.log.append(line)
        try:
            self.p.stdin.write((line + "\n").encode())
            self.p.stdin.flush()
            a = self.p.stdout.readline().decode("utf-8", "replace")
        except (BrokenPipeError, OSError):
            a = ""
        if not a:
            self.p.wait()
            self.errf.seek(0)
            raise Dead("harness died rc=%s on `%s`\n%s" % (self.p.returncode, line, self.errf.read()[-2500:]))
        return a.rstrip("\n")

    def close(self):
        try:
            self.p.stdin.close()
            self.p.wait(timeout=60)
        except Exception:
            self.p.kill()
        self.errf.close()


def parse_answer(a):
    """ok <content> | sig d0 d1 | fresh d0 d1 | valid v [| extra]  ->  dict"""
    if not a.startswith("ok "):
        return None
    parts = [p.strip() for p in a[3:].split(" | ")]
    r = {"content": parts[0], "extra": ""}
    for p in parts[1:]:
        t = p.split()
        if t[0] in ("sig", "fresh"):
            r[t[0]] = (t[1], t[2])
        elif t[0] == "valid":
            r["valid"] = t[1] == "1"
        else:
            r["extra"] = p
    return r


def parse_mep(content):
    t = content.split()
    rows, cols, bi, bc = int(t[1]), int(t[2]), int(t[3]), int(t[4])
    genes = []
    for g in t[5:]:
        o, p, a = g.split(":")
        genes.append((int(o), int(p), [] if a == "-" else [int(x) for x in a.split(",")]))
    return {"rows": rows, "cols": cols, "best": (bi, bc), "genes": genes}


def gene_s(g):
    return "%d:%d:%s" % (g[0], g[1], ",".join(str(x) for x in g[2]) if g[2] else "-")


# ---------------------------------------------------------------------------------------------
# symbols, trees, layouts
# ---------------------------------------------------------------------------------------------
class Syms:
    def __init__(self, symtab_line):
        self.lines = [s.strip() for s in symtab_line.split(" ; ")]
        self.by_op = {}
        for s in self.lines:
            t = s.split()
            self.by_op[int(t[1])] = {"op": int(t[1]), "cat": int(t[2]), "param": t[3] == "1",
                                     "args": [int(x) for x in t[4:]]}
        self.cats = sorted({s["cat"] for s in self.by_op.values()})
        self.terms = {c: [s for s in self.by_op.values() if s["cat"] == c and not s["args"]] for c in self.cats}
        self.funcs = {c: [s for s in self.by_op.values() if s["cat"] == c and s["args"]] for c in self.cats}
        self.all = {c: self.terms[c] + self.funcs[c] for c in self.cats}


SPECIAL_PARAMS = [0x0000000000000000, 0x8000000000000000, 0x3FF0000000000000, 0x3FF0000000000001,
                  0xBFF0000000000000, 0x4000000000000000, 0x4008000000000000, 0x3FE0000000000000,
                  0x7FEFFFFFFFFFFFFF, 0x0010000000000000, 0x0000000000000001, 0x40590000000000FF]


def rnd_param(rng):
    k = rng.below(4)
    if k == 0:
        return rng.choice(SPECIAL_PARAMS)
    if k == 1:  # small integers
        import struct
        return struct.unpack("<Q", struct.pack("<d", float(rng.between(-20, 21))))[0]
    while True:  # random finite double
        b = rng.next()
        if (b >> 52) & 0x7FF != 0x7FF:
            return b


NAN_BITS = [0x7FF8000000000000, 0xFFF8000000000000, 0x7FF8000000000001, 0x7FF4000000000000,
            0xFFF0000000000001, 0x7FFFFFFFFFFFFFFF]
INF_BITS = [0x7FF0000000000000, 0xFFF0000000000000]


def is_nan_bits(b):
    return (b >> 52) & 0x7FF == 0x7FF and b & 0xFFFFFFFFFFFFF != 0


def twin_bits(rng, b):
    """VALUE CLASSES: a double of the same `==` / `almost_equal` / "both NaN" class as the double with
    bit pattern `b`, but with ANOTHER bit pattern.  The signature hashes bytes, so a mutator that
    decides "nothing changed" with a numeric comparison must be driven with exactly these values.
      ±0.0                 `==`-equal, different bytes
      NaN, other payload   neither `==` nor `!=`-stable: `x != x`
      1 ulp / 1e-9 apart   equal for gene::operator== (almost_equal, relative 1e-5)"""
    if b & 0x7FFFFFFFFFFFFFFF == 0:
        return b ^ (1 << 63)
    if is_nan_bits(b):
        return rng.choice([x for x in NAN_BITS if x != b])
    if (b >> 52) & 0x7FF == 0x7FF:          # ±inf has no twin: a NaN instead
        return rng.choice(NAN_BITS)
    k = rng.below(3)
    t = b ^ 1 if k == 0 else (b + rng.between(2, 1 << 22) if k == 1 else b - rng.between(1, 1 << 22))
    if t < 0 or t >> 63 != b >> 63 or (t >> 52) & 0x7FF == 0x7FF:
        t = b ^ 1
    return t


def rnd_de(rng):
    """random double of moderate magnitude (differences and sums stay finite)"""
    b = rng.next()
    e = 1023 + rng.between(-60, 60)
    return (b & 0x800FFFFFFFFFFFFF) | (e << 52)


def gen_tree(sy, rng, cat, depth):
    """tree = (op, parbits, [kids])"""
    if depth <= 0 or not sy.funcs[cat] or rng.chance(0.25):
        s = rng.choice(sy.terms[cat])
        return (s["op"], rnd_param(rng) if s["param"] else 0, [])
    s = rng.choice(sy.funcs[cat])
    return (s["op"], 0, [gen_tree(sy, rng, c, depth - 1) for c in s["args"]])


def zero_params(sy, rng, t):
    """all constants become +0.0 / -0.0 (equal as numbers, different as bytes)"""
    kids = [zero_params(sy, rng, k) for k in t[2]]
    par = rng.choice([0, 1 << 63]) if sy.by_op[t[0]]["param"] else t[1]
    return (t[0], par, kids)


def tree_nodes(t, path=()):
    yield path, t
    for i, k in enumerate(t[2]):
        yield from tree_nodes(k, path + (i,))


def tree_replace(t, path, new):
    if not path:
        return new
    kids = list(t[2])
    kids[path[0]] = tree_replace(kids[path[0]], path[1:], new)
    return (t[0], t[1], kids)


def tree_key(t):
    return (t[0], t[1], tuple(tree_key(k) for k in t[2]))


def mutate_tree(sy, rng, t):
    """a tree differing from t in exactly one respect; returns (kind, tree) or None"""
    nodes = list(tree_nodes(t))
    for _ in range(20):
        path, n = rng.choice(nodes)
        s = sy.by_op[n[0]]
        kind = rng.choice([0, 1, 1, 2, 2, 3])
        if kind == 0:   # one symbol (same signature of arguments)
            alts = [x for x in sy.all[s["cat"]] if x["args"] == s["args"] and x["op"] != s["op"]]
            if alts:
                a = rng.choice(alts)
                par = n[1] if (a["param"] and s["param"]) else (rnd_param(rng) if a["param"] else 0)
                return "symbol", tree_replace(t, path, (a["op"], par, n[2]))
        elif kind == 1 and s["param"]:   # one constant
            alts = [n[1] ^ 1, n[1] ^ (1 << 63), rnd_param(rng), n[1] ^ (1 << 52)]
            p = rng.choice(alts)
            if p != n[1] and (p >> 52) & 0x7FF != 0x7FF:
                return "constant", tree_replace(t, path, (n[0], p, []))
        elif kind == 2 and len(n[2]) >= 2:   # argument order
            i, j = rng.below(len(n[2])), rng.below(len(n[2]))
            if i != j and s["args"][i] == s["args"][j] and tree_key(n[2][i]) != tree_key(n[2][j]):
                kids = list(n[2])
                kids[i], kids[j] = kids[j], kids[i]
                return "argorder", tree_replace(t, path, (n[0], n[1], kids))
        elif kind == 3:   # a whole subtree
            new = gen_tree(sy, rng, s["cat"], 2)
            if tree_key(new) != tree_key(n):
                return "subtree", tree_replace(t, path, new)
    return None


def rnd_gene(sy, rng, row, cat, rows):
    """a valid random gene for cell (row, cat) of a genome with `rows` rows"""
    if row >= rows - 1:
        s = rng.choice(sy.terms[cat])
    else:
        s = rng.choice(sy.all[cat])
    return (s["op"], rnd_param(rng) if s["param"] else 0,
            [rng.between(row + 1, rows) for _ in s["args"]])


def layout(sy, rng, t, share, extra_rows, ncols):
    """place tree t in a genome: returns content dict (rows, cols, best, genes)"""
    # DAG of nodes (hash-consed when `share`)
    ids, nodes = {}, []       # nodes[i] = (op, par, [child ids])

    def add(n):
        kids = [add(k) for k in n[2]]
        key = (n[0], n[1], tuple(kids))
        if share and key in ids:
            return ids[key]
        nodes.append((n[0], n[1], kids))
        ids[key] = len(nodes) - 1
        return len(nodes) - 1

    root = add(t)
    # random topological order (parents first)
    indeg = [0] * len(nodes)
    for n in nodes:
        for k in set(n[2]):
            indeg[k] += 1
    ready, order = [root], []
    while ready:
        i = ready.pop(rng.below(len(ready)))
        order.append(i)
        for k in set(nodes[i][2]):
            indeg[k] -= 1
            if indeg[k] == 0:
                ready.append(k)
    assert len(order) == len(nodes)
    rows = len(order) + extra_rows
    chosen = sorted(rng_sample(rng, rows, len(order)))
    # the last node of the order is a leaf; it may sit anywhere, the last row is filled below
    row_of = {n: chosen[i] for i, n in enumerate(order)}
    genes = {}
    for n in order:
        op, par, kids = nodes[n]
        genes[(row_of[n], sy.by_op[op]["cat"])] = (op, par, [row_of[k] for k in kids])
    out = []
    for i in range(rows):
        for c in range(ncols):
            g = genes.get((i, c))
            if g is None:
                g = rnd_gene(sy, rng, i, c, rows)
            elif i == rows - 1 and g[2]:
                raise AssertionError("function in the last row")
            out.append(g)
    return {"rows": rows, "cols": ncols, "best": (row_of[root], sy.by_op[t[0]]["cat"]), "genes": out}


def rng_sample(rng, n, k):
    xs = list(range(n))
    for i in range(k):
        j = i + rng.below(n - i)
        xs[i], xs[j] = xs[j], xs[i]
    return xs[:k]


def build_line(slot, m):
    return "mep build %d %d %d %d %d %s" % (slot, m["rows"], m["cols"], m["best"][0], m["best"][1],
                                            " ".join(gene_s(g) for g in m["genes"]))


def active_loci(sy, m):
    seen, todo = [], [m["best"]]
    while todo:
        l = todo.pop()
        if l in seen:
            continue
        seen.append(l)
        g = m["genes"][l[0] * m["cols"] + l[1]]
        for a, c in zip(g[2], sy.by_op[g[0]]["args"]):
            todo.append((a, c))
    return sorted(seen)


# ---------------------------------------------------------------------------------------------
# one problem = one harness session
# ---------------------------------------------------------------------------------------------
class Run:
    def __init__(self, chk, exe, problem, rng):
        self.chk, self.exe, self.problem, self.rng = chk, exe, problem, rng
        self.s = Session(exe, problem, chk.seed * 7 + problem)
        self.sy = Syms(self.s.ask("symtab"))
        self.obs = []       # (kind, content, fresh sig, request index) for the factorisation check
        self.state = {"mep": {}, "ga": {}, "de": {}, "team": {}}
        self.groups = []    # lists of mep slots built from the same tree

    # -- ask + freshness oracle --------------------------------------------------------------
    def do(self, line, cls, op, expect_change=None):
        a = self.s.ask(line)
        r = parse_answer(a)
        self.chk.count("op:%s.%s" % (cls, op))
        if r is None:
            if a.startswith("fail build"):
                raise RuntimeError("generator produced an individual load() rejects: " + line)
            raise RuntimeError("harness answered `%s` to `%s`" % (a[:200], line))
        self.chk.seen((self.problem, r["content"], op))
        idx = len(self.s.log) - 1
        kind = r["content"].split()[0]
        if r.get("fresh", ("?", "?"))[0] == "?":
            raise RuntimeError("harness could not rebuild the object from scratch after `%s`" % line)
        if r["sig"] != r["fresh"]:
            self.violate("stale signature: after `%s` signature() reports %s but an equal %s rebuilt from "
                         "scratch has %s" % (line, " ".join(r["sig"]), kind, " ".join(r["fresh"])),
                         idx, {"kind": "stale", "cls": cls, "op": op})
        elif not r["valid"]:
            self.violate("is_valid() is false after `%s`" % line, idx, {"kind": "invalid", "cls": cls, "op": op})
        self.obs.append((kind, r["content"], r["fresh"], idx))
        if kind in ("ga", "de"):
            c = r["content"].split()
            self.state[kind][int(line.split()[2])] = {"n": int(c[1]), "v": [int(x) for x in c[2:]]}
        if r["sig"] != r["fresh"] and op != "ctor":
            # stop the cascade: an object whose cache is stale stays stale through copies
            t = line.split()
            r = self.do("%s new %s" % (t[0], t[2]), cls, "ctor")
        return r

    def violate(self, what, idx, tags):
        self.chk.count("violations_raw")
        key = (tags.get("kind"), tags.get("cls"), tags.get("op"))
        if key in self.chk.__dict__.setdefault("_c03_reported", set()):
            return
        self.chk._c03_reported.add(key)
        lines = shrink(self.exe, self.problem, self.s.seed, self.s.log[1:idx + 1], tags) \
            if tags.get("kind") in ("stale", "invalid") else self.s.log[1:idx + 1]
        self.chk.violation(what, {"problem": self.problem, "harness_seed": self.s.seed, "lines": lines,
                                  "tags": tags}, tags=tags)

    # -- engineered individuals ----------------------------------------------------------------
    def engineered(self, n_trees):
        sy, rng = self.sy, self.rng
        ncols = len(sy.cats)
        slot = 1000
        for _ in range(n_trees):
            cat = rng.choice(sy.cats)
            t = gen_tree(sy, rng, cat, rng.between(1, 5))
            zeros = rng.chance(0.25)
            if zeros:
                t = zero_params(sy, rng, t)
            variants = [("same", t)]
            for _k in range(3):
                mt = mutate_tree(sy, rng, t)
                if mt:
                    variants.append(mt)
            for kind, tr in variants:
                grp = []
                for _l in range(2 if kind != "same" else 3):
                    m = layout(sy, rng, tr, share=rng.chance(0.5), extra_rows=rng.below(5), ncols=ncols)
                    r = self.do(build_line(slot, m), "i_mep", "build")
                    self.state["mep"][slot] = parse_mep(r["content"])
                    self.chk.count("engineered:" + kind)
                    grp.append(slot)
                    slot += 1
                self.groups.append(grp)
                # cached signature, then cse() (must keep or refresh it)
                if zeros or rng.chance(0.5):
                    self.do("mep sig %d" % grp[0], "i_mep", "signature")
                    self.do("mep cse %d %d" % (999, grp[0]), "i_mep", "cse")
        return slot

    def run_groups(self):
        """equal signatures => equal outputs (the real interpreter, random inputs)"""
        import struct
        rng = self.rng
        for grp in self.groups:
            for _ in range(2):
                xs = [struct.unpack("<Q", struct.pack("<d", float(rng.between(-9, 10)) / 2))[0] for _ in range(2)]
                outs = []
                for s in grp:
                    a = self.s.ask("mep run %d %d %d" % (s, xs[0], xs[1]))
                    outs.append(a.split(" | ")[0])
                    self.chk.count("op:i_mep.run")
                if len(set(outs)) != 1:
                    self.violate("individuals with the same active tree (same signature) give different outputs "
                                 "on input %s: %s" % (xs, outs), len(self.s.log) - 1,
                                 {"kind": "output", "cls": "i_mep", "op": "run"})

    # -- random histories ----------------------------------------------------------------------
    def history(self, n_ops):
        sy, rng, st = self.sy, self.rng, self.state
        ncols = len(sy.cats)
        NS = 6
        for k in range(NS):
            self.upd("mep", k, self.do("mep new %d" % k, "i_mep", "ctor"))
            self.upd("ga", k, self.do("ga new %d" % k, "i_ga", "ctor"))
            self.upd("de", k, self.do("de new %d" % k, "i_de", "ctor"))
        for k in range(3):
            self.upd("team", k, self.do("team new %d" % k, "team", "ctor"))
        # standard-size individuals with a large active tree as well
        for k in range(NS, NS + 4):
            t = gen_tree(sy, rng, sy.cats[0], 4)
            n = len({tree_key(x) for _, x in tree_nodes(t)})
            rows = st["mep"][0]["rows"]
            for _try in range(30):
                nn = sum(1 for _ in tree_nodes(t))
                if nn <= rows:
                    break
                t = gen_tree(sy, rng, sy.cats[0], 3)
            nn = sum(1 for _ in tree_nodes(t))
            if nn > rows:
                t = gen_tree(sy, rng, sy.cats[0], 1)
                nn = sum(1 for _ in tree_nodes(t))
            m = layout(sy, rng, t, share=False, extra_rows=rows - nn, ncols=ncols)
            self.upd("mep", k, self.do(build_line(k, m), "i_mep", "build"))
        NM = NS + 4
        special = [0, 0x8000000000000000, 0x3FF0000000000000, 0x4024000000000000, 0xC024000000000000]
        for _ in range(n_ops):
            kind = rng.choice(["mep"] * 5 + ["ga"] * 2 + ["de"] * 2 + ["team"] * 2)
            if kind == "mep":
                s, d, b = rng.below(NM), rng.below(NM), rng.below(NM)
                m = st["mep"][s]
                op = rng.choice(["sig", "sig", "mutate", "mutate", "xover", "getblock", "replace", "replacebest",
                                 "destroy", "destroy", "cse", "copy", "assign", "iter", "load", "loadbad",
                                 "twinreplace", "twiniter"])
                if op.startswith("twin"):
                    # value classes: an ACTIVE parametric terminal gets a parameter that gene::operator==
                    # cannot tell from the old one (±0.0, 1 ulp, 1e-9) or a NaN; signature cached first
                    act = active_loci(sy, m)
                    par = [l for l in act if sy.by_op[m["genes"][l[0] * m["cols"] + l[1]][0]]["param"]]
                    if not par:
                        op = "replace"
                    else:
                        if rng.chance(0.8):
                            self.upd("mep", s, self.do("mep sig %d" % s, "i_mep", "signature"))
                        l = rng.choice(par)
                        g0 = m["genes"][l[0] * m["cols"] + l[1]]
                        nb = rng.choice(NAN_BITS) if rng.chance(0.1) else twin_bits(rng, g0[1])
                        g = (g0[0], nb, [])
                        self.chk.count("valueclass:mep-%s" % ("nan" if is_nan_bits(nb) else "almost-equal"))
                        if op == "twinreplace":
                            dd = s if rng.chance(0.5) else d
                            self.upd("mep", dd, self.do("mep replace %d %d %d %d %s" % (dd, s, l[0], l[1], gene_s(g)),
                                                        "i_mep", "replace"))
                        else:
                            self.upd("mep", s, self.do("mep iter %d %d %s" % (s, act.index(l), gene_s(g)),
                                                       "i_mep", "begin"))
                        continue
                if op == "sig":
                    self.upd("mep", s, self.do("mep sig %d" % s, "i_mep", "signature"))
                elif op == "mutate":
                    self.upd("mep", s, self.do("mep mutate %d %d" % (s, rng.choice([0, 40, 300, 1000])), "i_mep", "mutation"))
                elif op == "xover":
                    self.upd("mep", d, self.do("mep xover %d %d %d" % (d, s, b), "i_mep", "crossover"))
                elif op == "getblock":
                    l = rng.choice(active_loci(sy, m)) if rng.chance(0.8) else (rng.below(m["rows"]), rng.below(m["cols"]))
                    self.upd("mep", d, self.do("mep getblock %d %d %d %d" % (d, s, l[0], l[1]), "i_mep", "get_block"))
                elif op == "replace":
                    l = rng.choice(active_loci(sy, m)) if rng.chance(0.6) else (rng.below(m["rows"]), rng.below(m["cols"]))
                    g = rnd_gene(sy, rng, l[0], l[1], m["rows"])
                    self.upd("mep", d, self.do("mep replace %d %d %d %d %s" % (d, s, l[0], l[1], gene_s(g)), "i_mep", "replace"))
                elif op == "replacebest":
                    g = rnd_gene(sy, rng, m["best"][0], m["best"][1], m["rows"])
                    self.upd("mep", d, self.do("mep replacebest %d %d %s" % (d, s, gene_s(g)), "i_mep", "replace"))
                elif op == "destroy":
                    # boundary arguments: the root of the active code, its neighbours, first / last row
                    row = rng.choice([m["best"][0], m["best"][0], min(m["best"][0] + 1, m["rows"] - 1),
                                      max(m["best"][0] - 1, 0), 0, m["rows"] - 1, rng.below(m["rows"]),
                                      rng.below(m["rows"])])
                    if rng.chance(0.7):
                        self.upd("mep", s, self.do("mep sig %d" % s, "i_mep", "signature"))
                    self.upd("mep", d, self.do("mep destroy %d %d %d" % (d, s, row), "i_mep", "destroy_block"))
                elif op == "cse":
                    self.upd("mep", d, self.do("mep cse %d %d" % (d, s), "i_mep", "cse"))
                elif op == "copy":
                    self.upd("mep", d, self.do("mep copy %d %d" % (d, s), "i_mep", "copy"))
                elif op == "assign":
                    self.upd("mep", d, self.do("mep assign %d %d" % (d, s), "i_mep", "operator="))
                elif op == "iter":
                    act = active_loci(sy, m)
                    k = rng.below(len(act))
                    l = act[k]      # the iterator visits the active loci in increasing locus order
                    g = rnd_gene(sy, rng, l[0], l[1], m["rows"])
                    self.upd("mep", s, self.do("mep iter %d %d %s" % (s, k, gene_s(g)), "i_mep", "begin"))
                elif op == "load":
                    self.upd("mep", d, self.do("mep load %d %d" % (d, s), "i_mep", "load"))
                else:
                    before = st["mep"][d]
                    r = self.do("mep loadbad %d %d %d" % (d, s, rng.between(1, 1000)), "i_mep", "load_fail")
                    self.upd("mep", d, r)
            elif kind in ("ga", "de"):
                cls = "i_" + kind
                s, d, b = rng.below(NS), rng.below(NS), rng.below(NS)
                ops = ["sig", "sig", "set", "iter", "iterend", "xover", "copy", "load", "loadbad"]
                ops += ["mutate", "mutate"] if kind == "ga" else \
                    ["assign", "assign", "twinset", "twiniter", "twinassign", "twinassign", "sameassign"]
                op = rng.choice(ops)
                val = (lambda: rng.between(-100, 100)) if kind == "ga" else \
                      (lambda: rng.choice(special) if rng.chance(0.3) else
                       (rng.choice(NAN_BITS + INF_BITS) if rng.chance(0.04) else rnd_de(rng)))
                n = st[kind][s]["n"]
                if op.startswith("twin") or op == "sameassign":
                    # value classes: the new value is ==-equal (±0.0) / both NaN / 1 ulp away from the
                    # value it replaces, the signature is (mostly) cached beforehand
                    if rng.chance(0.8):
                        self.do("de sig %d" % s, cls, "signature")
                    cur = list(st[kind][s]["v"])
                    zs = [i for i, x in enumerate(cur) if x & 0x7FFFFFFFFFFFFFFF == 0 or is_nan_bits(x)]
                    if op == "sameassign":
                        self.do("de assign %d %s" % (s, " ".join(str(x) for x in cur)), cls, "operator=")
                        self.chk.count("valueclass:same")
                    elif op == "twinassign":
                        # only "equal" elements change when there are any (all of v == genome_ then)
                        idx = [i for i in zs if rng.chance(0.7)] or (zs[:1] if zs else [rng.below(n)])
                        for i in idx:
                            cur[i] = twin_bits(rng, cur[i])
                        self.do("de assign %d %s" % (s, " ".join(str(x) for x in cur)), cls, "operator=")
                        self.chk.count("valueclass:%s" % ("eq-not-identical" if zs else "ulp"))
                    else:
                        i = rng.choice(zs) if zs and rng.chance(0.7) else rng.below(n)
                        v = twin_bits(rng, cur[i])
                        if op == "twinset":
                            self.do("de set %d %d %d" % (s, i, v), cls, "operator[]")
                        elif i == n - 1 and rng.chance(0.5):
                            self.do("de iterend %d %d" % (s, v), cls, "end")
                        else:
                            self.do("de iter %d %d %d" % (s, i, v), cls, "begin")
                        self.chk.count("valueclass:%s" % ("eq-not-identical" if i in zs else "ulp"))
                elif op == "sig":
                    self.do("%s sig %d" % (kind, s), cls, "signature")
                elif op == "set":
                    self.do("%s set %d %d %d" % (kind, s, rng.below(n), val()), cls, "operator[]")
                elif op == "iter":
                    self.do("%s iter %d %d %d" % (kind, s, rng.below(n), val()), cls, "begin")
                elif op == "iterend":
                    self.do("%s iterend %d %d" % (kind, s, val()), cls, "end")
                elif op == "mutate":
                    self.do("ga mutate %d %d" % (s, rng.choice([0, 100, 500, 1000])), cls, "mutation")
                elif op == "assign":
                    self.do("de assign %d %s" % (s, " ".join(str(val()) for _ in range(n))), cls, "operator=")
                elif op == "xover":
                    if kind == "ga":
                        self.do("ga xover %d %d %d" % (d, s, b), cls, "crossover")
                    else:
                        self.do("de xover %d %d %d %d %d %d" % (d, s, b, rng.below(NS), rng.below(NS),
                                                                rng.choice([0, 300, 900, 1000])), cls, "crossover")
                elif op == "copy":
                    self.do("%s copy %d %d" % (kind, d, s), cls, "copy")
                elif op == "load":
                    self.do("%s load %d %d" % (kind, d, s), cls, "load")
                else:
                    self.do("%s loadbad %d %d %d" % (kind, d, s, rng.between(1, 1000)), cls, "load_fail")
            else:
                s, d, b = rng.below(3), rng.below(3), rng.below(3)
                op = rng.choice(["sig", "sig", "mutate", "mutate", "xover", "copy", "load", "loadbad", "fromvec"])
                if op == "sig":
                    self.do("team sig %d" % s, "team", "signature")
                elif op == "mutate":
                    self.do("team mutate %d %d" % (s, rng.choice([0, 40, 300, 1000])), "team", "mutation")
                elif op == "xover":
                    self.do("team xover %d %d %d" % (d, s, b), "team", "crossover")
                elif op == "copy":
                    self.do("team copy %d %d" % (d, s), "team", "copy")
                elif op == "load":
                    self.do("team load %d %d" % (d, s), "team", "load")
                elif op == "loadbad":
                    self.do("team loadbad %d %d %d" % (d, s, rng.between(1, 1000)), "team", "load_fail")
                else:
                    # team sizes: mostly the default 3, but also 1, 2 and long teams (the combination of the
                    # members' signatures must keep EVERY member visible: 14+ members expose a lossy `combine`)
                    tn = rng.choice([3, 3, 3, 1, 2, 4, 6, 8, 14, 16, 20, 33])
                    ms = [rng.below(NM) for _ in range(tn)]   # slots 0..NM-1 keep the standard size
                    self.chk.count("team_size:%d" % tn)
                    self.do("team fromvec %d %s" % (d, " ".join(str(x) for x in ms)), "team", "ctor_vector")
                    if tn >= 2 and rng.chance(0.5):   # engineered: teams that differ in their FIRST member only
                        ms1 = [(ms[0] + 1 + rng.below(NM - 1)) % NM] + ms[1:]
                        self.do("team fromvec %d %s" % (b, " ".join(str(x) for x in ms1)), "team", "ctor_vector")
                        self.chk.count("engineered:team_first_member")
                    elif tn >= 3 and rng.chance(0.5):   # the same members in another order: a different team
                        ms2 = ms[1:] + ms[:1] if rng.chance(0.5) else [ms[1], ms[0]] + ms[2:]
                        self.do("team fromvec %d %s" % (b, " ".join(str(x) for x in ms2)), "team", "ctor_vector")
                        self.chk.count("engineered:team_permutation")
                    if tn != 3:   # the slots go back to the standard size: crossover Expects teams of one size
                        for sl in (d, b):
                            self.do("team fromvec %d %s" % (sl, " ".join(str(rng.below(NM)) for _ in range(3))),
                                    "team", "ctor_vector")

    def upd(self, kind, slot, r):
        c = r["content"]
        if kind == "mep":
            self.state["mep"][slot] = parse_mep(c)
        elif kind in ("ga", "de"):
            self.state[kind][slot] = {"n": int(c.split()[1]), "v": [int(x) for x in c.split()[2:]]}
        else:
            self.state[kind][slot] = {}

    def murmur(self, n_extra):
        """byte strings of every length 0..64 (+ longer), also sparse ones (one non-zero byte: every
        position of the body and of the tail matters), and pairs for hash_t::combine"""
        rng = self.rng
        lines = []
        for ln in list(range(0, 65)) + [rng.between(65, 400) for _ in range(n_extra)]:
            for _rep in range(2):
                bs = bytes(rng.below(256) for _ in range(ln))
                lines.append("murmur " + (bs.hex() if bs else "-"))
            if ln:
                lines.append("murmur " + bytes(ln).hex())
                for pos in (range(ln) if ln <= 48 else [rng.below(ln) for _ in range(4)]):
                    bs = bytearray(ln)
                    bs[pos] = 1 + rng.below(255)
                    lines.append("murmur " + bytes(bs).hex())
        lines.append("murmur " + b"hello".hex())
        for _ in range(40):
            lines.append("combine %d %d %d %d" % tuple(rng.choice([0, 1, 2 ** 64 - 1, rng.next()]) for _ in range(4)))
        return lines, [self.s.ask(l) for l in lines]


def line_deps(line):
    """(written slot, read slots) of a request, slots as (kind, number)"""
    t = line.split()
    if len(t) < 3 or t[0] not in ("mep", "ga", "de", "team"):
        return None, []
    k, op, d = t[0], t[1], (t[0], t[2])
    if op in ("new", "build"):
        return d, []
    if op == "run":
        return None, [d]
    if op == "fromvec":
        return d, [("mep", x) for x in t[3:]]
    if op == "xover":
        n = 4 if k == "de" else 2
        return d, [(k, x) for x in t[3:3 + n]]
    if op in ("copy", "cse", "destroy", "getblock", "replace", "replacebest", "load", "loadbad") or \
            (op == "assign" and k == "mep"):
        return d, [(k, t[3]), d]
    return d, [d]          # sig, mutate, iter, iterend, set, de assign: in place


def shrink(exe, problem, hseed, lines, tags, budget=60):
    """backward slice on the slots involved, then greedy removal, while the last request still
    shows the same failure"""
    def fails(ls):
        s = None
        try:
            s = Session(exe, problem, hseed)
            a = ""
            for l in ls:
                a = s.ask(l)
                if a.startswith("fail") or a == "bad-op":
                    return False
            r = parse_answer(a)
            if r is None:
                return False
            if tags["kind"] == "stale":
                return r.get("sig") != r.get("fresh")
            return not r.get("valid", True)
        except (Dead, RuntimeError):
            return False
        finally:
            if s is not None:
                s.close()

    # slice
    need, keep = set(), []
    w, rd = line_deps(lines[-1])
    need.update(rd)
    if w:
        need.add(w)
    keep.append(len(lines) - 1)
    for i in range(len(lines) - 2, -1, -1):
        w, rd = line_deps(lines[i])
        if w is not None and w in need:
            keep.append(i)
            if w not in rd:
                need.discard(w)
            need.update(rd)
    cand = [lines[i] for i in sorted(keep)]
    cur = cand if fails(cand) else list(lines)
    if cur is not cand and not fails(cur):
        return cur
    i = len(cur) - 2
    while i >= 0 and budget > 0:
        c2 = cur[:i] + cur[i + 1:]
        budget -= 1
        if fails(c2):
            cur = c2
        i -= 1
    return cur


# ---------------------------------------------------------------------------------------------
def replay_run(chk, exe, rp):
    """re-run the request lines of a replay file and re-apply the freshness oracle"""
    r = rp["replay"]
    if r.get("mode") in ("pair", "free"):
        return replay_threads(chk, r)
    if r.get("mode") == "opcodes":
        return run_opcodes(chk, [r["args"]])
    if "lines" not in r:
        return replay_pair(chk, exe, r)
    if r.get("tags", {}).get("kind") == "hash-collision":
        s = Session(exe, r["problem"], 1)
        try:
            a = [s.ask(l) for l in r["lines"]]
            if len(set(a)) == 1:
                chk.violation("replay: hash128 gives %s for both %s" % (a[0], r["lines"]), r, tags=r["tags"])
        finally:
            s.close()
        return
    s = Session(exe, r["problem"], r["harness_seed"])
    try:
        for l in r["lines"]:
            a = s.ask(l)
            pa = parse_answer(a)
            if pa and "sig" in pa and (pa["sig"] != pa["fresh"] or not pa["valid"]):
                chk.violation("replay: after `%s` signature() = %s, from scratch = %s, is_valid = %s" %
                              (l, pa["sig"], pa["fresh"], pa["valid"]), r, tags=r.get("tags", {}))
                break
    except Dead as e:
        chk.violation("replay: " + str(e), r, tags={"kind": "died"})
    finally:
        s.close()


def content_to_lines(content, slot0):
    """harness requests that rebuild a serialised object (mep / team of meps) in slot `slot0`"""
    if content.startswith("mep "):
        t = content.split()
        return ["mep build %d %s" % (slot0, " ".join(t[1:]))], "mep"
    if content.startswith("team "):
        parts = [p.strip() for p in content.split(" ; ")]
        lines, slots = [], []
        for i, p in enumerate(parts[1:]):
            lines.append("mep build %d %s" % (slot0 + 1 + i, " ".join(p.split()[1:])))
            slots.append(slot0 + 1 + i)
        lines.append("team fromvec %d %s" % (slot0, " ".join(str(x) for x in slots)))
        return lines, "team"
    return None, None


def replay_pair(chk, exe, r):
    """replay of a factorisation violation: two serialised objects, their packed streams (Lean)
    and their from-scratch signatures (C++) are recomputed and compared again"""
    s = Session(exe, r["problem"], 1)
    try:
        sy = Syms(s.ask("symtab"))
        res = []
        for k, key in enumerate(("a", "b")):
            lines, kind = content_to_lines(r[key], 100 * (k + 1))
            if lines is None:
                chk.notes.append("replay: cannot rebuild `%s`" % r[key][:80])
                return
            a = ""
            for l in lines:
                a = s.ask(l)
            res.append(parse_answer(a))
        ans = C.run_driver("c03_driver", list(sy.lines) + [x["content"] for x in res])
        st = [ans[len(sy.lines) + i].split()[1] for i in range(2)]
        same_stream, same_sig = st[0] == st[1], res[0]["fresh"] == res[1]["fresh"]
        if same_stream != same_sig:
            chk.violation("replay: packed streams %s, signatures %s for `%s` and `%s`" %
                          ("equal" if same_stream else "differ", "equal" if same_sig else "differ",
                           r["a"][:300], r["b"][:300]), r, tags=r.get("tags", {}))
    except Dead as e:
        chk.violation("replay: " + str(e), r, tags={"kind": "died"})
    finally:
        s.close()


# ---------------------------------------------------------------------------------------------
# concurrent signature computations (harness/c03_threads.cc)
# ---------------------------------------------------------------------------------------------
def parse_fail(line):
    """`FAIL handshake k=3 | A <content> | B <content> | expectedA … | gotA …` -> dict"""
    parts = [p.strip() for p in line.split(" | ")]
    d = {"head": parts[0]}
    for p in parts[1:]:
        k, _, v = p.partition(" ")
        d[k] = v
    for t in parts[0].split():
        if t.startswith("k="):
            d["k"] = int(t[2:])
    return d


def threads_violation(chk, what, replay, kind):
    tags = {"kind": kind, "cls": "i_mep", "op": "signature"}
    replay = dict(replay)
    replay["tags"] = tags
    chk.violation(what, replay, tags=tags)


def run_threads(chk, quick):
    """deterministic interleavings at the scheduling points of pack (ASan build), then free running
    threads under ASan and under TSan.  Returns the list of things that could not be run."""
    problems = []
    seed = chk.seed
    exe = C.build_harness("c03_threads", "asan")
    trials = 300 if quick else 6000
    rc, so, se = C.run_harness(exe, ["handshake", seed, trials], timeout=900)
    fails = [l for l in so.splitlines() if l.startswith("FAIL")]
    if fails:
        d = parse_fail(fails[0])
        if "B" in d:
            threads_violation(
                chk, "two threads computing signatures of DIFFERENT individuals interfere: thread A is at scheduling "
                "point %s of its pack() while thread B computes a whole signature; A obtains %s instead of %s, B obtains "
                "%s (single-threaded: %s).  A = `%s`, B = `%s`" % (d.get("k"), d.get("gotA"), d.get("expectedA"),
                                                                  d.get("gotB"), d.get("expectedB"),
                                                                  d.get("A", "")[:300], d.get("B", "")[:300]),
                {"mode": "pair", "k": d.get("k", -1), "a": d.get("A"), "b": d.get("B")}, "thread-interference")
        else:
            threads_violation(chk, "signature() of a copy differs between two calls on one thread: " + fails[0][:400],
                              {"mode": "pair", "k": -1, "a": d.get("A"), "b": d.get("A")}, "thread-interference")
    elif rc != 0:
        threads_violation(chk, "harness c03_threads handshake died rc=%s: %s" % (rc, (so + se)[-1500:]),
                          {"mode": "free", "cfg": "asan", "args": ["handshake", seed, trials]}, "died")
    else:
        for t in so.split():
            if t.startswith("interleavings="):
                chk.count("threads:deterministic_interleavings", int(t.split("=")[1]))
            if t.startswith("trials_with_points="):
                chk.count("threads:pairs_with_scheduling_points", int(t.split("=")[1]))
        chk.seen(("threads", "handshake", so.strip()))
    # free running threads: any data race (TSan) / memory error (ASan) / wrong value
    for cfg, nthr, iters in (("asan", 4, 1500 if quick else 40000), ("tsan", 2, 2000 if quick else 60000),
                             ("tsan", 4, 1000 if quick else 30000)):
        try:
            ex = C.build_harness("c03_threads", cfg)
        except RuntimeError as e:
            problems.append("c03_threads (%s) does not build: %s" % (cfg, str(e)[-600:]))
            continue
        args = ["free", seed, nthr, iters]
        rc, so, se = C.run_harness(ex, args, timeout=1500)
        chk.count("threads:free_runs_%s" % cfg)
        if rc == 0 and so.startswith("ok"):
            chk.count("threads:free_signatures_%s" % cfg, int(so.split("signatures=")[1].split()[0]))
            chk.seen(("threads", cfg, nthr, so.strip()))
            continue
        race = "ThreadSanitizer: data race" in se
        loc = ""
        for ln in se.splitlines():
            if "vita::" in ln and "#" in ln:
                loc = ln.strip()
                break
        fl = [l for l in so.splitlines() if l.startswith("FAIL")]
        what = ("%d threads computing signatures of their OWN individuals (%s build): " % (nthr, cfg)) + \
            ("data race reported by ThreadSanitizer at %s" % loc if race else
             (fl[0][:500] if fl else "the process died rc=%s: %s" % (rc, se[-800:])))
        threads_violation(chk, what, {"mode": "free", "cfg": cfg, "args": args}, "thread-interference")
        break
    return problems


def run_opcodes(chk, scenarios):
    """symbols whose opcodes differ by 2^8, 2^16 (2^24): different symbols, hence different
    signatures for `A` / `B` and for `FADD(A, X)` / `FADD(B, X)` (harness/c03_opcodes.cc)"""
    exe = C.build_harness("c03_opcodes", "asan")
    for args in scenarios:
        rc, so, se = C.run_harness(exe, args, timeout=1500)
        chk.count("opcodes:%s" % args[0])
        tags = {"kind": "opcode-truncation", "cls": "i_mep", "op": "pack"}
        rp = {"mode": "opcodes", "args": list(args), "tags": tags}
        if rc != 0 or not (so.startswith("pair") or so.startswith("csv")):
            chk.violation("harness c03_opcodes %s: rc=%s %s" % (args, rc, (so + se)[-800:]), rp, tags={"kind": "died"})
            continue
        f = {}
        for part in so.strip().split(" | "):
            t = part.split()
            f[t[0]] = t[1:]
        chk.seen(("opcodes", tuple(args), so.strip()))
        if "pair" not in f:
            continue
        a, b = f["pair"][0], f["pair"][1]
        same = [k for k in ("sig", "sigF") if (k + "A") in f and f[k + "A"] == f[k + "B"]]
        if a != b and same:
            chk.violation("two DIFFERENT symbols (opcodes %s and %s = %s + %d) give the same signature %s to the programs "
                          "`A` and `B`%s although they compute different values (%s vs %s): pack() does not hash "
                          "every byte of the opcode" % (a, b, a, int(b) - int(a),
                                                        " ".join(f["sigA"]), " and to FADD(A,X) / FADD(B,X)" if "sigF" in same else "",
                                                        f["outA"][0], f["outB"][0]), rp, tags=tags)


def replay_threads(chk, r):
    if r["mode"] == "pair":
        exe = C.build_harness("c03_threads", "asan")
        rc, so, se = C.run_harness(exe, ["pair", r.get("k", -1)], inp="%s\n%s\n" % (r["a"], r["b"]))
        if rc != 0 or not so.startswith("ok"):
            chk.violation("replay: interleaved signature computations interfere: " + (so + se)[:800], r,
                          tags=r.get("tags", {}))
        return
    exe = C.build_harness("c03_threads", r.get("cfg", "tsan"))
    rc, so, se = C.run_harness(exe, r["args"], timeout=1500)
    if rc != 0 or not so.startswith("ok"):
        chk.violation("replay: concurrent signature computations (%s): rc=%s %s" % (r.get("cfg"), rc, (so + se)[:800]),
                      r, tags=r.get("tags", {}))


def run(chk, replay=None):
    C.NPROC = min(C.NPROC, 6)          # shared machine: at most 6 compile jobs
    rng = C.SplitMix(chk.seed)
    broken = []
    quick = chk.tier == "quick"

    # ---- translator -> GenMutators.lean ------------------------------------------------------
    gen_info = None
    try:
        import translate_mutators
        gen_info = translate_mutators.emit(os.path.join(C.LEAN, "Vita", "C03", "GenMutators.lean"))
        chk.cov["translated_methods"] = gen_info["methods"]
        chk.cov["gen_changed_vs_committed"] = bool(gen_info["changed"])
    except Exception as e:  # Refuse or clang failure
        broken.append("translator tools/translate_mutators.py refuses the current sources: %s" % (e,))

    sp_info = None
    try:
        import translate_sigpath
        sp_info = translate_sigpath.emit(os.path.join(C.LEAN, "Vita", "C03", "GenSigPath.lean"))
        chk.cov["sigpath_functions"] = len(sp_info["functions"])
        chk.cov["sigpath_globals"] = ["%s: %s (%s%s%s)" % (f, v, st, ", thread_local" if tls else "", ", const" if c else "")
                                      for f, v, st, tls, c in sp_info["globals"]]
        chk.cov["sigpath_externals"] = sp_info["externals"]
        chk.cov["gen_sigpath_changed_vs_committed"] = bool(sp_info["changed"])
    except Exception as e:
        broken.append("translator tools/translate_sigpath.py refuses the current sources: %s" % (e,))

    pk_info = None
    try:
        import translate_pack
        pk_info = translate_pack.emit(os.path.join(C.LEAN, "Vita", "C03", "GenPack.lean"))
        chk.cov["translated_pack"] = pk_info["pack"]
        chk.cov["translated_hashes"] = {k: pk_info[k] for k in ("mepHash", "gaHash", "deHash", "teamHash")}
        chk.cov["translated_murmur_statements"] = pk_info["murmur_statements"]
        chk.cov["gen_pack_changed_vs_committed"] = bool(pk_info["changed"])
    except Exception as e:
        broken.append("translator tools/translate_pack.py refuses the current sources: %s" % (e,))

    # ---- proofs --------------------------------------------------------------------------------
    drv_ok, out = C.lake_build(["c03_driver"])
    if not drv_ok:
        broken.append("driver does not build: " + C.lean_errors(out))
    if gen_info is not None and sp_info is not None and pk_info is not None:
        ok, msg = chk.prove("Vita.C03.Props", ["Vita.C03.Props"],
                            extra_obligations=len(gen_info["methods"]) + len(sp_info["functions"]))
        if not ok:
            broken.append("theorems of Vita.C03.Props no longer check: " + msg)

    exe = C.build_harness("c03_sig", "asan")

    if replay:
        replay_run(chk, exe, json.load(open(replay)))
        return finish(chk, broken)

    # ---- corpus ---------------------------------------------------------------------------------
    cdir = os.path.join(C.ROOT, "corpus", PID)
    if os.path.isdir(cdir):
        for f in sorted(os.listdir(cdir)):
            if f.endswith(".json"):
                replay_run(chk, exe, {"replay": json.load(open(os.path.join(cdir, f)))})
                chk.count("corpus_files")

    # ---- opcodes far apart (process-wide counter) ----------------------------------------------
    run_opcodes(chk, [["synthetic", 8], ["synthetic", 16], ["csv", 300]] +
                ([] if quick else [["synthetic", 20], ["csv", 3000]]))

    # ---- concurrent signature computations -----------------------------------------------------
    broken += run_threads(chk, quick)

    # ---- generated sessions -----------------------------------------------------------------------
    streams = {}        # packed stream -> (fresh signature, content)
    sigs = {}           # fresh signature -> (stream, content)
    tstreams, tsigs = {}, {}
    n_pairs_equal = n_streams = 0
    murmur_mismatch = model_sig_mismatch = 0
    syn_mismatch = []
    for problem in (1, 2):
        r = Run(chk, exe, problem, rng)
        try:
            r.engineered(150 if quick else 5000)
            r.run_groups()
            r.history(4000 if quick else 150000)
            mlines, manswers = r.murmur(10 if quick else 200) if problem == 1 else ([], [])
        except Dead as e:
            chk.violation(str(e), {"problem": problem, "harness_seed": r.s.seed, "lines": r.s.log[1:]},
                          tags={"kind": "died"})
            r.s.close()
            continue
        r.s.close()
        if not drv_ok:
            continue
        # ---- the Lean side: packed streams of everything observed ---------------------------------
        uniq = {}
        for kind, content, fresh, idx in r.obs:
            uniq.setdefault(content, (kind, fresh, idx))
        syn_lines = [("murmursyn" + l[6:]) if l.startswith("murmur ") else ("combinesyn" + l[7:]) for l in mlines]
        reqs = list(r.sy.lines) + list(uniq.keys()) + mlines + syn_lines
        ans = C.run_driver("c03_driver", reqs)
        base = len(r.sy.lines)
        for j, (content, (kind, fresh, idx)) in enumerate(uniq.items()):
            a = ans[base + j].split()
            if a[0] != "pk":
                broken.append("driver answered `%s` for `%s`" % (ans[base + j][:100], content[:200]))
                continue
            if kind in ("mep", "team") and (a[2] != "1" or a[3] != "1") and \
                    len([b for b in broken if b.startswith("model/implementation mismatch")]) < 3:
                broken.append("model/implementation mismatch on a real individual (wf=%s, pack=packTree∘unfold: %s): %s"
                              % (a[2], a[3], content[:300]))
            smap, gmap = (tstreams, tsigs) if kind == "team" else (streams, sigs)
            st = (kind if kind == "team" else "") + a[1]
            if st in smap:
                if smap[st][1] != content:
                    n_pairs_equal += 1
                if smap[st][0] != fresh and chk.__dict__.setdefault("_c03_nf", 0) < 2:
                    chk._c03_nf += 1
                    chk.violation("same active program, different signatures: `%s` -> %s and `%s` -> %s (packed stream %s)"
                                  % (smap[st][1][:400], smap[st][0], content[:400], fresh, a[1][:200]),
                                  {"problem": problem, "a": smap[st][1], "b": content, "stream": a[1],
                                   "tags": {"kind": "not-a-function", "cls": kind}},
                                  tags={"kind": "not-a-function", "cls": kind})
            else:
                smap[st] = (fresh, content)
                n_streams += 1
            if fresh in gmap and gmap[fresh][0] != st and chk.__dict__.setdefault("_c03_ni", 0) < 2:
                chk._c03_ni += 1
                chk.violation("different active programs, same signature %s: `%s` and `%s`"
                              % (fresh, gmap[fresh][1][:400], content[:400]),
                              {"problem": problem, "a": gmap[fresh][1], "b": content, "streams": [gmap[fresh][0], st],
                               "tags": {"kind": "not-injective", "cls": kind}},
                              tags={"kind": "not-injective", "cls": kind})
            gmap.setdefault(fresh, (st, content))
            if j % 997 == 0:
                chk.sample({"content": content[:160], "stream": a[1][:80], "signature": fresh})
        # ---- informational: hash function ------------------------------------------------------------
        mb = base + len(uniq)
        for j, l in enumerate(mlines):
            if l.startswith("murmur ") and ans[mb + j].strip() != manswers[j].strip():
                murmur_mismatch += 1
            # the code AS TRANSLATED must behave as the compiled code (tie of GenPack.murmur / combine)
            if ans[mb + len(mlines) + j].strip() != manswers[j].strip():
                syn_mismatch.append("%s: compiled %s, translated term evaluates to %s" %
                                    (l[:120], manswers[j].strip(), ans[mb + len(mlines) + j].strip()))
        # every byte position feeds the hash: strings of one length never collide
        by_len = {}
        for j, l in enumerate(mlines):
            if l.startswith("murmur "):
                h = l.split()[1]
                d = by_len.setdefault(len(h) if h != "-" else 0, {})
                o = d.setdefault(manswers[j].strip(), h)
                if o != h and chk.__dict__.setdefault("_c03_hc", 0) < 1:
                    chk._c03_hc += 1
                    chk.violation("hash128 gives the same value %s for the different byte strings %s and %s: two "
                                  "individuals whose packed streams differ only there share a signature"
                                  % (manswers[j].strip(), o, h),
                                  {"problem": problem, "lines": ["murmur " + o, "murmur " + h],
                                   "tags": {"kind": "hash-collision", "cls": "murmurhash3", "op": "hash128"}},
                                  tags={"kind": "hash-collision", "cls": "murmurhash3", "op": "hash128"})
        chk.count("murmur_strings", len([l for l in mlines if l.startswith("murmur ")]))
        chk.count("combine_pairs", len([l for l in mlines if l.startswith("combine ")]))

    chk.cov["distinct_packed_streams"] = n_streams
    chk.cov["equal_stream_pairs_with_different_genomes"] = n_pairs_equal
    chk.cov["distinct_stream_pairs_explored"] = n_streams * (n_streams - 1) // 2
    chk.cov["hash128_vs_lean_murmur_mismatches"] = murmur_mismatch
    chk.cov["translated_vs_compiled_mismatches"] = len(syn_mismatch)
    if syn_mismatch:
        broken.append("hash128 / combine as translated (GenPack) do not behave as the compiled code on %d inputs, e.g. %s"
                      % (len(syn_mismatch), syn_mismatch[0]))
    if murmur_mismatch:
        chk.notes.append("hash function changed: vita::hash::hash128 differs from Vita.Murmur.hash128 on %d of the "
                         "random byte strings (informational: the C03 theorems are parametric in the hash)" % murmur_mismatch)
    return finish(chk, broken)


def finish(chk, broken):
    if broken and not [v for v in chk.violations if not v[2]] and not chk.known_hit:
        for b in broken:
            chk.violation(b, {"broken": b, "searched": "engineered layouts + random histories with the from-scratch "
                              "oracle: no failing input"}, no_input=True)
    elif broken:
        chk.notes += broken
        if not [v for v in chk.violations if not v[2]]:
            # a known finding explains nothing about a broken proof: still report it
            for b in broken:
                chk.violation(b, {"broken": b}, no_input=True)
    return chk.finish(
        level="proof",
        checker_cmd="lake build Vita.C03.Props && lake env lean <#print axioms for every theorem>",
        rule="evaluations = harness requests whose answer was checked against the from-scratch oracle; distinct = "
             "distinct (problem, content, operation) triples; factorisation over all distinct contents observed",
        trusted=["Lean 4.33 kernel", "tools/translate_mutators.py (clang-14 JSON AST -> effect skeletons)",
                 "harness/c03_sig.cc (serialisation through the public const interface, load() as from-scratch builder)",
                 "tools/translate_pack.py (pack / hash / combine / hash128 -> PackSyn, USyn terms; get_block = little-endian load)",
                 "tools/translate_sigpath.py (call-graph closure of signature() in the clang AST; std:: callees by name)",
                 "harness/c03_threads.cc, ThreadSanitizer",
                 "g++ 12.2 ASan/UBSan"])
