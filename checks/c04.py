"""C04 — the fitness cache is transparent.

Lean: Vita/C04/{Model,Lemmas,Props}.lean (find_sound, find_after_insert, load_save_fresh,
proxy_transparent, seal-wrap theorems) for every history / index function / table size.
Tie 1 (translator): tools/translate_cache.py regenerates Vita/C04/Gen.lean from the clang AST on every
run — the bodies of hash_t::operator==, cache::index / cache(bits) / find / insert / clear() /
clear(key), save / load (stream statements, Vita/C04/IO.lean), evaluator_proxy::operator() / clear() as
terms of the language of Vita/C04/Lang.lean, and
the effect skeletons (Vita/C04/Sites.lean) of every validation strategy and of search::run.  Props.lean
proves that the semantics of each generated body IS the model's function (gen_*_is_model), restates
find_sound / find_after_insert / proxy_transparent about the generated terms, and checks the call-site
discipline on the generated skeletons (search_run_transparent).
Tie 2 (differential): operation sequences run on the real vita::cache / vita::evaluator_proxy
(harness/c04_cache.cc, ASan+UBSan), on the Lean model and on the generated terms (c04_driver);
answers diffed.  The harness also carries the property's own oracle (abstract map; direct evaluation).
Call sites: harness/c04_callsite.cc (real dss / holdout_validation / evolution / src_search::run).
"""
import glob
import hashlib
import json
import os
import re
import struct

from vlib import common as C

import sys
sys.path.insert(0, os.path.join(C.ROOT, "tools"))
import translate_cache  # noqa: E402
from cxx2lean import Refuse  # noqa: E402

M64 = (1 << 64) - 1
WRAP = 1 << 32


def dbits(x):
    return struct.unpack("<Q", struct.pack("<d", x))[0]


FINITE = [dbits(v) for v in (0.0, -0.0, 1.0, -1.0, 0.5, -2.5, 3.141592653589793, 1e300, -1e300, 1e-300,
                             123456789.0, -0.1, 2.0 ** 52, 1.7976931348623157e308, 2.2250738585072014e-308)]
NONFINITE = [0x7FF0000000000000, 0xFFF0000000000000, 0x7FF8000000000000, 0x0000000000000001, 0x800FFFFFFFFFFFFF]


class Gen:
    def __init__(self, rng):
        self.r = rng

    def u64(self):
        return self.r.next() & M64

    def pool(self, bits, proxy=False):
        r = self.r
        mask = (1 << bits) - 1
        a, b = self.u64() | 1 << 63, self.u64() | 1
        ks = [(a, b)]
        kinds = ["base"]
        n = r.between(4, 13)
        while len(ks) < n:
            k = r.below(9)
            if k == 0:      # same slot: only bits above the index differ in data[0]
                ks.append((a ^ ((r.below(1 << 20) + 1) << bits) & M64, b)); kinds.append("same-slot-d1-equal")
            elif k == 1:    # same slot, both halves differ
                ks.append(((self.u64() & ~mask & M64) | (a & mask), self.u64() | 1)); kinds.append("same-slot")
            elif k == 2:    # share data[0] only
                ks.append((a, self.u64() | 2)); kinds.append("share-d0")
            elif k == 3:    # share data[1] only, other slot (when the table has more than one)
                ks.append(((a + 1 + r.below(max(mask, 1))) & M64, b)); kinds.append("share-d1")
            elif k == 4:    # one bit of data[0] flipped
                j = r.below(64)
                ks.append((a ^ (1 << j), b)); kinds.append("flip-d0-bit")
            elif k == 5:    # one bit of data[1] flipped
                j = r.below(64)
                ks.append((a, b ^ (1 << j))); kinds.append("flip-d1-bit")
            elif k == 6:    # half-zero keys (non-empty)
                ks.append((0, b) if r.chance(0.5) else (a, 0))
                kinds.append("half-zero")
            elif k == 7:    # halves swapped
                ks.append((b, a)); kinds.append("swapped")
            else:
                ks.append((self.u64(), self.u64())); kinds.append("random")
        if r.chance(0.06):
            ks.append((0, 0)); kinds.append("empty-key")
        # drop duplicates (identical keys add nothing), keep order
        seen, out, ok = set(), [], []
        for k, kd in zip(ks, kinds):
            if k not in seen:
                seen.add(k); out.append(k); ok.append(kd)
        return out, ok

    def fit(self, finite_only):
        r = self.r
        ln = [0, 1, 1, 1, 1, 2, 2, 3, 3, 4][r.below(10)]
        ws = []
        for _ in range(ln):
            c = r.below(10)
            if c < 5:
                ws.append(r.choice(FINITE))
            elif c < 8 or finite_only:
                ws.append(dbits(float(r.between(-1000, 1000)) / (1 << r.below(8))))
            else:
                ws.append(r.choice(NONFINITE))
        return ws

    def table_seq(self, nops, wrap=False):
        r = self.r
        bits = r.between(1, 9)
        keys, kinds = self.pool(bits)
        with_reload = r.chance(0.6) and not wrap
        lines = ["new %d %d %s" % (bits, len(keys), " ".join("%d %d" % k for k in keys))]
        jumped = False
        hot = r.below(len(keys))
        for _ in range(nops):
            c = r.below(100)
            i = hot if r.chance(0.35) else r.below(len(keys))
            if c < 34:
                ws = self.fit(with_reload)
                lines.append("ins %d %d%s" % (i, len(ws), "".join(" %d" % w for w in ws)))
                if r.chance(0.45):
                    lines.append("find %d" % i)
            elif c < 70:
                lines.append("find %d" % i)
            elif c < 76:
                lines.append("clr")
            elif c < 86:
                lines.append("clrk %d" % i)
            elif c < 94 and with_reload and r.chance(0.45):
                # what save() writes, token by token; then (sometimes) a stream cut after m tokens loaded
                # into a fresh table: the failure paths of load() and the state they leave
                lines.append("dump")
                if r.chance(0.6):
                    lines.append("loadcut %d" % (r.below(100) if r.chance(0.8) else 100))
                    for _ in range(r.between(1, 6)):
                        lines.append("find %d" % (hot if r.chance(0.4) else r.below(len(keys))))
                    if r.chance(0.3):
                        lines.append("dump")
            elif c < 94 and with_reload:
                lines.append("reload")
                if r.chance(0.4):
                    # a table that got its content through load(), cleared right away, then looked up
                    lines.append("clr" if r.chance(0.7) else "clrk %d" % i)
                    for _ in range(r.between(1, 5)):
                        lines.append("find %d" % (hot if r.chance(0.4) else r.below(len(keys))))
            elif wrap and not jumped and c >= 86:
                # the state reached by 2^32 - 1 - d clear() calls from here (the seal is still small)
                lines.append("jump %d" % (WRAP - 1 - r.below(3)))
                jumped = True
                for _ in range(r.between(1, 5)):
                    lines.append("clr")
                    lines.append("find %d" % (hot if r.chance(0.5) else r.below(len(keys))))
            else:
                lines.append("find %d" % i)
        return lines, {"bits": bits, "kinds": kinds, "reload": with_reload}

    def proxy_seq(self, nops):
        r = self.r
        bits = r.between(7, 10)
        keys, kinds = self.pool(bits, proxy=True)
        disciplined = r.chance(0.85)
        m = r.between(3, 10)
        inds = []
        for _ in range(m):
            ki = r.below(len(keys))
            fc = ki * 3 + 1 if (disciplined or r.chance(0.6)) else r.below(50)
            inds.append((ki, fc))
        lines = ["pnew %d %d %s %d %s" % (bits, len(keys), " ".join("%d %d" % k for k in keys), m,
                                         " ".join("%d %d" % p for p in inds))]
        for _ in range(nops):
            c = r.below(100)
            if c < 62:
                lines.append("peval %d" % r.below(m))
            elif c < 76:
                lines.append("pdata %d" % r.below(6))
                if disciplined or r.chance(0.5):
                    lines.append("pclr")
            elif c < 86:
                lines.append("pclr")
            elif c < 94:
                lines.append("preload")
                if r.chance(0.5):
                    # new session: cache loaded, the data change, clear(), evaluations
                    lines.append("pdata %d" % r.below(6))
                    lines.append("pclr")
                    for _ in range(r.between(1, 5)):
                        lines.append("peval %d" % r.below(m))
            else:
                lines.append("peval %d" % r.below(m))
                lines.append("peval %d" % r.below(m))
        return lines, {"bits": bits, "kinds": kinds, "disciplined": disciplined}


MALFORMED = ["frob 1", "ins", "ins 99 1 5", "ins 0 3 1 2", "find", "find 0 0", "find x", "clr 1", "clrk",
             "clrk 77", "jump", "jump 4294967296", "reload 3", "find -1", "peval 99", "pdata", "", "ins 0 1 18446744073709551616"]


def regen(chk, broken):
    """Vita/C04/Gen.lean from the current tree (cached by source hash).  Returns True when Gen.lean
    now corresponds to the working tree."""
    gen = os.path.join(C.LEAN, "Vita", "C04", "Gen.lean")
    stamp = os.path.join(C.BUILD, "c04_gen.stamp")
    key = C.repo_tree_hash(translate_cache.source_key())
    os.makedirs(C.BUILD, exist_ok=True)

    def stats(txt):
        chk.cov["translated"] = re.findall(r"^def (\w+) :", txt, re.M)
        chk.cov["strategies_translated"] = re.findall(r'^  \("(\w+)",$', txt, re.M)
        sites = re.findall(r'^  \("([^"]+)", "([^"]+)", "([^"]*)"\)', txt, re.M)
        chk.cov["call_sites_found"] = len(sites)
        for _, kind, _ in sites:
            chk.count("site:" + kind)
        m = re.search(r"the same term for all (\d+) instantiated", txt)
        chk.cov["proxy_specialisations"] = int(m.group(1)) if m else 0
    try:
        if os.path.exists(stamp) and os.path.exists(gen):
            old = open(stamp).read().split("\n", 1)
            if old[0] == key and len(old) > 1 and old[1] == open(gen).read():
                stats(old[1])
                chk.cov["gen_cached"] = True
                return True
        res, changed = translate_cache.emit(gen)
        txt = open(gen).read()
        stats(txt)
        chk.cov["gen_changed_vs_committed"] = bool(changed)
        with open(stamp, "w") as f:
            f.write(key + "\n" + txt)
        return True
    except Refuse as e:
        broken.append("translator tools/translate_cache.py refuses the current sources (Gen.lean left as it was): %s" % e)
        return False


def to_lean(line, cpp_answer):
    """`new`/`pnew` lines carry the slot classes observed on the real table."""
    t = line.split()
    if t and t[0] in ("new", "pnew") and cpp_answer.split()[:1] == [t[0]]:
        cls = cpp_answer.split()[1:]
        n = int(t[2])
        if len(cls) != n or not all(c.isdigit() for c in cls):
            return None
        ks = t[3:3 + 2 * n]
        body = " ".join("%s %s %s" % (ks[2 * i], ks[2 * i + 1], cls[i]) for i in range(n))
        rest = t[3 + 2 * n:]
        return "%s %s %d %s%s" % (t[0], t[1], n, body, (" " + " ".join(rest)) if rest else "")
    return line


def strip(ans):
    return ans.split(" | ")[0].strip()


def gen_part(model_ans):
    """the answer of the generated terms: the suffix ` | gen …` when it differs from the model's"""
    return model_ans.split(" | gen ", 1)[1].strip() if " | gen " in model_ans else strip(model_ans)


def run(chk, replay=None):
    rng = C.SplitMix(chk.seed)
    g = Gen(rng)
    broken = []

    gen_ok = regen(chk, broken)
    ok, msg = chk.prove("Vita.C04.Props", ["Vita.C04.Props", "c04_driver"])
    drv_ok = ok or os.path.exists(C.driver_path("c04_driver"))
    if not ok:
        broken.append("theorems of Vita.C04.Props no longer check: " + msg)
        ok2, out2 = C.lake_build(["c04_driver"])
        drv_ok = ok2

    exe = C.build_harness("c04_cache", "asan")

    # ---- sequences -------------------------------------------------------
    seqs = []   # (name, lines, meta)
    if replay:
        r = json.load(open(replay))
        if r["replay"].get("lines"):
            seqs.append(("replay", r["replay"]["lines"], {}))
    else:
        for f in sorted(glob.glob(os.path.join(C.ROOT, "corpus", "C04", "*.ops"))):
            ls = [l.rstrip("\n") for l in open(f) if not l.startswith("#")]
            seqs.append(("corpus:" + os.path.basename(f), ls, {}))
        quick = chk.tier == "quick"
        nt, npx, nw = (500, 250, 40) if quick else (6000, 3000, 400)
        for i in range(nt):
            ls, meta = g.table_seq(rng.between(10, 90))
            seqs.append(("table-%d" % i, ls, meta))
        for i in range(nw):
            ls, meta = g.table_seq(rng.between(10, 40), wrap=True)
            seqs.append(("wrap-%d" % i, ls, meta))
        for i in range(npx):
            ls, meta = g.proxy_seq(rng.between(10, 80))
            seqs.append(("proxy-%d" % i, ls, meta))
        # malformed stream (after a valid `new`, so that only the operation is malformed)
        ls, meta = g.table_seq(5)
        seqs.append(("malformed", ls + MALFORMED + ["find 0"], meta))

    lines, owner = [], []
    for si, (name, ls, meta) in enumerate(seqs):
        for l in ls:
            lines.append(l)
            owner.append(si)

    cpp, deaths = C.run_lines(exe, lines)
    for idx, rc, se in deaths:
        si = owner[idx]
        chk.violation("harness died (rc=%d, sanitizer or crash) in sequence %s at `%s`\n%s" %
                      (rc, seqs[si][0], lines[idx], se[-1500:]),
                      {"lines": seqs[si][1], "died_at": lines[idx]}, tags={"kind": "crash", "line": lines[idx]})

    lean = None
    if drv_ok:
        ll, skip = [], set()
        for i, l in enumerate(lines):
            x = to_lean(l, cpp[i] if i < len(cpp) else "")
            if x is None:
                broken.append("slot classes observed on the real table are not an equivalence relation "
                              "(the model takes the slot as a function of the key): `%s` -> `%s`" % (l[:200], cpp[i]))
                x = "skip"
            ll.append(x if x.strip() else "empty-line")
        lean = C.run_driver("c04_driver", ll)

    # ---- compare ---------------------------------------------------------
    ndis, first_dis = 0, None
    ngen, first_gen = 0, None          # generated terms vs code
    ngm = 0                            # generated terms vs model (what gen_*_is_model exclude)
    bad_seqs = {}
    prefix = {}
    for i in range(min(len(lines), len(cpp))):
        si = owner[i]
        h = prefix.get(si, hashlib.blake2b(digest_size=8))
        h.update(lines[i].encode() + b"\n")
        prefix[si] = h
        t = lines[i].split()
        cmd = t[0] if t else ""
        a = cpp[i]
        if a.startswith("died") or a == "skipped":
            continue
        chk.count("op:" + (cmd if cmd in ("new", "ins", "find", "clr", "clrk", "reload", "jump", "pnew", "peval",
                                          "pdata", "pclr", "preload", "dump", "loadcut") else "malformed"))
        if cmd in ("find", "peval", "reload", "preload", "dump", "loadcut"):
            chk.seen(h.hexdigest())
        if cmd == "dump" and a.startswith("dump s "):
            chk.count("dump:entries", a.count(" k "))
            chk.count("dump:empty" if " k " not in a else "dump:non-empty")
        if cmd == "loadcut" and a.startswith("loadcut "):
            tt = strip(a).split()
            if len(tt) == 3 and tt[2].isdigit() and len(t) == 2:
                tot = int(tt[2])
                m = tot if int(t[1]) >= 100 else tot * int(t[1]) // 100
                chk.count("loadcut:" + ("complete" if m >= tot else "no-header" if m < 2 else
                                        "between-entries" if m % 2 == 0 else "inside-an-entry"))
                chk.count("loadcut:accepted" if tt[1] == "1" else "loadcut:rejected")
        if cmd == "find" and a.startswith("f "):
            chk.count("find:hit" if a.split()[1] != "0" else "find:miss")
            chk.count("fitlen:" + a.split()[1])
        if cmd == "peval" and a.startswith("p "):
            chk.count("peval:" + ("undisciplined" if a.endswith("n/a") else "disciplined"))
        if cmd == "new":
            cls = a.split()[1:]
            chk.count("bits:%s" % t[1])
            chk.count("pool:keys", len(cls))
            chk.count("pool:keys-sharing-a-slot", len(cls) - len(set(cls)))
        if " | BAD" in a and si not in bad_seqs:
            bad_seqs[si] = (i, a)
        if lean is not None and i < len(lean):
            la = lean[i]
            same = (strip(a).split()[:1] == la.split()[:1]) if cmd in ("new", "pnew") and a.startswith(cmd) \
                else strip(a) == strip(la)
            if not same:
                ndis += 1
                if first_dis is None:
                    first_dis = (i, si)
            if " | gen " in la:
                ngm += 1
            if cmd in ("find", "peval", "reload", "preload", "dump", "loadcut") and gen_part(la) != strip(a):
                ngen += 1
                if first_gen is None:
                    first_gen = (i, si)
        if i % 4001 == 0:
            chk.sample({"sequence": seqs[si][0], "line": lines[i][:200], "cpp": a, "model": lean[i] if lean else None})
    for name, ls, meta in seqs:
        for kd in meta.get("kinds", []):
            chk.count("key:" + kd)
        chk.count("seq:" + name.split("-")[0].split(":")[0])
        if meta.get("reload"):
            chk.count("seq:with-reload")
    chk.cov["sequences"] = len(seqs)
    chk.cov["model_vs_code_disagreements"] = ndis
    chk.cov["generated_terms_vs_code_disagreements"] = ngen
    chk.cov["generated_terms_vs_model_disagreements"] = ngm

    # ---- a failing input of the property itself -------------------------
    def still_bad(ls):
        out, dd = C.run_lines(exe, ls)
        return bool(dd) or any(" | BAD" in o for o in out)

    for si, (i, a) in sorted(bad_seqs.items())[:3]:
        name, ls, meta = seqs[si]
        first = i - owner.index(si)
        cut = ls[:first + 1]
        # shrink: drop operations (never the leading `new`) while the oracle still objects
        j = len(cut) - 2
        budget = 300
        while j >= 1 and budget > 0:
            cand = cut[:j] + cut[j + 1:]
            budget -= 1
            if still_bad(cand):
                cut = cand
            j -= 1
        out, _ = C.run_lines(exe, cut)
        reason = next((o.split(" | BAD ")[1] for o in out if " | BAD " in o), a.split(" | BAD ")[-1])
        ops = [l.split()[0] for l in cut[1:]]
        # the same, with every loadcut marked by the verdict of the real cache::load (`loadcut <ok> <tokens>`)
        ops_r = []
        for l, o in zip(cut[1:], out[1:]):
            w, ot = l.split()[0], strip(o).split()
            if w == "loadcut" and len(ot) >= 2 and ot[0] == "loadcut":
                w += "-accepted" if ot[1] == "1" else "-rejected"
            ops_r.append(w)
        tags = {"kind": reason.split()[0], "ops": " ".join(ops), "ops_r": " ".join(ops_r)}
        chk.violation("%s: on the real cache, sequence %s (shrunk to %d operations): %s" %
                      (reason, name, len(cut) - 1, " ; ".join(cut)[:1200]),
                      {"lines": cut, "answers": out, "oracle": reason}, tags=tags)

    if lean is not None and first_dis is not None and not bad_seqs:
        i, si = first_dis
        name, ls, meta = seqs[si]
        start = owner.index(si)
        broken.append("model and real cache disagree (%d lines); first in sequence %s at `%s`: code `%s`, model `%s`; "
                      "the property's own oracle accepted every answer of the code" %
                      (ndis, name, lines[i][:200], cpp[i][:200], lean[i][:200]))
        broken_replay = {"lines": ls[:i - start + 1]}
    else:
        broken_replay = {}
    if lean is not None and first_gen is not None and gen_ok and not bad_seqs:
        i, si = first_gen
        broken.append("the terms generated from the clang AST (Gen.lean, semantics Lang.lean) and the real cache disagree "
                      "(%d lines); first in sequence %s at `%s`: code `%s`, generated terms `%s` – the translator or the "
                      "semantics of the language no longer follows the code" %
                      (ngen, seqs[si][0], lines[i][:200], cpp[i][:200], gen_part(lean[i])[:200]))

    # ---- call sites: real src_problem + error evaluator + evaluator_proxy + dss / holdout ----------
    SITES = ["dss::init", "dss::shake", "dss::close", "holdout_validation::init", "holdout_validation::shake",
             "holdout_validation::close"]
    tmpdir = os.path.join(C.BUILD, "c04_tmp")
    os.makedirs(tmpdir, exist_ok=True)
    cs_args = [chk.seed, 40 if chk.tier == "quick" else 500, 3 if chk.tier == "quick" else 25,
               12 if chk.tier == "quick" else 150]
    if replay and "callsite_args" in json.load(open(replay))["replay"]:
        cs_args = json.load(open(replay))["replay"]["callsite_args"]
    if not replay or "callsite_args" in json.load(open(replay))["replay"]:
        cexe = C.build_harness("c04_callsite", "asan")
        rc, so, se = C.run_harness(cexe, list(cs_args) + ([tmpdir] if len(cs_args) > 3 else []), timeout=3000)
        tr = so.splitlines()
        if rc != 0:
            chk.violation("call-site harness died (rc=%d)\n%s" % (rc, se[-2000:]),
                          {"callsite_args": cs_args, "trace_tail": tr[-20:], "stderr": se[-3000:]},
                          tags={"kind": "crash", "site": "callsite"})
        ml, where = [], []
        for i, l in enumerate(tr):
            if l.startswith(("scenario", "evo", "session")) or " = " not in l:
                continue
            lhs, rhs = l.split(" = ", 1)
            x = to_lean(lhs, rhs) if lhs.startswith("pnew") else lhs
            if x is None:
                broken.append("call-site scenario: slot classes are not an equivalence relation: " + rhs[:100])
                x = "skip"
            ml.append(x)
            where.append(i)
        cl = C.run_driver("c04_driver", ml) if (drv_ok and ml) else None
        model_at = dict(zip(where, cl)) if cl is not None else {}
        scen, meta, reported = -1, {}, set()
        csdis = 0
        last_site = None
        for i, l in enumerate(tr):
            if l.startswith("scenario"):
                scen += 1
                meta = dict(kv.split("=") for kv in l.split()[2:])
                chk.count("callsite:scenario:" + meta["strategy"])
                chk.count("callsite:prefill:" + meta["prefill"])
                chk.count("callsite:evaluator:" + meta.get("evaluator", "?"))
                last_site = None
                continue
            if l.startswith("evo"):
                chk.count("callsite:evolutions")
                m = re.search(r"checked=(\d+) wrong=(\d+)", l)
                if m:
                    chk.count("callsite:evolution-comparisons", int(m.group(1)))
                if " | BAD " in l:
                    chk.violation("real evolution with dss (search::run's loop: init, evolution.run(r, shake), close), "
                                  "non-empty cache before run 0: " + l,
                                  {"callsite_args": cs_args, "line": l},
                                  tags={"kind": "proxy-differs-from-direct-evaluation", "site": "evolution", "prefilled": "yes"})
                continue
            if l.startswith("session"):
                chk.count("callsite:sessions")
                m = re.search(r"strategy=(\w+).* checked=(\d+) wrong=(\d+)", l)
                if m:
                    chk.count("callsite:session:" + m.group(1))
                    chk.count("callsite:session-comparisons", int(m.group(2)))
                    for _ in range(int(m.group(2))):
                        chk.seen(("session", cs_args[0], l.split()[1], _))
                if " | BAD " in l:
                    strat = m.group(1) if m else "?"
                    chk.violation("two real src_search::run sessions sharing a serialization file (session 1: as-is "
                                  "validation, fills and saves the cache; session 2: %s, loads it): the fitness "
                                  "search::run reports for the best individual differs from the evaluator's on the "
                                  "training set of that moment: %s" % (strat, l),
                                  {"callsite_args": cs_args, "line": l},
                                  tags={"kind": "proxy-differs-from-direct-evaluation",
                                        "site": "src_search::run/" + strat, "prefilled": "yes"})
                continue
            if " = " not in l:
                continue
            lhs, rhs = l.split(" = ", 1)
            t = lhs.split()
            if t[0] == "cs":
                last_site = (SITES[int(t[1])], int(t[2]))
                chk.count("callsite:step:" + SITES[int(t[1])])
            mod = model_at.get(i)
            if mod is not None and " | gen " in mod:
                chk.cov["generated_terms_vs_model_disagreements"] = chk.cov.get("generated_terms_vs_model_disagreements", 0) + 1
                if t[0] == "pevalv" and (gen_part(mod).split()[1:2] or ["?"])[0] not in rhs.split(" | ")[0].split(",") \
                        and " | BAD " not in rhs and gen_ok:
                    broken.append("call-site scenario: generated terms and real proxy disagree at `%s`: code %s, generated %s"
                                  % (lhs, rhs, gen_part(mod)))
                mod = strip(mod)
            if t[0] == "pevalv":
                chk.seen(("cs", cs_args[0], scen, i))
                vs = rhs.split(" | ")[0].split(",")
                stale = " | BAD " in rhs
                chk.count("callsite:eval:" + ("stale" if stale else "current"))
                if mod is not None and (mod.split()[1:2] or ["?"])[0] not in vs:
                    csdis += 1
                    if csdis == 1:
                        broken.append("call-site scenario %d: model and real proxy disagree at `%s` after %s: code answers "
                                      "as on data version(s) %s, model %s" % (scen, lhs, last_site, vs, mod))
                if stale and scen not in reported:
                    reported.add(scen)
                    site, arg = last_site if last_site else ("prefill", 0)
                    start = max(j for j in range(i + 1) if tr[j].startswith("scenario"))
                    steps = [x for x in tr[start:i + 1] if not x.startswith("pevalv")]
                    chk.violation("after %s(%d) the proxy answers with the fitness on an OLD training set (scenario %d: %s; "
                                  "real %s_evaluator in evaluator_proxy; cache %s before run 0): `%s`"
                                  % (site, arg, scen, tr[start], meta.get("evaluator"),
                                     "non-empty" if meta.get("prefill") != "0" else "empty", l),
                                  {"callsite_args": cs_args, "scenario": scen, "steps": steps[-30:], "line": l},
                                  tags={"kind": "proxy-differs-from-direct-evaluation", "site": site, "arg": arg,
                                        "prefilled": "yes" if meta.get("prefill") != "0" else "no"})
            elif mod is not None and t[0] != "pnew" and rhs.split(" | ")[0] != mod:
                csdis += 1
                if csdis == 1:
                    broken.append("call-site scenario %d: `%s`: code `%s`, model `%s`" % (scen, lhs, rhs, mod))
        chk.cov["callsite_model_vs_code_disagreements"] = csdis
        chk.cov["callsite_args"] = cs_args

    # ---- thorough: 2^32 real clear() calls --------------------------------
    if chk.tier == "thorough" and not replay:
        pexe = C.build_harness("c04_cache", "plain")
        rc, so, se = C.run_harness(pexe, ["wrapreal"], timeout=3000)
        chk.cov["wrapreal"] = so.strip()
        chk.count("wrapreal:2^32-clears")
        if rc != 0 or not so.startswith("wrapreal 0"):
            chk.violation("after a store and 2^32 real clear() calls the lookup returns the pre-clear value: " + so.strip(),
                          {"lines": ["(harness c04_cache wrapreal)"], "answer": so.strip()},
                          tags={"kind": "seal-wrap-real"})

    if broken and not [v for v in chk.violations if not v[2]]:
        for b in broken:
            chk.violation(b, dict({"broken": b, "searched": "%d operation lines in %d sequences, each lookup judged by the "
                                   "abstract-map / direct-evaluation oracle: no failing input" % (len(lines), len(seqs))},
                                  **broken_replay), no_input=True)
    elif broken:
        chk.notes += broken
    return chk.finish(
        level="proof",
        checker_cmd="python3 tools/translate_cache.py > lean/Vita/C04/Gen.lean && lake build Vita.C04.Props c04_driver && "
                    "lake env lean <#print axioms for every theorem>",
        rule="operation sequences (store/lookup/clear/clear(key)/save+load-into-fresh, header-only loads that put the "
             "seal next to 2^32, proxy evaluations/data changes/clears) over engineered key pools on tables of 1..8 "
             "bits (proxy 7..9); one evaluation = one observation (lookup, proxy call or round trip); distinct = "
             "distinct operation prefixes leading to it; every observation is judged by the harness's oracle and "
             "compared with the Lean model",
        trusted=["Lean 4.33 kernel", "tools/translate_cache.py + cxx2lean.py (clang-14 JSON AST -> terms of Vita/C04/Lang.lean "
                 "and effect skeletons of Vita/C04/Sites.lean; syntax only, refuses unknown shapes; its output is also "
                 "run against the real cache on every check)",
                 "the semantics of the statement language (Vita/C04/Lang.lean) and the classification of call-site "
                 "atoms (change / clear / eval / load) in the translator",
                 "cache::save / load are translated at TOKEN level (Vita/C04/IO.lean): that a read meeting a token of another kind fails, and what bytes one token is, are assumptions here (C11's subject), exercised by the dump / loadcut operations of the differential run",
                 "harness/c04_cache.cc, harness/c04_callsite.cc + g++ 12 ASan/UBSan",
                 "text round trip of finite doubles and 64-bit integers through iostreams (C11)"])
