"""C05 — evaluators compute the documented standardized fitness.

Lean: Vita/C05/{Model,Lemmas,Laws,Props}.lean (theorems over exact `Rat` and over any number
type obeying `IEEELaws`).  Tie: differential, bit-exact – the compiled evaluators of /repo's
working tree (harness/c05_eval.cc) and the Lean model run with hardware doubles
(c05_driver) on the same datasets x programs x evaluators; fitness bits and the difficulty
vector are compared.  Independent of the model, every case is also judged by the property's own
oracle (NaN / positive fitness, difficulty moved on the wrong rows, zero fitness without a match,
fitness far from minus the documented mean).  Round 3c: the declared type of every counter / accumulator of the
evaluators and classifiers is extracted from the clang AST (tools/translate_counters.py -> GenCounters.lean, width
obligation decided in Props.lean) and counter-width-directed multisets (`wrap`: 2^8+j / 2^16+j examples in one slot /
class / verdict next to a minority) are judged by the documented rule evaluated on the multiset.
"""
import glob
import json
import math
import os
import struct
from fractions import Fraction

import sys

from vlib import common as C
from checks import c05_doc as D

sys.path.insert(0, os.path.join(C.ROOT, "tools"))
import translate_errf  # noqa: E402
import translate_counters  # noqa: E402
from cxx2lean import Refuse  # noqa: E402

EPS2 = 2.0 * 2.0 ** -52            # issmall threshold
DMIN = 2.0 ** -1022
DMAX = 1.7976931348623157e308
PEN = DMAX / 100.0
KINDS = ["mae", "rmae", "mse", "count"]
PEN_TYPES = ["d", "d", "fn", "fl", "i", "u", "l", "ul", "b"]
PROGS1 = ["x1", "x1", "x1", "x2", "div", "ln", "add", "sub", "mul", "abs", "neg", "mulbig", "big", "tiny"]


def f2b(x):
    return struct.unpack("<Q", struct.pack("<d", x))[0]


def b2f(n):
    return struct.unpack("<d", struct.pack("<Q", n))[0]


def tok(x):
    """token of a double (None = no value)"""
    if x is None:
        return "u"
    if x != x:
        return "nan"
    return str(f2b(x))


def untok(s):
    if s == "u":
        return None
    if s == "nan":
        return float("nan")
    return b2f(int(s))


# ---------------------------------------------------------------------------
# python emulation of the hand-built programs (steers the generator only)
# ---------------------------------------------------------------------------

def fin(v):
    return v if (v is not None and math.isfinite(v)) else None


def emulate(prog, x1, x2):
    try:
        if prog.startswith("t:"):
            vals = [emulate(p, x1, x2) for p in prog[2:].split(",")]
            avg, cnt = 0.0, 0.0
            for v in vals:
                if v is not None:
                    cnt += 1.0
                    avg += (v - avg) / cnt
            return avg if cnt > 0 else None
        if prog == "x1":
            return x1
        if prog == "x2":
            return x2
        if prog == "big":
            return 1e308
        if prog == "tiny":
            return 1e-300
        if prog in ("ln", "abs", "neg", "mulbig"):
            if x1 is None:
                return None
            if prog == "ln":
                return fin(math.log(x1)) if x1 > 0 else None
            if prog == "abs":
                return abs(x1)
            if prog == "neg":
                return fin(0.0 - x1)
            return fin(x1 * 1e308)
        if x1 is None or x2 is None:
            return None
        if prog == "div":
            return fin(x1 / x2) if x2 != 0 else None
        if prog == "add":
            return fin(x1 + x2)
        if prog == "sub":
            return fin(x1 - x2)
        if prog == "mul":
            return fin(x1 * x2)
    except (OverflowError, ValueError, ZeroDivisionError):
        return None
    return None


# ---------------------------------------------------------------------------
# the property's own oracle (documented per-example errors, plain Python doubles)
# ---------------------------------------------------------------------------

def doc_err(kind, a, t):
    """documented error of one example as the code documents it (doubles); inf when the value is
    not representable (|a-t| or (a-t)^2 beyond DBL_MAX)"""
    if kind == "count":
        return 1.0 if (a is None or not abs(a - t) < EPS2) else 0.0
    if a is None:
        return 200.0 if kind == "rmae" else PEN
    if kind == "mae":
        return abs(a - t)
    if kind == "mse":
        d = a - t
        try:
            return d * d
        except OverflowError:
            return float("inf")
    delta = abs(t - a)
    if delta != delta or not math.isfinite(a):
        return 200.0
    if delta <= 10.0 * DMIN:
        return 0.0
    if math.isinf(delta):
        return 200.0            # opposite signs: |t-a| = |t|+|a|, the relative difference is 200
    # exact rational value of 200*delta/(|a|+|t|): no intermediate overflow
    return float(Fraction(200) * Fraction(delta) / (Fraction(abs(a)) + Fraction(abs(t))))


def exact_err(kind, a, t):
    """the documented error in exact arithmetic (Fraction), None when it exceeds DBL_MAX"""
    if kind == "count" or a is None:
        return Fraction(doc_err(kind, a, t))
    if not math.isfinite(a):     # a team's running mean may overflow (C08's subject)
        return None
    fa, ft = Fraction(a), Fraction(t)
    if kind == "mae":
        e = abs(fa - ft)
    elif kind == "mse":
        e = (fa - ft) ** 2
    else:
        # the window test is documented on the computed (double) difference
        e = Fraction(0) if abs(t - a) <= 10.0 * DMIN else 200 * abs(ft - fa) / (abs(fa) + abs(ft))
    return e if e <= Fraction(DMAX) else None


def matched(kind, a, t):
    """the program reproduces the target within the documented tolerance (floating window)"""
    if a is None:
        return False
    d = abs(a - t)
    if kind == "count":
        return d < EPS2
    if kind == "mse":
        return d <= 1e-150          # (a-t)^2 underflows to 0 below ~1.5e-162; generous window
    return d <= 10.0 * DMIN


def visited_rows(n, step):
    return [j * step for j in range(n // step)]


# ---------------------------------------------------------------------------
# generators
# ---------------------------------------------------------------------------

class Gen:
    def __init__(self, rng):
        self.r = rng

    def dbl(self, flavour=None):
        r = self.r
        k = flavour if flavour is not None else r.below(10)
        if k <= 2:
            return float(r.between(-20, 21))
        if k == 3:
            return (r.between(-2000000, 2000001)) / 1024.0
        if k == 4:   # any finite magnitude: random bit pattern
            while True:
                v = b2f(r.next())
                if math.isfinite(v):
                    return v
        if k == 5:   # huge
            return r.choice([1.0, -1.0]) * r.choice([1e200, 1e300, 8e307, 1e308, 1.7e308, DMAX, 1e154, 1.4e154, 9e153])
        if k == 6:   # tiny / denormal / zeros
            return r.choice([0.0, -0.0, 5e-324, -5e-324, 1e-320, DMIN, 10 * DMIN, 11 * DMIN, 1e-300, 1e-162, 1e-150, -1e-155])
        if k == 7:
            return r.choice([1.0, -1.0]) * math.ldexp(1.0 + r.below(1 << 20) / float(1 << 20), r.between(-60, 61))
        if k == 8:
            return r.choice([EPS2, EPS2 / 2, EPS2 * 2, 1.0 + EPS2, 1.0 + 2.0 ** -52, 1.0 - 2.0 ** -53, 2.0 ** -26, 2.2e-8, 2.0e-8])
        return float(r.between(-3, 4)) * 0.5

    def near(self, v):
        """a target close to / equal to the program's output"""
        r = self.r
        k = r.below(8)
        if k <= 3 or not math.isfinite(v):
            return v
        if k == 4:
            return math.nextafter(v, math.inf)
        if k == 5:
            return math.nextafter(v, -math.inf)
        if k == 6:
            return v + r.choice([EPS2 / 2, EPS2, -EPS2 * 0.75, 2.2e-8, 1e-8, 5e-324, 10 * DMIN, 12 * DMIN, 1e-160])
        return v * (1.0 + r.choice([2.0 ** -52, -2.0 ** -52, 2.0 ** -30, 1e-9]))

    def prog(self):
        r = self.r
        if r.chance(0.12):
            m = r.between(1, 5)
            return "t:" + ",".join(r.choice(PROGS1) for _ in range(m))
        return r.choice(PROGS1)

    def rows(self, prog, n, allmatch):
        r = self.r
        style = r.below(6)          # dominant flavour of this dataset
        pu = r.choice([0.0, 0.0, 0.05, 0.3, 1.0]) if not allmatch else 0.0
        rows = []
        for _ in range(n):
            fl = None if style >= 4 else r.choice([style, None, None])
            x1 = None if r.chance(pu) else self.dbl(fl)
            x2 = None if r.chance(pu / 2) else self.dbl(fl)
            out = emulate(prog, x1, x2)
            if allmatch:
                tries = 0
                while out is None and tries < 20:
                    x1, x2 = float(r.between(1, 50)), float(r.between(1, 50))
                    out = emulate(prog, x1, x2)
                    tries += 1
                t = out if out is not None else 0.0
            elif out is not None and r.chance(0.4):
                t = self.near(out)
            else:
                t = self.dbl(fl)
            if not math.isfinite(t):
                t = 1.0
            d = r.choice([0, 0, 0, 1, 7, r.below(1000), (1 << 40) + r.below(99)])
            rows.append((t, x1, x2, d))
        return rows

    # -- classification: one output style per class, aimed at degenerate distributions ------
    CLS_STYLES = ["spread", "spread", "const", "const", "undef_all", "undef_some", "huge", "tiny",
                  "nearconst", "any", "single", "zeros"]

    def cls_inputs(self, style, base):
        """(x1, x2) of one example of a class whose outputs follow `style`"""
        r = self.r
        if style == "const":
            return base
        if style == "undef_all":
            return (None, base[1])
        if style == "undef_some":
            return (None, base[1]) if r.chance(0.35) else (base[0], base[1])
        if style == "huge":
            return (self.dbl(5), r.choice([1.0, base[1], self.dbl(5)]))
        if style == "tiny":
            return (self.dbl(6), r.choice([1.0, base[1], self.dbl(6)]))
        if style == "nearconst":     # variance around the issmall threshold (2.2e-8)^2 ~ 4.4e-16
            return (base[0] + r.choice([0.0, 0.0, 1.5e-8, 2e-8, 2.2e-8, 3e-8, 1e-7, -2e-8]), base[1])
        if style == "zeros":         # division by zero / ln(0): no value
            return (r.choice([0.0, -0.0, base[0]]), r.choice([0.0, -0.0, base[1]]))
        if style == "any":
            return (self.dbl(), self.dbl())
        # spread
        return (base[0] + float(r.between(-3, 4)) * r.choice([1.0, 0.25]), base[1] + float(r.between(-1, 2)))

    def cls_rows_structured(self, prog, ncl):
        r = self.r
        same_base = r.chance(0.15)          # every class around the same point: identical distributions
        base0 = (float(r.between(-20, 21)), float(r.between(1, 9)))
        rows = []
        for c in range(ncl):
            style = r.choice(self.CLS_STYLES)
            base = base0 if same_base else r.choice([(float(r.between(-40, 41)), float(r.between(-3, 9))),
                                                     (self.dbl(3), self.dbl(3)), (self.dbl(7), 1.0),
                                                     (float(c * 5), 1.0)])
            k = 1 if style == "single" else r.choice([1, 2, 2, 3, 5, 8, r.between(2, 30)])
            for _ in range(k):
                x1, x2 = self.cls_inputs(style, base)
                for v in (x1, x2):
                    assert v is None or math.isfinite(v)
                rows.append((c, x1, x2, r.choice([0, 0, 3, r.below(500)])))
        return rows

    def nrows(self, big):
        r = self.r
        k = r.below(10)
        if k == 0:
            return 1
        if k == 1:
            return r.between(2, 5)
        if k <= 6:
            return r.between(5, 40)
        return r.between(40, 201 if big else 120)


def reg_line(kind, fast, prog, rows, pen=None):
    head = (f"con {tok(pen)} " if pen is not None else "reg ") + f"{kind} {1 if fast else 0} {prog} {len(rows)}"
    return head + "".join(f" {tok(t)} {tok(x1)} {tok(x2)} {d}" for t, x1, x2, d in rows)


def cls_line(kind, xslot, prog, rows, fast=False):
    return f"{'clsf' if fast else 'cls'} {kind} {xslot} {prog} {len(rows)}" + "".join(
        f" {c} {tok(x1)} {tok(x2)} {d}" for c, x1, x2, d in rows)


def hist_case(g, rng):
    """one evaluator object, a dataframe that changes under it (see harness `hist`)"""
    r = rng
    cls = r.chance(0.6)
    prog = g.prog()
    ops = []

    def rowtxt(rows):
        return f"{len(rows)}" + "".join(f" {c if cls else tok(c)} {tok(x1)} {tok(x2)} {d}" for c, x1, x2, d in rows)

    if cls:
        kind = r.choice(["dyn", "gau", "gau", "bin"])
        ncl = 2 if kind == "bin" else r.choice([2, 2, 3, 4])

        def rows_for(k, lo=1):
            rows = g.cls_rows_structured(prog, k) if r.chance(0.5) else \
                [(j % k, g.dbl(r.choice([0, 3, None])), g.dbl(r.choice([0, 3, None])), r.choice([0, 0, 2, r.below(50)]))
                 for j in range(r.between(max(k, lo), 14))]
            rows = rows[:40]
            if len({c for c, _, _, _ in rows}) < k:      # every class present at least once
                rows += [(c, float(c), 1.0, 0) for c in range(k)]
            for j in range(len(rows) - 1, 0, -1):
                k2 = r.below(j + 1)
                rows[j], rows[k2] = rows[k2], rows[j]
            return rows
        more = ncl if kind == "bin" else ncl + r.choice([1, 1, 2])
    else:
        kind = r.choice(KINDS)

        def rows_for(k, lo=1):
            return g.rows(prog, r.between(lo, 14), r.chance(0.1))
        ncl = more = 0
    fast = r.chance(0.1)
    shape = r.below(6)
    first = rows_for(ncl)
    if shape == 0:                       # built on the still EMPTY frame, filled later
        ops = ["C", "L " + rowtxt(first), "V"]
    elif shape == 1:                     # rows appended after a first evaluation
        extra = [(c % max(ncl, 1) if cls else c, x1, x2, d) for c, x1, x2, d in rows_for(ncl)]
        ops = ["L " + rowtxt(first), "C", "V", "A " + rowtxt(extra), "V"]
    elif shape == 2:                     # the importer run again: MORE classes than at construction
        ops = ["L " + rowtxt(first), "C", "V", "L " + rowtxt(rows_for(more)), "V"]
    elif shape == 3:                     # rows erased (a whole class may disappear from the rows, not from the table)
        ops = ["L " + rowtxt(first), "C", "V", f"E {r.between(1, max(1, len(first) - 1))}", "V"]
    elif shape == 4:                     # built on the empty frame, then everything
        second = rows_for(more)
        extra = [(c % max(more, 1) if cls else c, x1, x2, d) for c, x1, x2, d in rows_for(more)]
        ops = ["C", "V", "L " + rowtxt(first), "V", "L " + rowtxt(second), "V", "A " + rowtxt(extra), "V",
               f"E {r.between(1, max(1, len(second) - 1))}", "V", "V"]
    else:                                # FEWER classes in the rows than in the class table (reload of a subset)
        sub = [x for x in first if x[0] != (ncl - 1)] if cls and ncl > 2 else first[:max(1, len(first) // 2)]
        ops = ["L " + rowtxt(first), "C", "V", "L " + rowtxt(sub or first), "V", "V"]
    return f"hist {'cls' if cls else 'reg'} {kind} {1 if fast else 0} {r.choice([1, 2, 10])} {prog} " + " ".join(ops)


def big_cases(chk, rng, searching):
    """scale-directed cases (n = 1e5+1, 2e5+1, 1e6 examples of which k = 1, 2 are wrong): tolerance-based shortcuts
    (`almost_equal` has a RELATIVE tolerance of 1e-5) must not hide a handful of mistakes.  A short list in the quick
    tier, every evaluator x size x k in the thorough tier and whenever a proof / the tie broke."""
    kinds = ["dyn", "gau", "bin", "count", "mae", "mse", "rmae"]
    if chk.tier == "quick" and not searching:
        plan = [("dyn", 200001, 1), ("dyn", 100001, 1), ("gau", 200001, 1), ("bin", 200001, 2),
                ("count", 200001, 1), ("mae", 100001, 1)]
    else:
        plan = [(k, n, w) for k in kinds for n in (100001, 200001, 1000000) for w in (1, 2)]
    out = []
    for kind, n, w in plan:
        pos = set()
        while len(pos) < w:
            pos.add(5 * (2 * rng.below(n // 10 - 1) + 1))        # odd (class B) and a multiple of 5 (visited by fast())
        fast = kind not in ("dyn", "gau", "bin") and rng.chance(0.5)
        out.append(f"big {kind} {1 if fast else 0} {rng.choice([1, 2, 10])} {n} {w} " + " ".join(map(str, sorted(pos))))
    return out


def wrap_cases(chk, rng, searching):
    """counter-width-directed cases (C05-m8): program X1 on a MULTISET of examples in which ONE slot / ONE class /
    ONE accumulator receives base + j examples (base = 2^8, 2^16, … ; j = 0..3) next to a minority of m > j examples
    of another class in the same slot: a counter narrower than the model's (a `Nat`) wraps to j, the minority takes
    the slot and fitness / difficulty are those of another classifier.  Also: base + j WRONG examples (the error
    accumulator), base + j examples in one Gaussian class (Welford's count), every difficulty counter starting at
    2^8-1, 2^16-1, 2^32-1, 2^40.  A short list in the quick tier (2^8 and 2^16), a longer one (multiples, 2^17,
    2^20) in the thorough tier and whenever a proof / the tie broke."""
    full = chk.tier != "quick" or searching
    bases = [256, 65536] if not full else [256, 512, 65536, 131072] if chk.tier == "quick" else \
        [256, 512, 768, 65536, 65536, 131072, 196608, 1 << 20]
    vals = [-100.0, 100.0, -3.0, 3.0, 0.25, None]
    out = []

    def d0():
        return rng.choice([0, 0, 255, 65535, (1 << 32) - 1, (1 << 40) + rng.below(99)])

    def grp(gs):
        return f"{len(gs)}" + "".join(f" {c if isinstance(c, int) else tok(c)} {tok(x)} {k}" for c, x, k in gs)

    for base in bases:
        reps = 2 if chk.tier != "quick" else 1
        for _ in range(reps):
            j = rng.below(4)
            m = j + 1 + rng.below(40)
            big = base + j
            # -- dyn_slot: the majority class of one slot has base + j examples, the minority m > j
            for variant in ("majority", "majority", "wrong"):
                ncl = rng.choice([2, 2, 3])
                xslot = rng.choice([1, 2, 10])
                last = ncl * xslot - 1
                while True:
                    va, vb = rng.choice(vals), rng.choice(vals)
                    sa = last if va is None else min(D.discretization(va, last), last)
                    sb = last if vb is None else min(D.discretization(vb, last), last)
                    if sa != sb:
                        break
                cmaj = rng.below(ncl)
                cmin = (cmaj + 1 + rng.below(ncl - 1)) % ncl
                gs = [(cmaj, va, big + (m + 1 + rng.below(9) if variant == "wrong" else 0)),
                      (cmin, va, big if variant == "wrong" else m), (cmin, vb, 1 + rng.below(50))]
                for c in range(ncl):
                    if c not in (cmaj, cmin):
                        gs.append((c, vb, 1 + rng.below(30)))
                out.append(f"wrap dyn {xslot} {ncl} {d0()} " + grp(gs))
            # -- gaussian: one class distribution has seen base + j values (non-constant: Welford's count matters)
            for variant in ("majority", "undefined"):
                ncl = rng.choice([2, 2, 3])
                cmaj = rng.below(ncl)
                cmin = (cmaj + 1 + rng.below(ncl - 1)) % ncl
                ctr = float(rng.choice([-100, -40, 60]))
                h = big // 2 + rng.below(3)
                if variant == "majority":
                    gs = [(cmaj, ctr - 1.0, h), (cmaj, ctr + 1.0, big - h), (cmin, ctr, m),
                          (cmin, ctr + 200.0, 5 + rng.below(40)), (cmin, ctr + 202.0, 5 + rng.below(40))]
                else:            # the big class has no value on most examples (counted as 0.0)
                    gs = [(cmaj, None, h), (cmaj, 2.0, big - h), (cmin, 1.0, m),
                          (cmin, 300.0, 5 + rng.below(40)), (cmin, 304.0, 5 + rng.below(40))]
                for c in range(ncl):
                    if c not in (cmaj, cmin):
                        gs += [(c, -1000.0, 3 + rng.below(9)), (c, -1003.0, 3 + rng.below(9))]
                out.append(f"wrap gau 1 {ncl} {d0()} " + grp(gs))
            # -- binary: base + j right / base + j wrong answers
            v = rng.choice([100.0, 0.5, 1e-300])
            out.append(f"wrap bin 1 2 {d0()} " + grp([(0, -v, big), (1, -v, m), (1, v, 1 + rng.below(50))]))
            out.append(f"wrap bin 1 2 {d0()} " + grp([(0, v, big), (1, v, m), (0, -v, 1 + rng.below(50))]))
            # -- sum of errors: base + j matched rows and m wrong ones, and the other way round
            kinds = ["count", rng.choice(["mae", "mse", "rmae"])] if not full else ["count", "mae", "mse", "rmae"]
            for kind in kinds:
                x = float(rng.between(-5, 6))
                a, b = (big, m) if rng.chance(0.5) else (m, big)
                out.append(f"wrap {kind} 1 0 {d0()} " + grp([(x, x, a), (x + rng.choice([1.0, -2.0, 0.5]), x, b),
                                                           (x, None, rng.below(3))]))
    if chk.tier != "quick":
        # 2^24 + j WRONG answers: a `float` accumulator stops counting at 2^24 (9 GB under ASan: only with memory to spare)
        avail = 0
        try:
            for ln in open("/proc/meminfo"):
                if ln.startswith("MemAvailable:"):
                    avail = int(ln.split()[1]) // (1 << 20)
        except OSError:
            pass
        if avail >= 24:
            j = rng.below(4)
            out.append(f"wrap bin 1 2 0 " + grp([(0, 100.0, (1 << 24) + j), (1, 100.0, 1 + rng.below(40))]))
        else:
            chk.count("wrap:2^24_case_skipped_for_lack_of_memory")
    return out


def gen_cases(chk, rng):
    g = Gen(rng)
    quick = chk.tier == "quick"
    lines = []
    nreg = 12000 if quick else 90000
    for i in range(nreg):
        kind = KINDS[i % 4]
        prog = g.prog()
        fast = rng.chance(0.12)
        n = rng.between(100, 201) if fast else g.nrows(not quick or rng.chance(0.3))
        allmatch = rng.chance(0.12)
        rows = g.rows(prog, n, allmatch)
        pen = None
        if rng.chance(0.08):
            pen = rng.choice([0.0, 1.0, 2.5, 1e300, g.dbl()])
        lines.append(reg_line(kind, fast, prog, rows, pen))
        if rng.chance(0.15) and n > 1:     # the same examples in another order
            perm = list(rows)
            for j in range(len(perm) - 1, 0, -1):
                k2 = rng.below(j + 1)
                perm[j], perm[k2] = perm[k2], perm[j]
            lines.append(reg_line(kind, fast, prog, perm, pen))
    ncls = 5400 if quick else 40000
    for i in range(ncls):
        kind = ["dyn", "gau", "bin", "gau"][i % 4]
        prog = g.prog()
        ncl = 2 if kind == "bin" else rng.choice([2, 2, 3, 4, 7])
        if rng.chance(0.5):
            rows = g.cls_rows_structured(prog, ncl)
        else:
            n = max(g.nrows(not quick or rng.chance(0.3)), ncl)
            style = rng.below(6)
            pu = rng.choice([0.0, 0.0, 0.05, 0.3, 1.0])
            rows = []
            for j in range(n):
                c = j if j < ncl else (rng.below(ncl) if rng.chance(0.8) else 0)
                fl = None if style >= 4 else rng.choice([style, None])
                x1 = None if rng.chance(pu) else g.dbl(fl)
                x2 = None if rng.chance(pu / 2) else g.dbl(fl)
                rows.append((c, x1, x2, rng.choice([0, 0, 3, rng.below(500)])))
        # shuffle so that class ids are not simply in order of the first rows
        for j in range(len(rows) - 1, 0, -1):
            k2 = rng.below(j + 1)
            rows[j], rows[k2] = rows[k2], rows[j]
        lines.append(cls_line(kind, rng.choice([1, 2, 10, 10, 17]), prog, rows, fast=rng.chance(0.1)))
    for v in [0.0, -0.0, 1.0, -2.5, DMAX, -DMAX, 5e-324, float("inf"), float("-inf"), float("nan")]:
        lines.append("ga " + tok(v))
    for _ in range(60 if quick else 600):
        lines.append("ga " + tok(g.dbl()))
    # GA / DE evaluators: finite and non-finite objective values, operator() and fast()
    special = [0.0, -0.0, 1.0, -2.5, DMAX, -DMAX, 5e-324, float("inf"), float("-inf"), float("nan")]
    for cmd in ("gaf", "de", "def"):
        for v in special:
            lines.append(cmd + " " + tok(v))
        for _ in range(20 if quick else 200):
            lines.append(cmd + " " + tok(g.dbl()))
    # constrained evaluator: every penalty shape x (GA / DE objective | error-based evaluator)
    def pen_case():
        ty = rng.choice(PEN_TYPES)
        if ty in ("d", "fn"):
            v = rng.choice([0.0, -0.0, 1.0, 2.5, 1e300, DMAX, 5e-324, g.dbl(), abs(g.dbl()),
                            float("inf"), float("nan"), -1.0])
            return ty, tok(v)
        if ty == "fl":
            v = rng.choice([0.0, 1.0, 0.1, 3.4e38, 1e-45, abs(g.dbl(3)), float("inf")])
            return ty, tok(v)
        if ty == "b":
            return ty, str(rng.below(2))
        if ty == "u":
            return ty, str(rng.choice([0, 1, 2, 3, 1000, 2 ** 31, 2 ** 32 - 1, rng.below(2 ** 32)]))
        if ty == "ul":
            return ty, str(rng.choice([0, 1, 3, 2 ** 53 + 1, 2 ** 63, rng.below(2 ** 40)]))
        if ty == "i":
            return ty, str(rng.choice([0, 1, 2, 7, 2 ** 31 - 1, rng.below(2 ** 20), -1]))
        return ty, str(rng.choice([0, 1, 5, 2 ** 53 + 1, 2 ** 62, rng.below(2 ** 50), -3]))
    for _ in range(260 if quick else 2600):
        ty, pv = pen_case()
        v = rng.choice(special + [g.dbl(), g.dbl()])
        lines.append(f"gac {ty} {pv} {rng.below(2)} {rng.choice(['ga', 'de'])} {tok(v)}")
    for i in range(500 if quick else 5000):
        ty, pv = pen_case()
        kind = ["mae", "count"][i % 2]          # the harness instantiates the typed penalties for these two
        prog = rng.choice(PROGS1)               # … and for individuals
        fast = rng.chance(0.3)
        n = rng.between(100, 130) if fast else g.nrows(False)
        rows = g.rows(prog, n, rng.chance(0.1))
        lines.append(f"conp {ty} {pv} " + reg_line(kind, fast, prog, rows)[4:])
    # histories: the dataframe changes under a living evaluator object
    for _ in range(700 if quick else 6000):
        lines.append(hist_case(g, rng))
    # test_evaluator: histories of calls on one object
    for _ in range(150 if quick else 1500):
        k = rng.between(1, 25)
        pool = rng.between(1, 9)
        ids = [rng.below(pool) * rng.choice([1, 1, 3]) for _ in range(k)]
        lines.append(f"tev {rng.choice(['distinct', 'fixed', 'random'])} {rng.below(2)} {k} " + " ".join(map(str, ids)))
    for v in [0.0, EPS2, -EPS2, math.nextafter(EPS2, 0), -math.nextafter(EPS2, 0), 1.0, float("inf"), float("nan"), 5e-324]:
        lines.append("small " + tok(v))
    return lines


# ---------------------------------------------------------------------------
# one pass: harness -> model -> compare + oracle
# ---------------------------------------------------------------------------

def parse_cls(line, cpp):
    """fields of a cls / clsf case and of the harness answer (None when the answer is malformed)"""
    t, c = line.split(), cpp.split()
    n = int(t[4])
    try:
        ti, li, dpos, mi = c.index("tags"), c.index("labels"), c.index("diff"), c.index("mouts")
        ncl = int(c[c.index("classes") + 1])
        members = int(c[c.index("members") + 1])
    except ValueError:
        return None
    mo = c[mi + 1:mi + 1 + members * n]
    if len(mo) != members * n or len(c[dpos + 1:dpos + 1 + n]) != n:
        return None
    rows = t[5:]
    return {"kind": t[1], "xslot": int(t[2]), "n": n, "ncl": ncl, "members": members,
            "mouts": [mo[m * n:(m + 1) * n] for m in range(members)],
            "tags": c[ti + 1:ti + 1 + 2 * n], "labels": [int(x) for x in c[li + 1:li + 1 + n]],
            "after": [int(x) for x in c[dpos + 1:dpos + 1 + n]],
            "before": [int(rows[4 * i + 3]) for i in range(n)], "fit": c[2] if c[1] == "fit" else None}


def lean_request(line, cpp):
    """the model's input for a harness case: the program's outputs come from the harness"""
    t = line.split()
    c = cpp.split()
    if t[0] in ("reg", "con", "conp"):
        at = {"reg": 1, "con": 2, "conp": 3}[t[0]]
        kind, fast, n = t[at], t[at + 1] == "1", int(t[at + 3])
        try:
            o = c.index("outs")
        except ValueError:
            return None
        outs = c[o + 1:o + 1 + n]
        if len(outs) != n:
            return None
        rows = t[at + 4:]
        body = "".join(f" {outs[i]} {rows[4 * i]} {rows[4 * i + 3]}" for i in range(n))
        step = 5 if fast else 1
        if t[0] == "reg":
            return f"soe {kind} {step} {n}" + body
        if t[0] == "con":
            return f"csoe {t[1]} {kind} {step} {n}" + body
        return f"cpsoe {t[1]} {t[2]} {kind} {step} {n}" + body
    if t[0] in ("cls", "clsf"):
        f = parse_cls(line, cpp)
        if f is None:
            return None
        n, m = f["n"], f["members"]
        body = "".join(f" {f['labels'][i]} {f['before'][i]}" + "".join(" " + f["mouts"][k][i] for k in range(m))
                       for i in range(n))
        if f["kind"] == "dyn":
            return f"dynx {f['ncl']} {f['xslot']} {m} {n}" + body
        if f["kind"] == "gau":
            return f"gaux {f['ncl']} {m} {n}" + body
        return f"binx {m} {n}" + body
    if t[0] in ("gaf", "de", "def"):
        return "ga " + t[1]              # `fast()` is not overridden: the same function
    if t[0] == "gac":
        return f"gac {t[1]} {t[2]} {t[5]}"
    if t[0] == "tev":
        return f"tev {t[1]} " + " ".join(t[3:])
    if t[0] in ("big", "wrap", "hist"):
        return None                      # judged by the property's oracle only / expanded into plain cases
    return line   # ga / small: same request


def cpp_canon(line, cpp):
    """the part of the harness answer the model has to reproduce"""
    c = cpp.split()
    if not c or c[0] != "ok":
        return cpp
    t = line.split()
    if t[0] in ("ga", "gaf", "de", "def", "gac", "tev"):
        return " ".join(c[1:])
    if t[0] in ("cls", "clsf"):
        f = parse_cls(line, cpp)
        if f is None:
            return cpp
        return f"fit {f['fit']} tags " + " ".join(f["tags"]) + " diff " + " ".join(map(str, f["after"]))
    keep = []
    i = 1
    while i < len(c) and c[i] not in ("outs", "classes", "tags", "labels", "diff"):
        keep.append(c[i])
        i += 1
    if "diff" in c:
        keep += c[c.index("diff"):]
    return " ".join(keep)


def pen_value(ty, v):
    """the penalty as the number the penalty function returned (a Python float / int)"""
    if ty in ("d", "fn"):
        return untok(v)
    if ty == "fl":
        x = untok(v)
        if x != x or math.isinf(x):
            return x
        try:
            return struct.unpack("<f", struct.pack("<f", x))[0]
        except OverflowError:
            return math.copysign(math.inf, x)
    if ty == "b":
        return 1 if int(v) else 0
    return int(v)


def pen_oracle(ty, v, first, name):
    """documented: the first component is minus the penalty"""
    pv = pen_value(ty, v)
    want = -float(pv)
    if (want != want and first != first) or first == want:
        return []
    return [(f"{name}: first component {first!r} is not minus the penalty {pv!r} (penalty function returning "
             f"{ {'d': 'double', 'fn': 'double (std::function)', 'fl': 'float', 'i': 'int', 'u': 'unsigned', 'l': 'long long', 'ul': 'std::size_t', 'b': 'bool'}[ty]})",
             {"evaluator": "constrained", "kind": "prepend", "ptype": ty})]


def oracle(line, cpp, stats=None):
    """Judge one harness answer against the PROPERTY (no Lean involved).
    Returns a list of (what, tags)."""
    bad = []
    t = line.split()
    c = cpp.split()
    if not c or c[0] != "ok":
        if t[0] == "small":
            v = untok(t[1])
            want = "1" if (v == v and abs(v) < EPS2) else "0"
            if cpp.strip() != want:
                bad.append((f"issmall({v!r}) returned {cpp}, documented {want}", {"evaluator": "issmall"}))
        return bad
    if t[0] in ("ga", "gaf", "de", "def", "gac"):
        v = untok(t[5] if t[0] == "gac" else t[1])
        k = int(c[2])
        vals = c[3:3 + k]
        name = ("ga_evaluator<i_de>" if (t[0] in ("de", "def") or (t[0] == "gac" and t[4] == "de")) else "ga_evaluator") + \
               (".fast" if (t[0] in ("gaf", "def") or (t[0] == "gac" and t[3] == "1")) else "")
        if t[0] == "gac":
            if k < 1:
                return [(f"constrained {name} returned an empty fitness", {"evaluator": "constrained", "kind": "shape"})]
            bad += pen_oracle(t[1], t[2], untok(vals[0]), "constrained_evaluator around " + name)
            vals, k = vals[1:], k - 1
        if math.isfinite(v):
            if k != 1 or vals[0] != tok(v):
                bad.append((f"{name} returned {c[1:]} for the finite objective value {v!r}",
                            {"evaluator": "ga", "kind": "value"}))
        elif k != 0:
            bad.append((f"{name} returned {c[1:]} for the non-finite objective value {v!r} (documented: empty fitness)",
                        {"evaluator": "ga", "kind": "nonfinite"}))
        return bad
    if t[0] == "tev":
        # documented: `fixed` the same fitness for everybody; `distinct` a time-invariant fitness per individual,
        # different individuals different values; `random` a time-invariant fitness per individual.  (WHICH
        # numbers is not documented: that is compared with the model only.)
        kind, k = t[1], int(t[3])
        ids = t[4:4 + k]
        got = c[2:2 + k]
        why = None
        if len(got) != k or any(g.startswith("size=") for g in got):
            why = "a fitness that does not have one component"
        elif any(g == "nan" for g in got):
            why = "a NaN fitness"
        elif kind == "fixed" and len(set(got)) > 1:
            why = "different fitnesses from a `fixed` evaluator"
        else:
            first = {}
            for x, g in zip(ids, got):
                if first.setdefault(x, g) != g:
                    why = f"two different fitnesses for individual {x} (not time-invariant)"
                    break
            if why is None and kind == "distinct" and len(set(first.values())) != len(first):
                why = "the same fitness for two different individuals of a `distinct` evaluator"
        if why:
            bad.append((f"test_evaluator({kind}){'.fast' if t[2] == '1' else ''}: history {ids} gave "
                        f"{[untok(g) if g[0] != 's' else g for g in got]}: {why}", {"evaluator": "test", "kind": kind}))
        return bad
    if t[0] in ("reg", "con", "conp"):
        at = {"reg": 1, "con": 2, "conp": 3}[t[0]]
        kind, fast, n = t[at], t[at + 1] == "1", int(t[at + 3])
        step = 5 if fast else 1
        rows = t[at + 4:]
        o, dpos = c.index("outs"), c.index("diff")
        outs = [untok(x) for x in c[o + 1:o + 1 + n]]
        after = [int(x) for x in c[dpos + 1:dpos + 1 + n]]
        if t[0] == "reg":
            if c[1] != "fit" or len(c) < 3:
                return [("fitness has %s components" % c[2:3], {"evaluator": kind, "kind": "shape"})]
            fit = untok(c[2])
        else:
            if c[1] != "fitv" or c[2] != "2":
                return [("constrained fitness is %s" % " ".join(c[1:o]), {"evaluator": "constrained", "kind": "shape"})]
            first = untok(c[3])
            if t[0] == "con":
                bad += pen_oracle("d", t[1], first, "constrained_evaluator")
            else:
                bad += pen_oracle(t[1], t[2], first, "constrained_evaluator")
            fit = untok(c[4])
        tg = [untok(rows[4 * i]) for i in range(n)]
        before = [int(rows[4 * i + 3]) for i in range(n)]
        tags = {"evaluator": kind, "fast": fast}
        if fit != fit:
            bad.append((f"{kind}_evaluator returned a NaN fitness", dict(tags, kind="nan")))
        elif fit > 0:
            bad.append((f"{kind}_evaluator returned a positive fitness {fit!r}", dict(tags, kind="positive")))
        vis = visited_rows(n, step)
        visset = set(vis)
        wrongrows = []
        for i in range(n):
            inc = 0
            if i in visset:
                e = doc_err(kind, outs[i], tg[i])
                inc = 0 if (e == e and abs(e) < EPS2) else 1
            if after[i] != before[i] + inc:
                wrongrows.append(i)
        if wrongrows:
            i = wrongrows[0]
            bad.append((f"{kind}_evaluator: difficulty of example {i} went {before[i]} -> {after[i]} "
                        f"(output {outs[i]!r}, target {tg[i]!r}, visited={i in visset}); {len(wrongrows)} rows differ",
                        dict(tags, kind="difficulty")))
        if fit == fit and vis:
            allm = all(matched(kind, outs[i], tg[i]) for i in vis)
            exact = all(outs[i] is not None and outs[i] == tg[i] for i in vis)
            if fit == 0 and not allm:
                bad.append((f"{kind}_evaluator: fitness is zero although not every target is reproduced",
                            dict(tags, kind="zero")))
            if exact and fit != 0:
                bad.append((f"{kind}_evaluator: every target reproduced exactly but fitness is {fit!r}",
                            dict(tags, kind="zero")))
            ex = [exact_err(kind, outs[i], tg[i]) for i in vis]
            if all(e is not None for e in ex):
                mean = float(sum(ex) / len(ex))
                # the floating running mean of n <= 200 non-negative errors is within ~n^2 ulp of
                # the exact mean (relative to the largest error); 1e-300 absorbs underflow
                if abs(-fit - mean) > 1e-9 * float(max(ex)) + 1e-300:
                    bad.append((f"{kind}_evaluator: fitness {fit!r} is not minus the mean documented error {mean!r}",
                                dict(tags, kind="mean")))
        return bad
    if t[0] in ("cls", "clsf"):
        f = parse_cls(line, cpp)
        name = {"dyn": "dyn_slot", "gau": "gaussian", "bin": "binary"}[t[1]] + (".fast" if t[0] == "clsf" else "")
        tags = {"evaluator": name.split(".")[0]}
        if f is None or f["fit"] is None:
            return [("fitness shape " + " ".join(c[1:3]), dict(tags, kind="shape"))]
        kind, n, ncl = f["kind"], f["n"], f["ncl"]
        tg, lab, after, before = f["tags"], f["labels"], f["after"], f["before"]
        tl = [int(tg[2 * i]) for i in range(n)]
        sure = [untok(tg[2 * i + 1]) for i in range(n)]
        fit = untok(f["fit"])
        # (a) against the answers of a separately built classifier object
        nwrong = sum(1 for i in range(n) if tl[i] != lab[i])
        if fit != fit:
            bad.append((f"{name}_evaluator returned a NaN fitness", dict(tags, kind="nan")))
        elif fit > 0:
            bad.append((f"{name}_evaluator returned a positive fitness {fit!r}", dict(tags, kind="positive")))
        elif kind != "gau" and fit != -float(nwrong):
            bad.append((f"{name}_evaluator returned {fit!r} with {nwrong} misclassified examples",
                        dict(tags, kind="count")))
        elif kind == "gau":
            want = math.fsum((-1.0 if tl[i] != lab[i] else (sure[i] - 1.0) / (ncl - 1)) for i in range(n))
            if abs(fit - want) > 1e-9 * max(1.0, abs(want)):
                bad.append((f"gaussian_evaluator returned {fit!r}, documented score {want!r}", dict(tags, kind="score")))
        wr = [i for i in range(n) if after[i] != before[i] + (1 if tl[i] != lab[i] else 0)]
        if wr:
            i = wr[0]
            bad.append((f"{name}_evaluator: difficulty of example {i} went {before[i]} -> {after[i]} "
                        f"(tag {tl[i]}, label {lab[i]}); {len(wr)} rows differ", dict(tags, kind="difficulty")))
        if any(not (s == s and 0.0 <= s <= 1.0) for s in sure) and kind != "bin":
            i = [k for k in range(n) if not (sure[k] == sure[k] and 0.0 <= sure[k] <= 1.0)][0]
            bad.append((f"{name}: confidence {sure[i]!r} of example {i} is outside [0, 1]", dict(tags, kind="confidence")))
        # (b) against the DOCUMENTED rule, recomputed from the outputs of the member programs
        mouts = [[untok(x) for x in row] for row in f["mouts"]]
        st = D.GaussStats() if kind == "gau" else None
        doc = D.documented(kind, mouts, lab, ncl, f["xslot"], st)
        if stats is not None:
            stats["doc"] = doc
            stats["gauss"] = st
            stats["mouts"] = mouts
        if not doc["ambiguous"]:
            dw = doc["wrong"]
            wr = [i for i in range(n) if after[i] != before[i] + (1 if dw[i] else 0)]
            if wr:
                i = wr[0]
                bad.append((f"{name}_evaluator: difficulty of example {i} went {before[i]} -> {after[i]} but the documented "
                            f"classifier {'misclassifies' if dw[i] else 'recognises'} it (outputs "
                            f"{[m[i] for m in mouts]!r}, documented tag {doc['tags'][i][0]}, label {lab[i]}); {len(wr)} rows differ",
                            dict(tags, kind="doc-difficulty")))
            if fit == fit and abs(fit - doc["fitness"]) > doc["tol"]:
                bad.append((f"{name}_evaluator returned {fit!r}; the documented rule applied to the program's outputs gives "
                            f"{doc['fitness']!r} (tolerance {doc['tol']:.3g})", dict(tags, kind="doc-fitness")))
            dl = [x[0] for x in doc["tags"]]
            if dl != tl and not wr:
                i = [k for k in range(n) if dl[k] != tl[k]][0]
                bad.append((f"{name}: the classifier tags example {i} as {tl[i]}, the documented rule as {dl[i]} "
                            f"(outputs {[m[i] for m in mouts]!r})", dict(tags, kind="doc-tag")))
        return bad
    return bad


def expand_hist(line, ans):
    """A history `hist …` answered `ok rec | rec | …` -> one (synthetic plain case, harness-style answer) per
    evaluation: the evaluator must behave as a function of the data AT CALL TIME, so every evaluation of a
    history is judged (model, oracle) exactly like a one-shot case on the rows / classes / counters the
    dataframe held at that moment."""
    t = line.split()
    cls, kind, fast, xslot, prog = t[1] == "cls", t[2], t[3], t[4], t[5]
    out = []
    for j, rec in enumerate(ans[2:].strip().split(" | ")):
        r = rec.split()
        if not r or r[0].startswith("skip"):
            out.append((None, rec.strip(), j))
            continue
        try:
            db = r.index("dbefore")
            if cls:
                li = r.index("labels")
                labels = r[li + 1:db]
                n = len(labels)
                before = r[db + 1:db + 1 + n]
                body = "".join(f" {labels[i]} 0 0 {before[i]}" for i in range(n))
                pl = f"{'clsf' if fast == '1' else 'cls'} {kind} {xslot} {prog} {n}" + body
                pa = "ok " + " ".join(r[:db] + r[db + 1 + n:])
            else:
                ti, oi = r.index("targets"), r.index("outs")
                targets = r[ti + 1:db]
                n = len(targets)
                before = r[db + 1:db + 1 + n]
                body = "".join(f" {targets[i]} 0 0 {before[i]}" for i in range(n))
                pl = f"reg {kind} {fast} {prog} {n}" + body
                pa = "ok " + " ".join(r[:ti] + r[oi:])
        except ValueError:
            out.append((None, "malformed " + rec[:100], j))
            continue
        out.append((pl, pa, j))
    return out


def run_model(reqs, drv_ok):
    if not drv_ok:
        return None
    idx = [i for i, r in enumerate(reqs) if r is not None]
    ans = C.run_driver("c05_driver", [reqs[i] for i in idx])
    lean = [None] * len(reqs)
    for k, i in enumerate(idx):
        lean[i] = ans[k] if k < len(ans) else None
    return lean


def big_oracle(line, cpp):
    """scale-directed cases: a handful of wrong examples among 1e5 … 1e6 must still be counted"""
    t, c = line.split(), cpp.split()
    kind, fast, n, k = t[1], t[2] == "1", int(t[4]), int(t[5])
    pos = sorted(int(x) for x in t[6:6 + k])
    name = {"dyn": "dyn_slot", "gau": "gaussian", "bin": "binary"}.get(kind, kind)
    tags = {"evaluator": name, "scale": n}
    if c[:2] != ["ok", "fit"]:
        return [(f"{name}_evaluator on {n} examples: answer {cpp[:100]}", dict(tags, kind="shape"))]
    fit = untok(c[2])
    moved = int(c[c.index("moved") + 1])
    rows = [int(x) for x in c[c.index("rows") + 1:]]
    cls = kind in ("dyn", "gau", "bin")
    step = 5 if (fast and not cls) else 1
    vis = [p for p in pos if p % step == 0 and p + step <= n]
    nvis = n // step
    bad = []
    if fit != fit or fit > 0:
        bad.append((f"{name}_evaluator on {n} examples returned {fit!r}", dict(tags, kind="nan" if fit != fit else "positive")))
        return bad
    if cls:
        want = -float(len(vis))
        tol = 1e-6 if kind == "gau" else 0.0
    else:
        if kind == "rmae":
            errs = [200.0 * 1.0 / (abs(float(p % 7) - 3.0) + abs(float(p % 7) - 3.0 + 1.0)) for p in vis]
        else:
            errs = [1.0 for _ in vis]
        want = -math.fsum(errs) / nvis
        tol = 1e-9 * abs(want)
    if abs(fit - want) > tol:
        bad.append((f"{name}_evaluator{'.fast' if fast else ''} on {n} examples of which {len(vis)} are wrong returned {fit!r}; "
                    f"documented {want!r}", dict(tags, kind="scale-fitness")))
    if moved != len(vis) or rows[:20] != vis[:20]:
        bad.append((f"{name}_evaluator{'.fast' if fast else ''} on {n} examples: the difficulty counter moved on {moved} rows "
                    f"{rows[:8]}, the wrong examples are {vis[:8]}", dict(tags, kind="scale-difficulty")))
    return bad


def parse_wrap(line):
    t = line.split()
    kind, xslot, ncl, d0, g = t[1], int(t[2]), int(t[3]), int(t[4]), int(t[5])
    cls = kind in ("dyn", "gau", "bin")
    gs = []
    for j in range(g):
        c, x, k = t[6 + 3 * j:9 + 3 * j]
        gs.append((int(c) if cls else untok(c), untok(x), int(k)))
    return kind, xslot, ncl, d0, [q for q in gs], cls


def wrap_need(kind, gs):
    """the largest count one counter of the case has to hold (gaussian: the examples of one class)"""
    if kind == "gau":
        tot = {}
        for c, _, k in gs:
            tot[c] = tot.get(c, 0) + k
        return max(tot.values())
    return max(k for _, _, k in gs)


def wrap_oracle(line, cpp, stats=None):
    """counter-width-directed cases: the documented rule on the multiset of examples (exact integer counts)"""
    kind, xslot, ncl, d0, gs, cls = parse_wrap(line)
    c = cpp.split()
    name = {"dyn": "dyn_slot", "gau": "gaussian", "bin": "binary"}.get(kind, kind)
    n = sum(k for _, _, k in gs)
    tags = {"evaluator": name, "scale": n}
    big = wrap_need(kind, gs)
    try:
        fit = untok(c[2])
        ii, oi = c.index("inc"), c.index("odd")
        inc = [int(x) for x in c[ii + 1:oi]]
        odd = int(c[oi + 1])
        ok = c[:2] == ["ok", "fit"] and int(c[c.index("n") + 1]) == n and len(inc) == len(gs)
    except (ValueError, IndexError):
        ok = False
    if not ok:
        return [(f"{name}_evaluator on a multiset of {n} examples: answer {cpp[:100]}", dict(tags, kind="shape"))]
    live = [(q, i) for i, q in enumerate(gs) if q[2] > 0]
    if cls:
        doc = D.documented(kind, [[q[1] for q, _ in live]], [q[0] for q, _ in live], ncl, xslot,
                           weights=[q[2] for q, _ in live])
        if stats is not None:
            stats["ambiguous"] = doc["ambiguous"]
        if doc["ambiguous"]:
            return []
        want, tol = doc["fitness"], doc["tol"]
        wrong = {i: w for (q, i), w in zip(live, doc["wrong"])}
        shape = ", ".join(f"{q[2]} of class {q[0]} at {q[1]!r}" for q, _ in live)
    else:
        errs = {i: doc_err(kind, q[1], q[0]) for q, i in live}
        ex = {i: exact_err(kind, q[1], q[0]) for q, i in live}
        if any(e is None for e in ex.values()):
            return []
        want = -float(sum(ex[i] * q[2] for q, i in live) / n)
        tol = 1e-9 * float(max(ex.values())) + 1e-300
        wrong = {i: not (errs[i] == errs[i] and abs(errs[i]) < EPS2) for _, i in live}
        shape = ", ".join(f"{q[2]} with output {q[1]!r} and target {q[0]!r}" for q, _ in live)
    bad = []
    if fit != fit or fit > 0:
        bad.append((f"{name}_evaluator on {n} examples ({shape}) returned {fit!r}",
                    dict(tags, kind="nan" if fit != fit else "positive")))
    elif abs(fit - want) > tol:
        bad.append((f"{name}_evaluator on {n} examples ({shape}; a counter must hold {big}) returned {fit!r}; the "
                    f"documented rule gives {want!r}", dict(tags, kind="width-fitness")))
    winc = [(gs[i][2] if wrong.get(i) else 0) for i in range(len(gs))]
    if inc != winc or odd:
        bad.append((f"{name}_evaluator on {n} examples ({shape}): the difficulty counter (start {d0}) became {d0 + 1} on "
                    f"{inc} examples per group and something else on {odd}; the documented rule misjudges {winc} per group",
                    dict(tags, kind="width-difficulty")))
    return bad


def shrink(exe, line, still_fails):
    """drop rows of a reg / con / cls case while the oracle still fails"""
    t = line.split()
    if t[0] not in ("reg", "con", "conp", "cls", "clsf"):
        return line
    at = {"reg": 4, "con": 5, "conp": 6, "cls": 4, "clsf": 4}[t[0]]      # index of <n>
    head, rows = t[:at], t[at + 1:]
    rows = [rows[i:i + 4] for i in range(0, len(rows), 4)]
    fast = t[0] not in ("cls", "clsf") and t[at - 2] == "1"

    def mk(rs):
        return " ".join(head + [str(len(rs))] + [x for r in rs for x in r])

    chunk = max(1, len(rows) // 2)
    rounds = 0
    while chunk >= 1 and rounds < 40:
        rounds += 1
        cands = []
        for s in range(0, len(rows), chunk):
            rs = rows[:s] + rows[s + chunk:]
            if not rs or (fast and len(rs) < 100):
                continue
            if t[0] in ("cls", "clsf") and len({r[0] for r in rs}) < 2:
                continue
            cands.append(rs)
        if not cands:
            chunk //= 2
            continue
        ls = [mk(rs) for rs in cands]
        cpp, _ = C.run_lines(exe, ls)
        hit = None
        for i, l in enumerate(ls):
            if i < len(cpp) and still_fails(l, cpp[i]):
                hit = cands[i]
                break
        if hit is None:
            if chunk == 1:
                break
            chunk //= 2
        else:
            rows = hit
            chunk = min(chunk, max(1, len(rows) // 2))
    return mk(rows)


MIN_CAP = {"uns": 32, "sgn": 31, "flt": 53}        # = Vita.C05.Counters.minCap (the Lean side decides; this names the row)


def regen_counters(chk):
    """GenCounters.lean from the clang AST (cached by the hash of the repo tree + tool + TU); -> (rows, narrow rows)"""
    import hashlib
    gen = os.path.join(C.LEAN, "Vita", "C05", "GenCounters.lean")
    tool = os.path.join(C.ROOT, "tools", "translate_counters.py")
    tu = os.path.join(C.ROOT, "tools", "tu", "counters_tu.cc")
    key = C.repo_tree_hash(open(tool).read() + open(tu).read())
    stamp = os.path.join(C.BUILD, "c05_counters.stamp")
    cur = hashlib.sha256(open(gen, "rb").read()).hexdigest() if os.path.exists(gen) else ""
    rows = None
    if os.path.exists(stamp):
        try:
            st = json.load(open(stamp))
            if st.get("key") == key and st.get("gen") == cur:
                rows = [tuple(r[:3]) + (tuple(r[3]),) for r in st["rows"]]
        except (ValueError, KeyError):
            rows = None
    if rows is None:
        rows, changed = translate_counters.emit(gen)
        cur = hashlib.sha256(open(gen, "rb").read()).hexdigest()
        os.makedirs(C.BUILD, exist_ok=True)
        with open(stamp, "w") as f:
            json.dump({"key": key, "gen": cur, "rows": rows}, f)
    chk.cov["counter_table_rows"] = len(rows)
    chk.cov["counter_table_updates"] = sum(1 for r in rows if r[2] == "update")
    ints = [r[3][2] for r in rows if r[3][1] != "flt"]
    flts = [r[3][2] for r in rows if r[3][1] == "flt"]
    chk.cov["narrowest_integer_counter_bits"] = min(ints) if ints else None
    chk.cov["narrowest_floating_accumulator_bits"] = min(flts) if flts else None
    narrow = [r for r in rows if r[3][2] < MIN_CAP[r[3][1]]]
    return rows, narrow


def run(chk, replay=None):
    rng = C.SplitMix(chk.seed)
    broken = []
    # the error functors and issmall as the code has them now -> Vita/C05/Gen.lean
    gen = os.path.join(C.LEAN, "Vita", "C05", "Gen.lean")
    try:
        names, changed = translate_errf.emit(gen)
        chk.cov["translated_functors"] = names
        chk.cov["gen_changed_vs_committed"] = bool(changed)
    except Refuse as e:
        # Gen.lean keeps its last (committed) content: the driver still runs, the differential below
        # compares the code with the old text
        broken.append("translator tools/translate_errf.py refuses the current evaluator.tcc / utility.h: %s" % e)
    # the declared type of every counter / accumulator of the evaluators -> Vita/C05/GenCounters.lean
    try:
        _, narrow = regen_counters(chk)
        for o, nm, role, (ct, kind, cap) in narrow[:3]:
            broken.append(f"counter `{nm}` ({role} of {o}) is declared `{ct}`: it counts exactly up to 2^{cap} only, the "
                          f"model assumes at least 2^{MIN_CAP[kind]} (obligation generated_counters_wide_enough)")
    except Refuse as e:
        broken.append("translator tools/translate_counters.py refuses the current evaluators / classifiers: %s" % e)
    ok, out = C.lake_build(["c05_driver"])
    drv_ok = ok
    if not ok:
        broken.append("the model / driver no longer builds: " + C.lean_errors(out))
    ok, msg = chk.prove("Vita.C05.Props", ["Vita.C05.Props"])
    if not ok:
        broken.append("theorems of Vita.C05.Props no longer check: " + msg)

    exe = C.build_harness("c05_eval", "asan")

    lines = []
    if replay:
        r = json.load(open(replay))
        lines.append(r["replay"]["line"])
    else:
        for f in sorted(glob.glob(os.path.join(C.ROOT, "corpus", "C05", "*.lines"))):
            for ln in open(f):
                ln = ln.strip()
                if ln and not ln.startswith("#"):
                    lines.append(ln)
        chk.cov["corpus_cases"] = len(lines)
        lines += gen_cases(chk, rng)

    if not replay:
        lines += big_cases(chk, rng, searching=bool(broken))
        lines += wrap_cases(chk, rng, searching=bool(broken))
    cpp, deaths = C.run_lines(exe, lines)
    for idx, rc, se in deaths:
        chk.violation("harness died (rc=%d) on: %s\n%s" % (rc, lines[idx][:300], se[-1500:]),
                      {"line": lines[idx]}, tags={"evaluator": lines[idx].split()[1], "kind": "crash"})

    # units: one per plain case, one per evaluation of a history
    units = []
    for i, line in enumerate(lines):
        if i >= len(cpp):
            break
        if line.startswith("hist ") and cpp[i].startswith("ok"):
            chk.count("case:hist:" + line.split()[2])
            chk.seen(line)
            for pl, pa, j in expand_hist(line, cpp[i]):
                if pl is None:
                    chk.count("hist_eval:" + pa.split()[0])
                    if not pa.startswith("skip"):
                        broken.append(f"harness answered `{pa[:200]}` inside `{line[:200]}`")
                    continue
                chk.count("hist_eval:judged")
                if j > 0:
                    chk.count("hist_eval:after_a_change_of_the_dataframe")
                units.append((i, pl, pa, j))
        else:
            units.append((i, line, cpp[i], None))
    lean = run_model([lean_request(pl, pa) if not (pa.startswith("died") or pa == "skipped") else None
                      for _, pl, pa, _ in units], drv_ok)

    ndis = 0
    ngen = 0
    reported = set()
    for u, (i, line, c, hj) in enumerate(units):
        t = line.split()
        if c.startswith("died") or c == "skipped":
            continue
        if hj is None:
            key = t[0] + ":" + (t[1] if t[0] in ("reg", "cls", "clsf", "tev", "big", "wrap") else t[2] if t[0] == "con" else
                                t[3] if t[0] == "conp" else t[4] if t[0] == "gac" else "")
            chk.count("case:" + key)
            chk.seen(line, nontrivial=t[0] not in ("small",))
        if not c.startswith("ok") and t[0] != "small":
            chk.count("harness:" + c.split()[0])
            broken.append(f"harness answered `{c[:200]}` to `{lines[i][:200]}`")
            continue
        # ---- distribution (measured) ----
        ostats = {}
        if t[0] in ("reg", "con", "conp"):
            at = {"reg": 1, "con": 2, "conp": 3}[t[0]]
            n = int(t[at + 3])
            cs = c.split()
            outs = cs[cs.index("outs") + 1:cs.index("outs") + 1 + n]
            chk.count("rows:" + ("1" if n == 1 else "2-9" if n < 10 else "10-99" if n < 100 else "100-200"))
            chk.count("examples", n)
            chk.count("undefined_outputs", sum(1 for o in outs if o == "u"))
            if t[at + 1] == "1":
                chk.count("fast")
            if t[at + 2].startswith("t:"):
                chk.count("team_programs")
            if t[0] == "conp":
                chk.count("penalty_type:" + t[1])
            fitv = untok(cs[2]) if cs[1] == "fit" else None
            if fitv is not None and fitv == 0:
                chk.count("zero_fitness")
            rows = t[at + 4:]
            kind = t[at]
            es = [doc_err(kind, untok(outs[j]), untok(rows[4 * j])) for j in range(n)]
            if any(not math.isfinite(e) for e in es):
                chk.count("overflowing_error_cases")
        elif t[0] in ("cls", "clsf"):
            n = int(t[4])
            chk.count("examples", n)
            cs2 = c.split()
            chk.count("classes:" + cs2[cs2.index("classes") + 1])
            if t[3].startswith("t:"):
                chk.count("team_programs")
            if t[0] == "clsf":
                chk.count("fast")
        elif t[0] == "gac":
            chk.count("penalty_type:" + t[1])
            if not math.isfinite(untok(t[5])):
                chk.count("gac_nonfinite_objective")
        elif t[0] in ("ga", "gaf", "de", "def"):
            if not math.isfinite(untok(t[1])):
                chk.count("nonfinite_objective:" + t[0])
        # ---- the property's own oracle ----
        verdicts = big_oracle(line, c) if t[0] == "big" else wrap_oracle(line, c, ostats) if t[0] == "wrap" else \
            oracle(line, c, ostats)
        if t[0] == "big":
            chk.count("scale:%s" % t[4])
        if t[0] == "wrap":
            wk = wrap_need(t[1], parse_wrap(line)[4])
            chk.count("counter_must_hold:2^%d+" % (wk.bit_length() - 1))
            chk.count("wrap_start_difficulty:" + ("0" if t[4] == "0" else ">=2^%d-1" % ((int(t[4]) + 1).bit_length() - 1)))
            if ostats.get("ambiguous"):
                chk.count("wrap:ambiguous_not_judged")
        if t[0] in ("cls", "clsf") and "doc" in ostats:
            # what the classification cases exercised (measured on the outputs of the real programs)
            doc, gs, mouts = ostats["doc"], ostats["gauss"], ostats["mouts"]
            k = "cls_" + t[1] + ":"
            chk.count(k + ("ambiguous_not_judged_by_documented_rule" if doc["ambiguous"] else "judged_by_documented_rule"))
            und = sum(1 for m in mouts for o in m if o is None)
            if und:
                chk.count(k + "cases_with_undefined_outputs")
                chk.count(k + "undefined_outputs", und)
            if any(o is not None and abs(o) > 1e7 for m in mouts for o in m):
                chk.count(k + "cases_with_outputs_beyond_1e7")
            if any(o is not None and abs(o) >= 1e300 for m in mouts for o in m):
                chk.count(k + "cases_with_astronomical_outputs")
            if all(o is None for m in mouts for o in m):
                chk.count(k + "cases_all_outputs_undefined")
            if gs is not None:
                for nm, v in (("class_all_undefined", gs.class_all_undefined), ("class_zero_variance", gs.class_zero_variance),
                              ("class_single_example", gs.class_single), ("identical_class_distributions", gs.identical),
                              ("examples_all_probabilities_zero", gs.underflow)):
                    if v:
                        chk.count(k + "cases_with_" + nm)
                for r in set(gs.ambiguous):
                    chk.count(k + "ambiguous:" + r)
            if doc["fitness"] is not None and doc["fitness"] == 0 and not doc["ambiguous"]:
                chk.count(k + "zero_fitness")
        for what, tags in verdicts:
            sig = (tags.get("evaluator"), tags.get("kind"))
            chk.count("oracle_fail:%s/%s" % sig)
            if sig in reported:
                continue
            reported.add(sig)
            small = line
            if hj is not None:
                # an evaluation inside a history: the replay is the whole history
                small, ans = lines[i], cpp[i]
                what = (f"evaluation #{hj + 1} of a history in which the dataframe changes under one evaluator object "
                        f"(the evaluator must score the data it holds at call time): " + what)
                tags = dict(tags, history=True)
            elif not replay and t[0] not in ("big", "wrap"):
                small = shrink(exe, line, lambda l, a, s=sig: any((tg.get("evaluator"), tg.get("kind")) == s
                                                                 for _, tg in oracle(l, a)))
                a2, _ = C.run_lines(exe, [small])
                w2 = [w for w, tg in oracle(small, a2[0]) if (tg.get("evaluator"), tg.get("kind")) == sig]
                what = w2[0] if w2 else what
                ans = a2[0] if w2 else c
            else:
                ans = c
            chk.violation(what, {"line": small, "harness_answer": ans[:2000],
                                 "how": "echo '<line>' | build/asan/c05_eval   (or check.py C05 --replay <this file>)"},
                          tags=tags)
        # ---- model vs code ----
        if lean is not None and lean[u] is not None:
            want = cpp_canon(line, c)
            mod, sep, genans = lean[u].partition(" ;; ")
            mod = mod.strip()
            # lines that do not involve the functors carry no generated part
            genans = want.strip() if not sep else (mod if genans.strip() == "=" else genans.strip())
            if mod != want.strip():
                ndis += 1
                if ndis <= 3:
                    broken.append(f"model and compiled evaluator disagree on `{(lines[i] if hj is not None else line)[:400]}`"
                                  f"{' (evaluation #%d of the history)' % (hj + 1) if hj is not None else ''}: "
                                  f"model `{mod[:300]}`, code `{want[:300]}`")
            if genans != want.strip():
                ngen += 1
                if ngen <= 2:
                    broken.append(f"the terms generated from the clang AST (Vita/C05/Gen.lean) and the compiled functors "
                                  f"disagree on `{line[:400]}`: generated `{genans[:300]}`, code `{want[:300]}`")
        if u % 397 == 0:
            chk.sample({"case": line[:160], "code": cpp_canon(line, c)[:120],
                        "model ;; generated": (lean[u][:120] if lean and lean[u] else None)})
    chk.cov["model_vs_code_disagreements"] = ndis
    chk.cov["generated_terms_vs_code_disagreements"] = ngen
    chk.cov["cases"] = len(lines)

    concrete = [v for v in chk.violations if not v[2]]
    if broken and not concrete and not chk.known_hit and not replay and chk.tier == "quick":
        # SEARCH PHASE: something no longer checks and nothing concrete was found – the directed large datasets
        extra = wrap_cases(chk, rng, searching=True) + big_cases(chk, rng, searching=True)
        ans, _ = C.run_lines(exe, extra)
        chk.cov["search_phase_cases"] = len(extra)
        for l, a in zip(extra, ans):
            if not a.startswith("ok"):
                continue
            for what, tags in (wrap_oracle(l, a) if l.startswith("wrap ") else big_oracle(l, a)):
                sig = (tags.get("evaluator"), tags.get("kind"))
                if sig in reported:
                    continue
                reported.add(sig)
                chk.violation(what, {"line": l, "harness_answer": a[:2000],
                                     "how": "echo '<line>' | build/asan/c05_eval   (or check.py C05 --replay <this file>)"},
                              tags=tags)
        concrete = [v for v in chk.violations if not v[2]]
    if broken and not concrete and not chk.known_hit:
        for b in broken[:3]:
            chk.violation(b, {"broken": b, "searched": f"{len(lines)} evaluator runs judged by the property's own oracle "
                              "(NaN/positive fitness, difficulty rows, zero-iff-match, mean of documented errors): "
                              "no failing input"}, no_input=True)
    elif broken:
        chk.notes += broken[:5]
    return chk.finish(
        level="proof",
        checker_cmd="lake build Vita.C05.Props c05_driver && lake env lean <#print axioms for every theorem>",
        rule="one evaluation = one (evaluator, program, dataset) triple run through the compiled evaluator, the "
             "Lean model (hardware doubles) and the Python oracle; distinct = distinct input lines (issmall probes "
             "excluded); fitness compared as 64-bit patterns, difficulty vectors element-wise",
        trusted=["Lean 4.33 kernel", "IEEELaws (Vita/C05/Laws.lean) for the NaN clause: hypotheses about binary64, "
                 "not proved for hardware doubles", "harness/c05_eval.cc + this script (canonicalisation, oracle)",
                 "g++ 12 / glibc libm shared by harness and Lean runtime", "the program's per-example output is "
                 "taken from vita's interpreter (C01's subject), not modelled here"])
