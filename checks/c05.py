"""C05 — evaluators compute the documented standardized fitness.

Lean: Vita/C05/{Model,Lemmas,Laws,Props}.lean (theorems over exact `Rat` and over any number
type obeying `IEEELaws`).  Tie: differential, bit-exact – the compiled evaluators of /repo's
working tree (harness/c05_eval.cc) and the Lean model run with hardware doubles
(c05_driver) on the same datasets x programs x evaluators; fitness bits and the difficulty
vector are compared.  Independent of the model, every case is also judged by the property's own
oracle (NaN / positive fitness, difficulty moved on the wrong rows, zero fitness without a match,
fitness far from minus the documented mean).
"""
import glob
import json
import math
import os
import struct
from fractions import Fraction

from vlib import common as C

EPS2 = 2.0 * 2.0 ** -52            # issmall threshold
DMIN = 2.0 ** -1022
DMAX = 1.7976931348623157e308
PEN = DMAX / 100.0
KINDS = ["mae", "rmae", "mse", "count"]
PROGS1 = ["x1", "x1", "x1", "x2", "div", "ln", "add", "sub", "mul", "abs", "neg", "mulbig", "big", "tiny"]


def f2b(x):
    return struct.unpack("<Q", struct.pack("<d", x))[0]


def b2f(n):
    return struct.unpack("<d", struct.pack("<Q", n))[0]


def tok(x):
    """token of a double (None = no value)"""
    if x is None:
        return "u"
    if x != x:
        return "nan"
    return str(f2b(x))


def untok(s):
    if s == "u":
        return None
    if s == "nan":
        return float("nan")
    return b2f(int(s))


# ---------------------------------------------------------------------------
# python emulation of the hand-built programs (steers the generator only)
# ---------------------------------------------------------------------------

def fin(v):
    return v if (v is not None and math.isfinite(v)) else None


def emulate(prog, x1, x2):
    try:
        if prog.startswith("t:"):
            vals = [emulate(p, x1, x2) for p in prog[2:].split(",")]
            avg, cnt = 0.0, 0.0
            for v in vals:
                if v is not None:
                    cnt += 1.0
                    avg += (v - avg) / cnt
            return avg if cnt > 0 else None
        if prog == "x1":
            return x1
        if prog == "x2":
            return x2
        if prog == "big":
            return 1e308
        if prog == "tiny":
            return 1e-300
        if prog in ("ln", "abs", "neg", "mulbig"):
            if x1 is None:
                return None
            if prog == "ln":
                return fin(math.log(x1)) if x1 > 0 else None
            if prog == "abs":
                return abs(x1)
            if prog == "neg":
                return fin(0.0 - x1)
            return fin(x1 * 1e308)
        if x1 is None or x2 is None:
            return None
        if prog == "div":
            return fin(x1 / x2) if x2 != 0 else None
        if prog == "add":
            return fin(x1 + x2)
        if prog == "sub":
            return fin(x1 - x2)
        if prog == "mul":
            return fin(x1 * x2)
    except (OverflowError, ValueError, ZeroDivisionError):
        return None
    return None


# ---------------------------------------------------------------------------
# the property's own oracle (documented per-example errors, plain Python doubles)
# ---------------------------------------------------------------------------

def doc_err(kind, a, t):
    """documented error of one example as the code documents it (doubles); inf when the value is
    not representable (|a-t| or (a-t)^2 beyond DBL_MAX)"""
    if kind == "count":
        return 1.0 if (a is None or not abs(a - t) < EPS2) else 0.0
    if a is None:
        return 200.0 if kind == "rmae" else PEN
    if kind == "mae":
        return abs(a - t)
    if kind == "mse":
        d = a - t
        try:
            return d * d
        except OverflowError:
            return float("inf")
    delta = abs(t - a)
    if delta != delta or not math.isfinite(a):
        return 200.0
    if delta <= 10.0 * DMIN:
        return 0.0
    if math.isinf(delta):
        return 200.0            # opposite signs: |t-a| = |t|+|a|, the relative difference is 200
    # exact rational value of 200*delta/(|a|+|t|): no intermediate overflow
    return float(Fraction(200) * Fraction(delta) / (Fraction(abs(a)) + Fraction(abs(t))))


def exact_err(kind, a, t):
    """the documented error in exact arithmetic (Fraction), None when it exceeds DBL_MAX"""
    if kind == "count" or a is None:
        return Fraction(doc_err(kind, a, t))
    if not math.isfinite(a):     # a team's running mean may overflow (C08's subject)
        return None
    fa, ft = Fraction(a), Fraction(t)
    if kind == "mae":
        e = abs(fa - ft)
    elif kind == "mse":
        e = (fa - ft) ** 2
    else:
        # the window test is documented on the computed (double) difference
        e = Fraction(0) if abs(t - a) <= 10.0 * DMIN else 200 * abs(ft - fa) / (abs(fa) + abs(ft))
    return e if e <= Fraction(DMAX) else None


def matched(kind, a, t):
    """the program reproduces the target within the documented tolerance (floating window)"""
    if a is None:
        return False
    d = abs(a - t)
    if kind == "count":
        return d < EPS2
    if kind == "mse":
        return d <= 1e-150          # (a-t)^2 underflows to 0 below ~1.5e-162; generous window
    return d <= 10.0 * DMIN


def visited_rows(n, step):
    return [j * step for j in range(n // step)]


# ---------------------------------------------------------------------------
# generators
# ---------------------------------------------------------------------------

class Gen:
    def __init__(self, rng):
        self.r = rng

    def dbl(self, flavour=None):
        r = self.r
        k = flavour if flavour is not None else r.below(10)
        if k <= 2:
            return float(r.between(-20, 21))
        if k == 3:
            return (r.between(-2000000, 2000001)) / 1024.0
        if k == 4:   # any finite magnitude: random bit pattern
            while True:
                v = b2f(r.next())
                if math.isfinite(v):
                    return v
        if k == 5:   # huge
            return r.choice([1.0, -1.0]) * r.choice([1e200, 1e300, 8e307, 1e308, 1.7e308, DMAX, 1e154, 1.4e154, 9e153])
        if k == 6:   # tiny / denormal / zeros
            return r.choice([0.0, -0.0, 5e-324, -5e-324, 1e-320, DMIN, 10 * DMIN, 11 * DMIN, 1e-300, 1e-162, 1e-150, -1e-155])
        if k == 7:
            return r.choice([1.0, -1.0]) * math.ldexp(1.0 + r.below(1 << 20) / float(1 << 20), r.between(-60, 61))
        if k == 8:
            return r.choice([EPS2, EPS2 / 2, EPS2 * 2, 1.0 + EPS2, 1.0 + 2.0 ** -52, 1.0 - 2.0 ** -53, 2.0 ** -26, 2.2e-8, 2.0e-8])
        return float(r.between(-3, 4)) * 0.5

    def near(self, v):
        """a target close to / equal to the program's output"""
        r = self.r
        k = r.below(8)
        if k <= 3 or not math.isfinite(v):
            return v
        if k == 4:
            return math.nextafter(v, math.inf)
        if k == 5:
            return math.nextafter(v, -math.inf)
        if k == 6:
            return v + r.choice([EPS2 / 2, EPS2, -EPS2 * 0.75, 2.2e-8, 1e-8, 5e-324, 10 * DMIN, 12 * DMIN, 1e-160])
        return v * (1.0 + r.choice([2.0 ** -52, -2.0 ** -52, 2.0 ** -30, 1e-9]))

    def prog(self):
        r = self.r
        if r.chance(0.12):
            m = r.between(1, 5)
            return "t:" + ",".join(r.choice(PROGS1) for _ in range(m))
        return r.choice(PROGS1)

    def rows(self, prog, n, allmatch):
        r = self.r
        style = r.below(6)          # dominant flavour of this dataset
        pu = r.choice([0.0, 0.0, 0.05, 0.3, 1.0]) if not allmatch else 0.0
        rows = []
        for _ in range(n):
            fl = None if style >= 4 else r.choice([style, None, None])
            x1 = None if r.chance(pu) else self.dbl(fl)
            x2 = None if r.chance(pu / 2) else self.dbl(fl)
            out = emulate(prog, x1, x2)
            if allmatch:
                tries = 0
                while out is None and tries < 20:
                    x1, x2 = float(r.between(1, 50)), float(r.between(1, 50))
                    out = emulate(prog, x1, x2)
                    tries += 1
                t = out if out is not None else 0.0
            elif out is not None and r.chance(0.4):
                t = self.near(out)
            else:
                t = self.dbl(fl)
            if not math.isfinite(t):
                t = 1.0
            d = r.choice([0, 0, 0, 1, 7, r.below(1000), (1 << 40) + r.below(99)])
            rows.append((t, x1, x2, d))
        return rows

    def nrows(self, big):
        r = self.r
        k = r.below(10)
        if k == 0:
            return 1
        if k == 1:
            return r.between(2, 5)
        if k <= 6:
            return r.between(5, 40)
        return r.between(40, 201 if big else 120)


def reg_line(kind, fast, prog, rows, pen=None):
    head = (f"con {tok(pen)} " if pen is not None else "reg ") + f"{kind} {1 if fast else 0} {prog} {len(rows)}"
    return head + "".join(f" {tok(t)} {tok(x1)} {tok(x2)} {d}" for t, x1, x2, d in rows)


def cls_line(kind, xslot, prog, rows):
    return f"cls {kind} {xslot} {prog} {len(rows)}" + "".join(
        f" {c} {tok(x1)} {tok(x2)} {d}" for c, x1, x2, d in rows)


def gen_cases(chk, rng):
    g = Gen(rng)
    quick = chk.tier == "quick"
    lines = []
    nreg = 12000 if quick else 90000
    for i in range(nreg):
        kind = KINDS[i % 4]
        prog = g.prog()
        fast = rng.chance(0.12)
        n = rng.between(100, 201) if fast else g.nrows(not quick or rng.chance(0.3))
        allmatch = rng.chance(0.12)
        rows = g.rows(prog, n, allmatch)
        pen = None
        if rng.chance(0.08):
            pen = rng.choice([0.0, 1.0, 2.5, 1e300, g.dbl()])
        lines.append(reg_line(kind, fast, prog, rows, pen))
        if rng.chance(0.15) and n > 1:     # the same examples in another order
            perm = list(rows)
            for j in range(len(perm) - 1, 0, -1):
                k2 = rng.below(j + 1)
                perm[j], perm[k2] = perm[k2], perm[j]
            lines.append(reg_line(kind, fast, prog, perm, pen))
    ncls = 6000 if quick else 45000
    for i in range(ncls):
        kind = ["dyn", "gau", "bin"][i % 3]
        prog = g.prog()
        n = g.nrows(not quick or rng.chance(0.3))
        ncl = 2 if kind == "bin" else rng.choice([2, 2, 3, 4, 7])
        n = max(n, ncl)
        style = rng.below(6)
        pu = rng.choice([0.0, 0.0, 0.05, 0.3, 1.0])
        rows = []
        for j in range(n):
            c = j if j < ncl else (rng.below(ncl) if rng.chance(0.8) else 0)
            fl = None if style >= 4 else rng.choice([style, None])
            x1 = None if rng.chance(pu) else g.dbl(fl)
            x2 = None if rng.chance(pu / 2) else g.dbl(fl)
            rows.append((c, x1, x2, rng.choice([0, 0, 3, rng.below(500)])))
        # shuffle so that class ids are not simply in order of the first rows
        for j in range(len(rows) - 1, 0, -1):
            k2 = rng.below(j + 1)
            rows[j], rows[k2] = rows[k2], rows[j]
        lines.append(cls_line(kind, rng.choice([1, 2, 10, 10, 17]), prog, rows))
    for v in [0.0, -0.0, 1.0, -2.5, DMAX, -DMAX, 5e-324, float("inf"), float("-inf"), float("nan")]:
        lines.append("ga " + tok(v))
    for _ in range(60 if quick else 600):
        lines.append("ga " + tok(g.dbl()))
    for v in [0.0, EPS2, -EPS2, math.nextafter(EPS2, 0), -math.nextafter(EPS2, 0), 1.0, float("inf"), float("nan"), 5e-324]:
        lines.append("small " + tok(v))
    return lines


# ---------------------------------------------------------------------------
# one pass: harness -> model -> compare + oracle
# ---------------------------------------------------------------------------

def lean_request(line, cpp):
    """the model's input for a harness case: the program's outputs come from the harness"""
    t = line.split()
    c = cpp.split()
    if t[0] in ("reg", "con"):
        at = 1 if t[0] == "reg" else 2
        kind, fast, n = t[at], t[at + 1] == "1", int(t[at + 3])
        try:
            o = c.index("outs")
        except ValueError:
            return None
        outs = c[o + 1:o + 1 + n]
        if len(outs) != n:
            return None
        rows = t[at + 4:]
        body = "".join(f" {outs[i]} {rows[4 * i]} {rows[4 * i + 3]}" for i in range(n))
        step = 5 if fast else 1
        if t[0] == "reg":
            return f"soe {kind} {step} {n}" + body
        return f"csoe {t[1]} {kind} {step} {n}" + body
    if t[0] == "cls":
        n = int(t[4])
        try:
            ti, li = c.index("tags"), c.index("labels")
            ncl = int(c[c.index("classes") + 1])
        except ValueError:
            return None
        tags, labels = c[ti + 1:ti + 1 + 2 * n], c[li + 1:li + 1 + n]
        rows = t[5:]
        if t[1] == "gau":
            return f"gau {ncl} {n}" + "".join(
                f" {tags[2 * i]} {tags[2 * i + 1]} {labels[i]} {rows[4 * i + 3]}" for i in range(n))
        return f"cnt {n}" + "".join(f" {tags[2 * i]} {labels[i]} {rows[4 * i + 3]}" for i in range(n))
    return line   # ga / small: same request


def cpp_canon(line, cpp):
    """the part of the harness answer the model has to reproduce"""
    c = cpp.split()
    if not c or c[0] != "ok":
        return cpp
    t = line.split()
    if t[0] == "ga":
        return " ".join(c[1:])
    keep = []
    i = 1
    while i < len(c) and c[i] not in ("outs", "classes", "tags", "labels", "diff"):
        keep.append(c[i])
        i += 1
    if "diff" in c:
        keep += c[c.index("diff"):]
    return " ".join(keep)


def oracle(line, cpp):
    """Judge one harness answer against the PROPERTY (no Lean involved).
    Returns a list of (what, tags)."""
    bad = []
    t = line.split()
    c = cpp.split()
    if not c or c[0] != "ok":
        if t[0] == "small":
            v = untok(t[1])
            want = "1" if (v == v and abs(v) < EPS2) else "0"
            if cpp.strip() != want:
                bad.append((f"issmall({v!r}) returned {cpp}, documented {want}", {"evaluator": "issmall"}))
        return bad
    if t[0] == "ga":
        v = untok(t[1])
        k = int(c[2])
        vals = c[3:3 + k]
        if math.isfinite(v):
            if k != 1 or vals[0] != tok(v):
                bad.append((f"ga_evaluator returned {c[1:]} for the finite objective value {v!r}",
                            {"evaluator": "ga", "kind": "value"}))
        elif k != 0:
            bad.append((f"ga_evaluator returned {c[1:]} for the non-finite objective value {v!r} (documented: empty fitness)",
                        {"evaluator": "ga", "kind": "nonfinite"}))
        return bad
    if t[0] in ("reg", "con"):
        at = 1 if t[0] == "reg" else 2
        kind, fast, n = t[at], t[at + 1] == "1", int(t[at + 3])
        step = 5 if fast else 1
        rows = t[at + 4:]
        o, dpos = c.index("outs"), c.index("diff")
        outs = [untok(x) for x in c[o + 1:o + 1 + n]]
        after = [int(x) for x in c[dpos + 1:dpos + 1 + n]]
        if t[0] == "reg":
            if c[1] != "fit" or len(c) < 3:
                return [("fitness has %s components" % c[2:3], {"evaluator": kind, "kind": "shape"})]
            fit = untok(c[2])
        else:
            if c[1] != "fitv" or c[2] != "2":
                return [("constrained fitness is %s" % " ".join(c[1:o]), {"evaluator": "constrained", "kind": "shape"})]
            pen = untok(t[1])
            first = untok(c[3])
            if tok(first) != tok(-pen):
                bad.append((f"constrained_evaluator: first component {first!r} is not minus the penalty {pen!r}",
                            {"evaluator": "constrained", "kind": "prepend"}))
            fit = untok(c[4])
        tg = [untok(rows[4 * i]) for i in range(n)]
        before = [int(rows[4 * i + 3]) for i in range(n)]
        tags = {"evaluator": kind, "fast": fast}
        if fit != fit:
            bad.append((f"{kind}_evaluator returned a NaN fitness", dict(tags, kind="nan")))
        elif fit > 0:
            bad.append((f"{kind}_evaluator returned a positive fitness {fit!r}", dict(tags, kind="positive")))
        vis = visited_rows(n, step)
        errs = [doc_err(kind, outs[i], tg[i]) for i in vis]
        visset = set(vis)
        wrongrows = []
        for i in range(n):
            inc = 0
            if i in visset:
                e = doc_err(kind, outs[i], tg[i])
                inc = 0 if (e == e and abs(e) < EPS2) else 1
            if after[i] != before[i] + inc:
                wrongrows.append(i)
        if wrongrows:
            i = wrongrows[0]
            bad.append((f"{kind}_evaluator: difficulty of example {i} went {before[i]} -> {after[i]} "
                        f"(output {outs[i]!r}, target {tg[i]!r}, visited={i in visset}); {len(wrongrows)} rows differ",
                        dict(tags, kind="difficulty")))
        if fit == fit and vis:
            allm = all(matched(kind, outs[i], tg[i]) for i in vis)
            exact = all(outs[i] is not None and outs[i] == tg[i] for i in vis)
            if fit == 0 and not allm:
                bad.append((f"{kind}_evaluator: fitness is zero although not every target is reproduced",
                            dict(tags, kind="zero")))
            if exact and fit != 0:
                bad.append((f"{kind}_evaluator: every target reproduced exactly but fitness is {fit!r}",
                            dict(tags, kind="zero")))
            ex = [exact_err(kind, outs[i], tg[i]) for i in vis]
            if all(e is not None for e in ex):
                mean = float(sum(ex) / len(ex))
                # the floating running mean of n <= 200 non-negative errors is within ~n^2 ulp of
                # the exact mean (relative to the largest error); 1e-300 absorbs underflow
                if abs(-fit - mean) > 1e-9 * float(max(ex)) + 1e-300:
                    bad.append((f"{kind}_evaluator: fitness {fit!r} is not minus the mean documented error {mean!r}",
                                dict(tags, kind="mean")))
        return bad
    if t[0] == "cls":
        kind, n = t[1], int(t[4])
        rows = t[5:]
        ti, li, dpos = c.index("tags"), c.index("labels"), c.index("diff")
        ncl = int(c[c.index("classes") + 1])
        tg = c[ti + 1:ti + 1 + 2 * n]
        lab = [int(x) for x in c[li + 1:li + 1 + n]]
        after = [int(x) for x in c[dpos + 1:dpos + 1 + n]]
        before = [int(rows[4 * i + 3]) for i in range(n)]
        tl = [int(tg[2 * i]) for i in range(n)]
        sure = [untok(tg[2 * i + 1]) for i in range(n)]
        name = {"dyn": "dyn_slot", "gau": "gaussian", "bin": "binary"}[kind]
        tags = {"evaluator": name}
        if c[1] != "fit":
            return [("fitness shape " + " ".join(c[1:3]), dict(tags, kind="shape"))]
        fit = untok(c[2])
        nwrong = sum(1 for i in range(n) if tl[i] != lab[i])
        if fit != fit:
            bad.append((f"{name}_evaluator returned a NaN fitness", dict(tags, kind="nan")))
        elif fit > 0:
            bad.append((f"{name}_evaluator returned a positive fitness {fit!r}", dict(tags, kind="positive")))
        elif kind != "gau" and fit != -float(nwrong):
            bad.append((f"{name}_evaluator returned {fit!r} with {nwrong} misclassified examples",
                        dict(tags, kind="count")))
        elif kind == "gau":
            want = math.fsum((-1.0 if tl[i] != lab[i] else (sure[i] - 1.0) / (ncl - 1)) for i in range(n))
            if abs(fit - want) > 1e-9 * max(1.0, abs(want)):
                bad.append((f"gaussian_evaluator returned {fit!r}, documented score {want!r}", dict(tags, kind="score")))
        wr = [i for i in range(n) if after[i] != before[i] + (1 if tl[i] != lab[i] else 0)]
        if wr:
            i = wr[0]
            bad.append((f"{name}_evaluator: difficulty of example {i} went {before[i]} -> {after[i]} "
                        f"(tag {tl[i]}, label {lab[i]}); {len(wr)} rows differ", dict(tags, kind="difficulty")))
        return bad
    return bad


def evaluate(exe, lines, drv_ok):
    cpp, deaths = C.run_lines(exe, lines)
    reqs = [lean_request(lines[i], cpp[i]) if i < len(cpp) else None for i in range(len(lines))]
    lean = None
    if drv_ok:
        idx = [i for i, r in enumerate(reqs) if r is not None]
        ans = C.run_driver("c05_driver", [reqs[i] for i in idx])
        lean = [None] * len(lines)
        for k, i in enumerate(idx):
            lean[i] = ans[k] if k < len(ans) else None
    return cpp, deaths, lean


def shrink(exe, line, still_fails):
    """drop rows of a reg / con / cls case while the oracle still fails"""
    t = line.split()
    if t[0] not in ("reg", "con", "cls"):
        return line
    at = {"reg": 4, "con": 5, "cls": 4}[t[0]]      # index of <n>
    head, rows = t[:at], t[at + 1:]
    rows = [rows[i:i + 4] for i in range(0, len(rows), 4)]
    fast = t[0] != "cls" and t[at - 2] == "1"

    def mk(rs):
        return " ".join(head + [str(len(rs))] + [x for r in rs for x in r])

    chunk = max(1, len(rows) // 2)
    rounds = 0
    while chunk >= 1 and rounds < 40:
        rounds += 1
        cands = []
        for s in range(0, len(rows), chunk):
            rs = rows[:s] + rows[s + chunk:]
            if not rs or (fast and len(rs) < 100):
                continue
            if t[0] == "cls" and len({r[0] for r in rs}) < 2:
                continue
            cands.append(rs)
        if not cands:
            chunk //= 2
            continue
        ls = [mk(rs) for rs in cands]
        cpp, _ = C.run_lines(exe, ls)
        hit = None
        for i, l in enumerate(ls):
            if i < len(cpp) and still_fails(l, cpp[i]):
                hit = cands[i]
                break
        if hit is None:
            if chunk == 1:
                break
            chunk //= 2
        else:
            rows = hit
            chunk = min(chunk, max(1, len(rows) // 2))
    return mk(rows)


def run(chk, replay=None):
    rng = C.SplitMix(chk.seed)
    broken = []
    ok, out = C.lake_build(["c05_driver"])
    drv_ok = ok
    if not ok:
        broken.append("the model / driver no longer builds: " + C.lean_errors(out))
    ok, msg = chk.prove("Vita.C05.Props", ["Vita.C05.Props"])
    if not ok:
        broken.append("theorems of Vita.C05.Props no longer check: " + msg)

    exe = C.build_harness("c05_eval", "asan")

    lines = []
    if replay:
        r = json.load(open(replay))
        lines.append(r["replay"]["line"])
    else:
        for f in sorted(glob.glob(os.path.join(C.ROOT, "corpus", "C05", "*.lines"))):
            for ln in open(f):
                ln = ln.strip()
                if ln and not ln.startswith("#"):
                    lines.append(ln)
        chk.cov["corpus_cases"] = len(lines)
        lines += gen_cases(chk, rng)

    cpp, deaths, lean = evaluate(exe, lines, drv_ok)
    for idx, rc, se in deaths:
        chk.violation("harness died (rc=%d) on: %s\n%s" % (rc, lines[idx][:300], se[-1500:]),
                      {"line": lines[idx]}, tags={"evaluator": lines[idx].split()[1], "kind": "crash"})

    ndis = 0
    reported = set()
    for i, line in enumerate(lines):
        if i >= len(cpp):
            break
        t = line.split()
        c = cpp[i]
        if c.startswith("died") or c == "skipped":
            continue
        key = t[0] + ":" + (t[1] if t[0] in ("reg", "cls") else t[2] if t[0] == "con" else "")
        chk.count("case:" + key)
        chk.seen(line, nontrivial=t[0] not in ("small",))
        if not c.startswith("ok") and t[0] != "small":
            chk.count("harness:" + c.split()[0])
            broken.append(f"harness answered `{c[:200]}` to `{line[:200]}`")
            continue
        # ---- distribution (measured) ----
        if t[0] in ("reg", "con"):
            at = 1 if t[0] == "reg" else 2
            n = int(t[at + 3])
            cs = c.split()
            outs = cs[cs.index("outs") + 1:cs.index("outs") + 1 + n]
            chk.count("rows:" + ("1" if n == 1 else "2-9" if n < 10 else "10-99" if n < 100 else "100-200"))
            chk.count("examples", n)
            chk.count("undefined_outputs", sum(1 for o in outs if o == "u"))
            if t[at + 1] == "1":
                chk.count("fast")
            if t[at + 2].startswith("t:"):
                chk.count("team_programs")
            fitv = untok(cs[2]) if cs[1] == "fit" else None
            if fitv is not None and fitv == 0:
                chk.count("zero_fitness")
            rows = t[at + 4:]
            kind = t[at]
            es = [doc_err(kind, untok(outs[j]), untok(rows[4 * j])) for j in range(n)]
            if any(not math.isfinite(e) for e in es):
                chk.count("overflowing_error_cases")
        elif t[0] == "cls":
            n = int(t[4])
            chk.count("examples", n)
            cs = cs2 = c.split()
            chk.count("classes:" + cs2[cs2.index("classes") + 1])
            if t[3].startswith("t:"):
                chk.count("team_programs")
        # ---- the property's own oracle ----
        for what, tags in oracle(line, c):
            sig = (tags.get("evaluator"), tags.get("kind"))
            chk.count("oracle_fail:%s/%s" % sig)
            if sig in reported:
                continue
            reported.add(sig)
            small = line
            if not replay:
                small = shrink(exe, line, lambda l, a, s=sig: any((tg.get("evaluator"), tg.get("kind")) == s
                                                                 for _, tg in oracle(l, a)))
                a2, _ = C.run_lines(exe, [small])
                w2 = [w for w, tg in oracle(small, a2[0]) if (tg.get("evaluator"), tg.get("kind")) == sig]
                what = w2[0] if w2 else what
                ans = a2[0] if w2 else c
            else:
                ans = c
            chk.violation(what, {"line": small, "harness_answer": ans[:2000],
                                 "how": "echo '<line>' | build/asan/c05_eval   (or check.py C05 --replay <this file>)"},
                          tags=tags)
        # ---- model vs code ----
        if lean is not None and lean[i] is not None:
            want = cpp_canon(line, c)
            if lean[i].strip() != want.strip():
                ndis += 1
                if ndis <= 3:
                    broken.append(f"model and compiled evaluator disagree on `{line[:400]}`: "
                                  f"model `{lean[i][:300]}`, code `{want[:300]}`")
        if i % 397 == 0:
            chk.sample({"case": line[:160], "code": cpp_canon(line, c)[:120],
                        "model": (lean[i][:120] if lean and lean[i] else None)})
    chk.cov["model_vs_code_disagreements"] = ndis
    chk.cov["cases"] = len(lines)

    concrete = [v for v in chk.violations if not v[2]]
    if broken and not concrete and not chk.known_hit:
        for b in broken[:3]:
            chk.violation(b, {"broken": b, "searched": f"{len(lines)} evaluator runs judged by the property's own oracle "
                              "(NaN/positive fitness, difficulty rows, zero-iff-match, mean of documented errors): "
                              "no failing input"}, no_input=True)
    elif broken:
        chk.notes += broken[:5]
    return chk.finish(
        level="proof",
        checker_cmd="lake build Vita.C05.Props c05_driver && lake env lean <#print axioms for every theorem>",
        rule="one evaluation = one (evaluator, program, dataset) triple run through the compiled evaluator, the "
             "Lean model (hardware doubles) and the Python oracle; distinct = distinct input lines (issmall probes "
             "excluded); fitness compared as 64-bit patterns, difficulty vectors element-wise",
        trusted=["Lean 4.33 kernel", "IEEELaws (Vita/C05/Laws.lean) for the NaN clause: hypotheses about binary64, "
                 "not proved for hardware doubles", "harness/c05_eval.cc + this script (canonicalisation, oracle)",
                 "g++ 12 / glibc libm shared by harness and Lean runtime", "the program's per-example output is "
                 "taken from vita's interpreter (C01's subject), not modelled here"])
