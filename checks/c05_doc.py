"""C05 — the DOCUMENTED classification rules, written from the documentation (lambda_f.h/.tcc comments,
Zhang & Smart 2005, Loveard's slotted dynamic class boundary determination), independent of the Lean
model: from the outputs of the member programs on the training examples and the labels to the tags, the
fitness and the rows whose difficulty counter must move.

* binary   : class 1 iff the output is > 0 (no value counts as 0.0), confidence |output|.
* dyn_slot : slot = round(last * (atan(x) * 0.31830988618 + 0.5)) (fused multiply-adds), no value -> last slot;
             a slot belongs to the class with most training examples in it (ties: the last such class),
             empty slots take the class of the left neighbour, else of the right one, else class 0;
             confidence = examples of that class in the slot / examples in the slot (0.5 for an empty slot).
             Exact in doubles: compared bit for bit.
* gaussian : per class, mean and (population) variance of the outputs of the examples of the class, each
             output cut to +-1e7 and a missing output counted as 0.0 – computed here with EXACT fractions in
             two passes (the code uses Welford's on-line update); an example is given to the class with the
             largest exp(-(x - mean)^2 / variance) (x NOT cut; variance < 2eps: 1 when |x - mean| < 2eps, else 0),
             confidence = largest / sum (0 when the sum is 0).  Cases in which the decision depends on the
             rounding of the statistics (near ties, variance or distance at the 2eps threshold, statistics too
             ill-conditioned, exp in its underflow range) are marked ambiguous and not judged here (they are still
             compared bit for bit with the Lean model).
* team     : winner takes all – the first member with the strictly largest confidence.
"""
import math
from fractions import Fraction

EPS2 = 2.0 * 2.0 ** -52
U = 2.0 ** -52
CUT = 10000000.0
INV_PI = 0.31830988618


def py_fma(a, b, c):
    """std::fma on finite doubles: one rounding of the exact a*b+c"""
    return float(Fraction(a) * Fraction(b) + Fraction(c))


def sigmoid_01(x):
    return py_fma(math.atan(x), INV_PI, 0.5)


def discretization(x, last):
    r = py_fma(float(last), sigmoid_01(x), 0.0)
    return int(math.floor(Fraction(r) + Fraction(1, 2)))      # std::round of a value >= 0


# ---------------------------------------------------------------------------
# the three documented classifiers (one member)
# ---------------------------------------------------------------------------

def binary_tags(outs):
    res = []
    for o in outs:
        v = 0.0 if o is None else o
        res.append((1 if v > 0.0 else 0, abs(v)))
    return res, False


def dyn_slot_tags(outs, labels, ncl, xslot, weights=None):
    """`weights`: example i stands for weights[i] identical examples (a multiset of examples)"""
    ns = ncl * xslot
    weights = weights if weights is not None else [1] * len(outs)
    last = ns - 1

    def slot(o):
        if o is None:
            return last
        w = discretization(o, last)
        return last if w >= ns else w

    mat = [[0] * ncl for _ in range(ns)]
    slots = [slot(o) for o in outs]
    for s, l, w in zip(slots, labels, weights):
        mat[s][l] += w
    unknown = ncl
    cls = []
    for row in mat:
        best = 0
        for j in range(1, ncl):
            if row[j] >= row[best]:
                best = j
        cls.append(best if row[best] else unknown)
    for i in range(ns):
        if cls[i] == unknown:
            if i and cls[i - 1] != unknown:
                cls[i] = cls[i - 1]
            elif i + 1 < ns and cls[i + 1] != unknown:
                cls[i] = cls[i + 1]
            else:
                cls[i] = 0
    res = []
    for s in slots:
        tot = sum(mat[s])
        res.append((cls[s], 0.5 if tot == 0 else mat[s][cls[s]] / tot))
    return res, False


class GaussStats:
    """what the generator / evidence wants to know about a gaussian case"""

    def __init__(self):
        self.undefined = 0          # examples without a value
        self.class_all_undefined = 0
        self.class_zero_variance = 0
        self.class_single = 0
        self.clamped = 0            # outputs beyond +-1e7
        self.underflow = 0          # examples whose every class probability is 0
        self.identical = 0          # pairs of classes with the same mean and variance
        self.ambiguous = []         # reasons


def gaussian_tags(outs, labels, ncl, st=None, weights=None):
    """-> ([(label, confidence, tolerance)], ambiguous?)
    `weights`: example i stands for weights[i] identical examples (the statistics are those of the multiset)"""
    st = st if st is not None else GaussStats()
    n = len(outs)
    wt = weights if weights is not None else [1] * n
    vals = []
    for o in outs:
        v = 0.0 if o is None else o
        if o is None:
            st.undefined += 1
        if abs(v) > CUT:
            st.clamped += 1
        vals.append(min(max(v, -CUT), CUT))
    stats = []
    amb = False
    for c in range(ncl):
        idx = [i for i in range(n) if labels[i] == c]
        if not idx:
            st.ambiguous.append("empty-class")
            return [], True
        vs = [Fraction(vals[i]) for i in idx]
        cnt = sum(wt[i] for i in idx)
        mean = sum(v * wt[i] for v, i in zip(vs, idx)) / cnt
        var = sum(wt[i] * (v - mean) ** 2 for v, i in zip(vs, idx)) / cnt
        maxabs = max(abs(vals[i]) for i in idx)
        allsame = all(vals[i] == vals[idx[0]] for i in idx)
        # error bound of the on-line mean (0 when every value is the same: delta == 0 at every step)
        dm = 0.0 if allsame else 4.0 * cnt * U * maxabs
        meanf, varf = float(mean), float(var)
        sigma = math.sqrt(varf)
        dv = 2.0 * sigma * dm + dm * dm + 8.0 * cnt * U * varf
        if all(outs[i] is None for i in idx):
            st.class_all_undefined += 1
        if cnt == 1:
            st.class_single += 1
        elif var == 0:
            st.class_zero_variance += 1
        if abs(varf - EPS2) <= 2.0 * dv + 1e-30 and not allsame:
            amb = True
            st.ambiguous.append("variance-at-threshold")
        stats.append((meanf, varf, 0.0 if allsame else dm + U * abs(meanf), sigma, allsame))
    for a in range(ncl):
        for b in range(a + 1, ncl):
            if stats[a][0] == stats[b][0] and stats[a][1] == stats[b][1]:
                st.identical += 1
    res = []
    for o in outs:
        x = 0.0 if o is None else o
        ps = []
        for (meanf, varf, dm, sigma, allsame) in stats:
            dist = abs(x - meanf)
            if varf < EPS2:
                derr = dm + 2.0 * U * dist
                if abs(dist - EPS2) <= 2.0 * derr:
                    amb = True
                    st.ambiguous.append("distance-at-threshold")
                ps.append((1.0 if dist < EPS2 else 0.0, 0.0, True))
            else:
                r = dm / sigma
                if r > 1e-7:
                    amb = True
                    st.ambiguous.append("ill-conditioned")
                    r = 1e-7
                if math.isinf(dist):
                    e = math.inf
                else:
                    try:
                        e = dist * dist / varf
                    except OverflowError:
                        e = math.inf
                if 690.0 <= e <= 760.0:
                    amb = True
                    st.ambiguous.append("exp-underflow-range")
                p = math.exp(-e) if e < 745.2 else 0.0
                rel = 0.0 if (p == 0.0 or math.isinf(e)) else 8.0 * (e + math.sqrt(e)) * (r + 4 * U) + 64 * U
                ps.append((p, rel, False))
        best, val = 0, 0.0
        for i, (p, _, _) in enumerate(ps):
            if p > val:
                best, val = i, p
        for i, (p, rel, deg) in enumerate(ps):
            if i == best or val == 0.0:
                continue
            if deg and ps[best][2]:
                continue                      # both exactly 1.0: the first one wins, deterministically
            if abs(p - val) <= 2.0 * (rel + ps[best][1]) * val + 1e-300:
                amb = True
                st.ambiguous.append("near-tie")
        total = 0.0
        for (p, _, _) in ps:
            total += p
        sure = val / total if total > 0.0 else 0.0
        if total == 0.0:
            st.underflow += 1
        tol = min(1.0, 4.0 * max(rel for (_, rel, _) in ps) + 16 * U)
        res.append((best, sure, tol))
    return res, amb


# ---------------------------------------------------------------------------
# teams + evaluators
# ---------------------------------------------------------------------------

def documented(kind, mouts, labels, ncl, xslot, st=None, weights=None):
    """kind: dyn | gau | bin ; mouts: per member list of outputs.
    -> dict(tags=[(label, confidence)], fitness, tol, wrong=[bool], ambiguous=bool)
    `weights`: example i stands for weights[i] identical examples (fitness and statistics of the multiset)"""
    n = len(labels)
    wt = weights if weights is not None else [1] * n
    per = []
    amb = False
    for outs in mouts:
        if kind == "bin":
            t, a = binary_tags(outs)
            t = [(l, s, 0.0) for (l, s) in t]
        elif kind == "dyn":
            t, a = dyn_slot_tags(outs, labels, ncl, xslot, weights)
            t = [(l, s, 0.0) for (l, s) in t]
        else:
            t, a = gaussian_tags(outs, labels, ncl, st, weights)
        if a and not t:
            return {"ambiguous": True, "tags": [], "fitness": None, "tol": None, "wrong": []}
        amb = amb or a
        per.append(t)
    tags = []
    for i in range(n):
        best = per[0][i]
        for m in range(1, len(per)):
            r = per[m][i]
            if r[1] > best[1]:
                best = r
        # a member whose confidence is within tolerance of the winner's and that votes otherwise
        for m in range(len(per)):
            r = per[m][i]
            if r[0] != best[0] and abs(r[1] - best[1]) <= (r[2] + best[2]) * max(best[1], 1e-300) and (r[2] + best[2]) > 0:
                amb = True
                if st is not None:
                    st.ambiguous.append("team-near-tie")
        tags.append(best)
    wrong = [tags[i][0] != labels[i] for i in range(n)]
    if kind == "gau":
        scale = float(ncl - 1)
        fit = 0.0
        tol = 1e-12
        for i in range(n):
            if wrong[i]:
                fit -= 1.0 * wt[i]
            else:
                fit += wt[i] * ((tags[i][1] - 1.0) / scale)
                tol += wt[i] * (tags[i][2] / scale + 4 * U)
        tol += 2.0 * U * sum(wt) * abs(fit)          # the running sum itself (n additions)
    else:
        fit = -float(sum(wt[i] for i, w in enumerate(wrong) if w))
        tol = 0.0
    return {"ambiguous": amb, "tags": [(t[0], t[1]) for t in tags], "fitness": fit, "tol": tol, "wrong": wrong}
