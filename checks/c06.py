"""C06 — invariants of an evolutionary run.

Lean: Vita/C06/{Pop,Select,Replace,Tune,Run,Decide,Props}.lean (models + theorems) and the
compiled driver Vita/C06/Driver.lean.  Tie: harness/c06_run.cc drives the real
population / random::ring / selection / replacement / tune_parameters / evolution::run code
and prints one observation per line; every observation is
  * judged by the harness's own oracle of the property clause (model independent), and
  * sent to the driver, which either reproduces it exactly (differential: book-keeping ops,
    tune_parameters + is_valid) or decides the proved step relation on it (relational:
    ring zone, selection contracts, replacement steps, generation boundaries of whole runs).
tools/translate_tune.py regenerates Vita/C06/Gen.lean (the parameters is_valid and the three
tune_parameters touch, from the clang AST); Props.lean proves the model covers exactly those.
tools/translate_evolution.py regenerates Vita/C06/GenEvo.lean (statement skeleton of
evolution::run, summary::summary/clear, the guarded effects of the selection / replacement
strategies); Props.lean proves by `decide` that these are the tables the model interprets, the
driver reads `summary::clear()` from them when it predicts the start of a further run.
Whole runs are driven `runs` times on the SAME evolution object (restart observations).
"""
import concurrent.futures as cf
import json
import os
import re
import struct
import sys
import time

from vlib import common as C

sys.path.insert(0, os.path.join(C.ROOT, "tools"))
import translate_tune  # noqa: E402
import translate_evolution  # noqa: E402
from cxx2lean import Refuse  # noqa: E402

PROP = "Vita.C06.Props"
HARNESS_RUN = "c06_run"      # comp / run cases
HARNESS_TUNE = "c06_tune"    # ops / ring / tune cases
DRIVER = "c06_driver"


def dbits(x):
    return struct.unpack("<Q", struct.pack("<d", x))[0]


def bits_d(b):
    return struct.unpack("<d", struct.pack("<Q", b))[0]


# --------------------------------------------------------------------------- case generators

def gen_ops(rng, n):
    out = []
    for _ in range(n):
        ind = rng.choice([1, 2, 3, 4, 5, 8, 13])
        mn = rng.choice([0, 1, 2, 3, ind, ind + 3, 10])
        out.append(f"ops {rng.below(1 << 30)} {ind} {mn} {rng.choice([20, 40, 80])}")
    return out


def gen_ring(rng, n):
    return [f"ring {rng.below(1 << 30)} 400" for _ in range(n)]


def common_params(rng, strat, ind, light=False):
    individuals = rng.choice([4, 4, 5, 6, 8, 12, 20, 33, 60])
    if light and individuals == 60 and not rng.chance(0.34):
        # quick tier, whole runs: the monitor re-observes the whole population after every replacement, a run
        # costs ~ population^2 per generation; the largest population is kept but made rarer (thorough: full share)
        individuals = 16
    # tournament_size = 1 ("selecting individuals at random"): recombination picks the mate itself
    # (fix 295a059; before, recombination::base / de read parent[1] of a one-element vector)
    tour = rng.choice([1, 2, 2, 3, 4, individuals, min(individuals, 7)])
    tour = min(tour, individuals)
    mz = rng.choice([tour, tour + 1, max(tour, individuals // 2), individuals, individuals + 5, 20, 4294967295])
    mz = max(mz, tour)
    p = {
        "strat": strat, "T": ind, "seed": rng.below(1 << 30), "individuals": individuals,
        "min_individuals": rng.choice([2, 2, 3, individuals]),
        "tournament": tour, "mate_zone": mz, "elitism": rng.choice([1, 1, 0]),
        "brood": rng.choice([1, 1, 2, 3]), "fast": 0,
        "p_cross": rng.choice([0.0, 0.3, 0.9, 1.0]) if strat != "de" else rng.choice([0.3, 0.9, 1.0]),
        "p_mutation": rng.choice([0.0, 0.04, 0.3, 1.0]),
        "cache": rng.choice([0, 0, 7, 10]),
        "fitk": rng.choice([1, 5, 50, 400]) if ind in ("ga", "de") else rng.choice([1, 10, 100, 500]),
        "age_gap": rng.choice([1, 2, 3, 5]),
        "p_same": rng.choice([0.0, 0.5, 0.75, 1.0]),
    }
    if p["brood"] > 1 and rng.chance(0.75):
        # brood recombination ranks its candidates with evaluator::fast(): make it a really different (coarser)
        # score, as the sum-of-errors evaluators' is on >= 100 examples – an approximation that leaks into the
        # fitness (through the evaluation cache, say) breaks best.fitness == eval(best.solution)
        p["fast"] = rng.choice([2, 7])
    if strat == "alps":
        p["layers"] = rng.choice([2, 3, 4])
        p["tournament"] = min(max(p["tournament"], 1), individuals)
    else:
        p["layers"] = 1
    return p


COMBOS = [("std", "mep"), ("std", "ga"), ("alps", "mep"), ("alps", "ga"), ("de", "de"), ("alps", "de"),
          ("std", "team"), ("alps", "team")]


def fmt(kind, p):
    return kind + " " + " ".join(f"{k}={v}" for k, v in p.items())


def gen_comp(rng, n, count):
    out = []
    for i in range(n):
        strat, ind = COMBOS[i % len(COMBOS)]
        p = common_params(rng, strat, ind)
        if strat == "alps" and ind == "de":
            strat = p["strat"] = "alps"
        what = rng.choice(["sel", "repl", "repl", "family"]) if strat != "alps" else rng.choice(["sel", "repl", "repl"])
        if what in ("sel", "repl") and rng.chance(0.25):
            p["tournament"] = 1
        p["what"] = what
        p["count"] = count
        out.append(fmt("comp", p))
    return out


# the shapes of shake functor handed to evolution::run(run_count, shake) (see harness/c06_run.cc): the evaluator's
# score depends on data the functor replaces.  `none` = run(run_count), the library's own never-shaking lambda.
SHAKES = ["none", "none", "none", "never", "always", "gen0", "gen0", "every", "every", "later", "later", "same"]


def shake_params(rng, p, shapes=SHAKES):
    p["shake"] = rng.choice(shapes)
    if p["shake"] in ("every", "later", "same"):
        p["shake_k"] = rng.choice([1, 2, 2, 3])


def gen_runs(rng, n, big):
    out = []
    for i in range(n):
        strat, ind = COMBOS[i % len(COMBOS)]
        p = common_params(rng, strat, ind, light=not big)
        shake_params(rng, p)
        p["generations"] = rng.choice([1, 2, 3, 5]) if not big else rng.choice([3, 6, 10])
        if strat == "alps":
            p["generations"] = rng.choice([4, 6, 9]) if not big else rng.choice([8, 12, 20])
        # consecutive run()s on the same evolution object (run_count 0, 1, 2): the later ones start
        # from the evolved population with a cleared summary
        p["runs"] = rng.choice([1, 2, 2, 3])
        if p["runs"] > 1 and p["generations"] > 6:
            p["generations"] = 6
        out.append(fmt("run", p))
    return out


def gen_search(rng, n):
    """whole searches (tune_parameters + several evolutions) through ga_search / de_search"""
    out = []
    for i in range(n):
        ind = "ga" if i % 2 == 0 else "de"
        individuals = rng.choice([6, 8, 10, 12, 25])
        tour = rng.choice([2, 3, min(5, individuals)])
        p = {"strat": "std" if ind == "ga" else "de", "T": ind, "seed": rng.below(1 << 30),
             "individuals": individuals, "generations": rng.choice([1, 2, 4]), "runs": rng.choice([1, 2, 3]),
             "tournament": tour, "mate_zone": rng.choice([tour, individuals, 20]),
             "elitism": rng.choice([1, 1, 0]), "brood": rng.choice([1, 2]),
             "p_cross": rng.choice([0.3, 0.9, 1.0]), "p_mutation": rng.choice([0.04, 0.3]),
             "cache": rng.choice([0, 8]), "fitk": rng.choice([1, 5, 50]),
             "open_tournament": rng.choice([0, 1]), "open_mate_zone": rng.choice([0, 1]),
             "open_elitism": rng.choice([0, 1]), "open_rates": rng.choice([0, 1]), "open_brood": rng.choice([0, 1])}
        # (an open tournament_size is filled with min(5, individuals, mate_zone): fix 85c06c5)
        # a user defined validation_strategy whose shake() changes the data (search::run hands it to evolution::run)
        shake_params(rng, p, ["none", "none", "gen0", "every", "later", "always"])
        out.append(fmt("search", p))
    return out


def gen_srcrun(rng, n):
    """whole src_search runs: sum-of-errors evaluator on >= 100 rows (fast() skips examples) x brood recombination
    x evaluation cache, judged against an independent cache-less evaluator after every generation"""
    out = []
    for i in range(n):
        strat, eva = [("std", "mae"), ("std", "rmae"), ("alps", "mae"), ("std", "mse")][i % 4]
        individuals = rng.choice([12, 20, 30])
        p = {"strat": strat, "eva": eva, "seed": rng.below(1 << 30), "rows": rng.choice([100, 120, 160, 250, 60]),
             "individuals": individuals, "min_individuals": 2, "tournament": rng.choice([2, 3]),
             "mate_zone": individuals, "elitism": rng.choice([1, 1, 0]), "brood": rng.choice([2, 3, 4, 1]),
             "p_cross": 0.9, "p_mutation": 0.04, "cache": rng.choice([8, 12, 8, 0]),
             "generations": rng.choice([3, 5]), "layers": 1 if strat == "std" else 2, "age_gap": 2, "p_same": 0.75}
        out.append(fmt("srcrun", p))
    return out


UNDEF_P = dbits(-1.0)


def gen_tune(rng, n):
    """user environments: mostly consistent requests with some parameters open."""
    out = []
    # src-X: src_search with the validation strategy X installed before the tuning (an open dss /
    # validation_percentage is filled with its default exactly when dss / holdout is installed: fix 237a8f6)
    classes = [("base", "std"), ("base", "alps"), ("src", "std"), ("src", "alps"), ("ga", "std"),
               ("de", "std"), ("ga", "alps"), ("src-holdout", "std"), ("src-dss", "std"), ("src-other", "std"),
               ("src-holdout", "alps"), ("src-dss", "alps")]
    # the systematic part: exactly one parameter set, everything else open
    singles = []
    for ind in (4, 5, 7, 9, 10, 11, 50, 100, 200):
        singles.append({"individuals": ind})
    for ts in (1, 2, 5, 6, 20, 21, 100, 101):
        singles.append({"tournament": ts})
    for mz in (1, 3, 4, 5, 6, 19, 4294967295):
        singles.append({"mate_zone": mz})
    for mi in (2, 5, 9, 10, 11, 100, 101):
        singles.append({"min_individuals": mi})
    for cl in (2, 3, 10, 100, 101):
        singles.append({"code": cl})
    for pl in (1, 50, 99, 100):
        singles.append({"patch": pl})
    singles += [{"layers": 1}, {"layers": 3}, {"elitism": 0}, {"elitism": 1}, {"brood": 4},
                {"generations": 7}, {"max_stuck": 3}, {"p_mut": dbits(0.0)}, {"p_mut": dbits(1.0)},
                {"p_cross": dbits(0.5)}, {}, {"dss": 3}, {"validation": 35}, {"validation": 0},
                {"dss": 2, "validation": 10}]
    cases = [(c, s) for c in classes for s in singles]
    for _ in range(n):
        s = {}
        for k, vals in (("individuals", [4, 6, 10, 30, 100, 500]), ("tournament", [1, 2, 3, 5, 8, 30]),
                        ("mate_zone", [2, 5, 10, 20, 50, 4294967295]), ("min_individuals", [2, 3, 5, 10, 20]),
                        ("code", [2, 5, 20, 100, 300]), ("patch", [1, 2, 4, 50]), ("layers", [1, 2, 4, 8]),
                        ("elitism", [0, 1]), ("brood", [1, 2, 5]), ("generations", [1, 10, 1000]),
                        ("max_stuck", [1, 50]), ("p_mut", [dbits(0.0), dbits(0.04), dbits(0.7), dbits(1.0), dbits(1.5)]),
                        ("p_cross", [dbits(0.0), dbits(0.9), dbits(1.0), dbits(2.0)]),
                        ("dss", [0, 1, 3]), ("validation", [0, 20, 99, 100]),
                        ("age_gap", [0, 1, 20]), ("p_same", [dbits(-0.5), dbits(0.0), dbits(0.75), dbits(1.0), dbits(1.25)]),
                        ("team", [0, 1, 3])):
            if rng.chance(0.3 if k not in ("age_gap", "p_same", "team") else 0.1):
                s[k] = rng.choice(vals)
        cases.append((rng.choice(classes), s))
    for (cls, es), s in cases:
        nterm = s.get("nterm", rng.choice([1, 2, 3, 6, 40]))
        dsize = rng.choice([3, 8, 9, 20, 150]) if cls.startswith("src") else 0
        f = [s.get("code", 0), s.get("patch", 0), s.get("elitism", 2), s.get("p_mut", UNDEF_P),
             s.get("p_cross", UNDEF_P), s.get("brood", 0), s.get("layers", 0), s.get("individuals", 0),
             s.get("min_individuals", 0), s.get("tournament", 0), s.get("mate_zone", 0),
             s.get("generations", 0), s.get("max_stuck", "-"), s.get("dss", "-"), s.get("validation", "-"),
             s.get("age_gap", 20), s.get("p_same", dbits(0.75)), s.get("team", 3)]
        out.append(f"tune {cls} {es} {nterm} {dsize} " + " ".join(str(x) for x in f))
    # many terminals: patch_length = 1 + terminals/2 against the default code_length
    for cls, es in (("base", "std"), ("src", "std")):
        for nterm in (196, 197, 198, 199, 230):
            f = [0, 0, 2, UNDEF_P, UNDEF_P, 0, 0, 0, 0, 0, 0, 0, "-", "-", "-", 20, dbits(0.75), 3]
            out.append(f"tune {cls} {es} {nterm} {12 if cls == 'src' else 0} " + " ".join(str(x) for x in f))
    return out


TUNE_FIELDS = ["code", "patch", "elitism", "p_mut", "p_cross", "brood", "layers", "individuals",
               "min_individuals", "tournament", "mate_zone", "generations", "max_stuck", "dss",
               "validation", "age_gap", "p_same", "team"]


def tune_tags(case, expected):
    """classify a tuned environment that fails is_valid(true): which cross checks fail and whether
    each failing pair opposes a user-set parameter to one filled in by tune_parameters."""
    t = case.split()
    cls, es = t[1], t[2]
    user = dict(zip(TUNE_FIELDS, t[5:5 + 18]))
    after = dict(zip(TUNE_FIELDS, expected.split()[:18]))
    iv = lambda d, k: int(d[k]) if d[k] != "-" else 0
    causes, kinds = [], []

    def pair(name, a, b, bad):
        if bad:
            causes.append(name)
            ua, ub = iv(user, a) != 0, iv(user, b) != 0
            if name == "min_individuals>individuals" and cls in ("ga", "de") and iv(after, "min_individuals") == 10 \
                    and iv(user, "min_individuals") < 10:
                kinds.append("strategy-floor-vs-individuals")
            elif ua != ub:
                kinds.append("default-vs-user")
            elif not ua and not ub:
                kinds.append("computed-defaults")
            else:
                kinds.append("user-vs-user")

    pair("patch>=code", "patch", "code", iv(after, "patch") >= iv(after, "code"))
    pair("min_individuals>individuals", "min_individuals", "individuals",
         iv(after, "min_individuals") > iv(after, "individuals"))
    pair("tournament>individuals", "tournament", "individuals", iv(after, "tournament") > iv(after, "individuals"))
    pair("tournament>mate_zone", "tournament", "mate_zone", iv(after, "tournament") > iv(after, "mate_zone"))
    return {"clause": "tuned-environment-not-valid", "search": cls, "es": es,
            "cause": "+".join(causes) or "other", "conflict": "+".join(sorted(set(kinds))) or "other",
            "user_individuals": iv(user, "individuals"), "user_min_individuals": iv(user, "min_individuals")}


# --------------------------------------------------------------------------- translators

def translated(mod, out, tag):
    """Run a translator on the current working tree of vita and (re)write `out`.  The result is a
    function of the sources (everything the translation unit includes) and of the translator, so it is
    cached under build/ by the content hash of both: an unchanged tree costs a hash, any edit of vita or
    of the tools re-runs clang.  Returns (stats, changed w.r.t. the file that was there)."""
    tools = os.path.join(C.ROOT, "tools")
    extra = ""
    for f in (mod.__name__ + ".py", "cxx2lean.py", os.path.join("tu", mod.TU)):
        extra += open(os.path.join(tools, f)).read()
    key = C.repo_tree_hash(extra)[:24]
    wd = os.path.join(C.BUILD, "c06")
    os.makedirs(wd, exist_ok=True)
    cache = os.path.join(wd, f"{tag}-{key}.json")
    if os.path.exists(cache):
        c = json.load(open(cache))
    else:
        res = mod.extract()
        c = {"txt": mod.render(res), "stats": mod.stats(res) if hasattr(mod, "stats") else {k: len(v) for k, v in res.items()}}
        tmp = cache + ".%d.tmp" % os.getpid()
        with open(tmp, "w") as f:
            json.dump(c, f)
        os.replace(tmp, cache)
    old = open(out).read() if os.path.exists(out) else None
    if old != c["txt"]:
        with open(out, "w") as f:
            f.write(c["txt"])
    return c["stats"], old is not None and old != c["txt"]


# --------------------------------------------------------------------------- C++ side

def build_cxx(pool):
    """libvita (working tree) + the two harnesses.  Same flags, same cache discipline as C.build_harness (content
    hash of vita's tree, the harness source, harness/common, the flags), but the two harness translation units are
    COMPILED while the library builds and only linked afterwards: `evolution<T,ES>` & co. are templates, an edit of
    vita costs a full recompilation of c06_run.cc (~40 s .. 2 min) that need not wait for the library (~12 s .. 2 min)."""
    import hashlib
    out = os.path.join(C.BUILD, "asan")
    os.makedirs(out, exist_ok=True)
    base = C.cxx_flags("asan")
    flags = base + ["-I" + os.path.join(C.ROOT, "harness")]
    tree = C.repo_tree_hash(" ".join(base))           # = the stamp build_vita writes
    cdir = os.path.join(C.ROOT, "harness", "common")
    common = sorted(os.path.join(cdir, f) for f in os.listdir(cdir)) if os.path.isdir(cdir) else []

    def key(name):
        h = hashlib.sha256()
        h.update(tree.encode())
        for f in [os.path.join(C.ROOT, "harness", name + ".cc")] + common:
            h.update(open(f, "rb").read())
        h.update(" ".join(flags).encode())
        return "c06-split-build " + h.hexdigest()

    def fresh(path, k):
        return os.path.exists(path) and os.path.exists(path + ".stamp") and open(path + ".stamp").read() == k

    def compile_tu(name):
        exe, obj, k = os.path.join(out, name), os.path.join(out, name + ".o"), key(name)
        if fresh(exe, k) or fresh(obj, k):
            return
        t0 = time.time()
        rc, so, se = C.sh(["g++"] + flags + ["-c", os.path.join(C.ROOT, "harness", name + ".cc"), "-o", obj])
        if rc != 0:
            raise RuntimeError(f"harness {name} does not compile:\n{se[-6000:]}")
        with open(obj + ".stamp", "w") as f:
            f.write(k)
        C.log(f"[build] harness {name} (asan) compiled in {time.time() - t0:.1f}s")

    names = [HARNESS_RUN, HARNESS_TUNE]
    tus = [pool.submit(compile_tu, n) for n in names]
    lib = C.build_vita("asan")                        # raises RuntimeError when vita does not compile
    for t in tus:
        t.result()
    exes = []
    for n in names:
        exe, obj, k = os.path.join(out, n), os.path.join(out, n + ".o"), key(n)
        if not fresh(exe, k):
            rc, so, se = C.sh(["g++"] + flags + [obj, "-o", exe, lib])
            if rc != 0:
                raise RuntimeError(f"harness {n} does not link:\n{se[-6000:]}")
            with open(exe + ".stamp", "w") as f:
                f.write(k)
        exes.append(exe)
    return exes


# --------------------------------------------------------------------------- running

def run_shard(exe, cases, tag):
    """Run the harness on `cases` (it forks one child per case); returns (observations, deaths):
    observations = [(case_index, oracle, expected, request)], deaths = [(case_index, rc, stderr of the case)]."""
    obs, deaths = [], []
    wd = os.path.join(C.BUILD, "c06")
    os.makedirs(wd, exist_ok=True)
    path = os.path.join(wd, f"cases-{tag}.txt")
    with open(path, "w") as f:
        f.write("\n".join(cases) + "\n")
    rc, so, se = C.run_harness(exe, [path], inp=b"", timeout=6000)
    errs = {}
    for chunk in se.split("## case ")[1:]:
        head, _, body = chunk.partition("\n")
        if body.strip() and head.strip().isdigit():
            errs[int(head)] = body
    cur, last = None, -1
    for ln in so.splitlines():
        if not ln:
            continue
        if ln.startswith("# case "):
            w = ln.split()
            last = int(w[2])
            if w[3] == "begin":
                cur = last
            else:
                if w[3] == "died":
                    deaths.append((last, int(w[4]), errs.get(last, "")[-2500:]))
                cur = None
            continue
        parts = ln.split("|", 2)
        if len(parts) == 3 and cur is not None:
            obs.append((cur, parts[0], parts[1], parts[2]))
    if rc != 0 or last != len(cases) - 1 or cur is not None:
        deaths.append((min(last + (0 if cur is not None else 1), len(cases) - 1), rc,
                       "the harness itself stopped early: " + se[-1500:]))
    return obs, deaths


def run(chk, replay=None):
    rng = C.SplitMix(chk.seed)
    broken = []
    t0 = time.time()
    phases = {}

    def lap(name):
        nonlocal t0
        phases[name] = round(time.time() - t0, 1)
        t0 = time.time()

    # the C++ side (library of the working tree + the two harness translation units) does not depend on the
    # translators or on Lean: it is built in the background while they run (all three are cached by content hash;
    # after an edit of vita this overlaps ~1 min of clang / Lean with the g++ build)
    bg = cf.ThreadPoolExecutor(3)
    cxx = bg.submit(build_cxx, bg)
    # which parameters do is_valid / tune_parameters touch in the current sources? (clang AST)
    # what do evolution::run, summary::clear, the strategy classes and the tune_parameters say in the
    # current sources?   (the two translators run side by side)
    with cf.ThreadPoolExecutor(2) as ex:
        ft = ex.submit(translated, translate_tune, os.path.join(C.LEAN, "Vita", "C06", "Gen.lean"), "gen")
        fe = ex.submit(translated, translate_evolution, os.path.join(C.LEAN, "Vita", "C06", "GenEvo.lean"), "genevo")
        try:
            stats, changed = ft.result()
            chk.cov["translated"] = stats
            chk.cov["gen_changed_vs_committed"] = bool(changed)
        except Refuse as e:
            broken.append("tools/translate_tune.py refuses the current sources: %s" % e)
        try:
            stats, changed = fe.result()
            chk.cov["translated_evolution"] = stats
            chk.cov["genevo_changed_vs_committed"] = bool(changed)
        except Refuse as e:
            broken.append("tools/translate_evolution.py refuses the current sources: %s" % e)
    lap("translate")
    ok, msg = chk.prove(PROP, [PROP, DRIVER])
    drv_ok = os.path.exists(C.driver_path(DRIVER)) and ok
    if not ok:
        broken.append("theorems of Vita.C06.Props / the driver no longer build: " + msg)
        ok2, _ = C.lake_build([DRIVER])
        drv_ok = ok2

    lap("prove")
    try:
        exes = cxx.result()          # (raises what build_vita / build_harness raised)
    finally:
        bg.shutdown(wait=False)
    exe_for = lambda case: exes[0] if case.split()[0] in ("comp", "run", "search", "srcrun") else exes[1]

    lap("build")
    # ---- cases -----------------------------------------------------------
    cases = []
    if replay and "case" not in json.load(open(replay)).get("replay", {}):
        replay = None          # a proof / translator / correspondence replay names no input: run the whole check again
    if replay:
        r = json.load(open(replay))
        cases = [r["replay"]["case"]]
    else:
        cdir = os.path.join(C.ROOT, "corpus", "C06")
        if os.path.isdir(cdir):
            for fn in sorted(os.listdir(cdir)):
                if fn.endswith(".cases"):
                    cases += [l.strip() for l in open(os.path.join(cdir, fn)) if l.strip() and not l.startswith("#")]
        thorough = chk.tier == "thorough"
        cases += gen_ops(rng, 150 if not thorough else 1500)
        cases += gen_ring(rng, 20 if not thorough else 200)
        cases += gen_tune(rng, 1500 if not thorough else 20000)
        cases += gen_comp(rng, 300 if not thorough else 3000, 100 if not thorough else 200)
        cases += gen_runs(rng, 300 if not thorough else 3000, thorough)     # each case = 1..3 runs on one object
        cases += gen_search(rng, 40 if not thorough else 400)
        cases += gen_srcrun(rng, 8 if not thorough else 80)

    # ---- harness (sharded) + driver ----------------------------------------
    # shards: interleaved so that each gets a similar mix; one harness binary per shard
    groups = [[c for c in cases if exe_for(c) == exes[0]], [c for c in cases if exe_for(c) == exes[1]]]
    shards, shard_exe = [], []
    for g, e, n in ((groups[0], exes[0], 5 if chk.tier != "thorough" else 8), (groups[1], exes[1], 2)):
        n = 1 if len(g) < 8 else n
        for k in range(n):
            part = g[k::n]
            if part:
                shards.append(part)
                shard_exe.append(e)
    nshard = max(len(shards), 1)

    def work(k):
        obs, deaths = run_shard(shard_exe[k], shards[k], f"{chk.tier}-{chk.seed}-{k}")
        reqs = [o[3] for o in obs]
        ans = C.run_driver(DRIVER, reqs) if (drv_ok and reqs) else None
        return obs, deaths, ans

    with cf.ThreadPoolExecutor(nshard) as ex:
        results = list(ex.map(work, range(nshard)))

    lap("harness+driver")
    ndis = 0
    prev_state = {}            # (shard, case) -> last_imp of the latest observed summary
    broken_cases = set()
    for k, (obs, deaths, ans) in enumerate(results):
        for (ci, rc, se) in deaths:
            case = shards[k][ci]
            tags = {"clause": "crash", "kind": case.split()[0]}
            tags.update(dict(x.split("=", 1) for x in case.split()[1:] if "=" in x))
            m = re.search(r"SUMMARY: \w+: (\S+) .* in (.*)", se)
            tags["where"] = (m.group(1) + " in " + m.group(2)[:200]) if m else "unknown"
            chk.violation(f"the harness died (rc={rc}) inside case `{case}`: {tags['where']}\n{se[-1800:]}",
                          {"case": case, "stderr": se[-1800:], "tags": tags}, tags=tags)
            chk.count("crash")
        if ans is not None and len(ans) != len(obs):
            broken.append(f"driver answered {len(ans)} lines for {len(obs)} requests (shard {k})")
            ans = None
        seen_case, bad_case = set(), set()
        for j, (ci, oracle, expected, req) in enumerate(obs):
            case = shards[k][ci]
            kind = case.split()[0]
            rk = req.split(" ", 2)[0] if req != "noop" else "noop"
            chk.count("obs:" + rk)
            if ci not in seen_case:
                seen_case.add(ci)
                chk.count("case:" + kind)
                if kind == "srcrun":
                    kv = dict(x.split("=", 1) for x in case.split()[1:])
                    chk.count(f"srcrun:brood={'>1' if kv['brood'] != '1' else '1'},cache={'on' if kv['cache'] != '0' else 'off'},"
                              f"rows={'>=100' if int(kv['rows']) >= 100 else '<100'}")
                if kind in ("run", "comp", "search"):
                    kv = dict(x.split("=", 1) for x in case.split()[1:])
                    if kind == "run":
                        chk.count("run:brood>1,cache=on,fast!=exact" if kv["brood"] != "1" and kv["cache"] != "0"
                                  and kv.get("fast", "0") != "0" else "run:other-evaluator-mix")
                    chk.count(f"{kind}:{kv['strat']}/{kv['T']}")
                    chk.count(f"{kind}:cache={'on' if kv['cache'] != '0' else 'off'}")
                    chk.count(f"{kind}:elitism={kv['elitism']}")
                    if kind in ("run", "search"):
                        chk.count(f"{kind}:runs={kv.get('runs', '1')}")
                        chk.count(f"{kind}:shake={kv.get('shake', 'none')}")
                    if kind == "comp":
                        chk.count("comp:what=" + kv["what"])
            chk.seen((kind, req), nontrivial=(rk not in ("cfg", "noop")))
            if rk == "step":
                t = req.split()
                npar = int(t[2])
                nch = int(t[3 + 2 * npar + 4])
                chk.count("step:changes=%d" % min(nch, 3))
            if rk == "state":
                t = req.split(" ", 5)
                chk.count("state:" + t[1])
                if t[1] == "shake":
                    chk.count("shake:at-gen0" if t[2] == "0" else "shake:at-gen>0")
                if t[1] == "restart":
                    chk.count("restart:prev_last_imp>0" if prev_state.get((k, ci), 0) > 0 else "restart:prev_last_imp=0")
                prev_state[(k, ci)] = int(t[3])
            if rk == "step":
                prev_state[(k, ci)] = int(req.split()[-6])
            if rk == "tune":
                chk.count("tune:valid_after=" + expected.split()[-1])
            if oracle != "ok":
                chk.count("oracle:" + oracle[4:])
            if oracle != "ok" and ci not in bad_case:
                bad_case.add(ci)            # the first failing observation of a case is the replay
                if rk == "tune" and oracle == "bad:tuned-environment-not-valid":
                    tags = tune_tags(case, expected)
                else:
                    tags = {"clause": oracle[4:], "kind": kind}
                chk.violation(f"{oracle[4:]}: observation #{j} of case `{case}`: {req[:400]}",
                              {"case": case, "observation": j, "request": req[:2000], "oracle": oracle,
                               "tags": tags}, tags=tags)
            if ans is not None and req != "noop":
                a = ans[j]
                want = "ok" if expected == "-" else expected
                if a != want:
                    ndis += 1
                    if len(broken) < 8 and oracle == "ok" and (k, ci) not in broken_cases:
                        broken_cases.add((k, ci))
                        what = ("model and code disagree" if expected != "-" else
                                "the driver's step relation rejects an observed execution")
                        broken.append(f"{what} ({a!r} vs {want!r}) on observation #{j} of case `{case}`: {req[:600]}")
            if (j * 7919 + ci) % 4001 == 0:
                chk.sample({"case": case[:200], "request": req[:200], "oracle": oracle,
                            "driver": ans[j][:100] if ans else None})
    lap("judge")
    chk.cov["phase_seconds"] = phases
    chk.cov["model_vs_code_disagreements"] = ndis
    chk.cov["cases"] = len(cases)

    if broken and not [v for v in chk.violations if not v[2]]:
        for b in broken[:5]:
            chk.violation(b, {"broken": b, "searched": f"{len(cases)} cases / {chk.evaluations} observations, every one "
                              "judged by the harness's own oracle of the property clauses: no failing input"},
                          no_input=True)
    elif broken:
        chk.notes += broken[:10]

    nrun = chk.cov["input_distribution"].get("case:run", 0) - chk.cov["input_distribution"].get("crash", 0)
    return chk.finish(
        level="proof",
        extra={"traces_validated_against_impl": max(nrun, 0),
               "transitions": chk.cov["input_distribution"].get("obs:step", 0)
               + chk.cov["input_distribution"].get("obs:state", 0)},
        checker_cmd="lake build Vita.C06.Props c06_driver && lake env lean <#print axioms for every theorem>",
        rule="observations of real executions (book-keeping op, ring draw, selection, replacement step, "
             "generation boundary, tune_parameters call); distinct = distinct (case kind, observation) "
             "pairs excluding configuration lines; each is judged by the harness oracle and by the Lean driver",
        trusted=["Lean 4.33 kernel", "harness/c06_run.cc, c06_tune.cc (observation + diff of consecutive populations)",
                 "tools/translate_tune.py, tools/translate_evolution.py + cxx2lean.py (clang-14 JSON AST -> parameter "
                 "name lists; run skeleton, summary::clear table, guarded effects of the strategies)",
                 "hand-written models Vita/C06/{Pop,Select,Replace,Tune,Run,Evo}.lean (validated by the tie; the run "
                 "skeleton, summary::clear and the guards of the strategies are read from the AST and proved equal to "
                 "the model's tables, the strategy bodies beyond their guards are hand-modelled)",
                 "std::bernoulli_distribution(1.0) is always true; total preorder on fitness_t (C18)",
                 "g++ 12.2 ASan/UBSan"])
