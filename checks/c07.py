"""C07 — same seed, same run.

Generator (proof): Lean model of splitmix64 / xoshiro256** / the decimal state save-restore
(Vita/Common/Rng.lean, Vita/C07/Model.lean); the operand lists of operator<< / operator>> are
regenerated from the clang AST on every run (tools/translate_rng.py -> Vita/C07/Gen.lean) and the
round-trip theorems of Vita/C07/Props.lean are re-checked against them.  Differential tie: engine
streams, saved texts, loads of well-formed and malformed texts, save/restore round trips and
random::sup / between draws are compared line by line with the compiled Lean driver.

Whole runs (validation, not proof): several PROCESSES started with the same seed (different heap
layouts, MALLOC_PERTURB_, environment sizes) must print byte-identical transcripts of every
after_generation callback; plus a source scan for other sources of randomness / address dependence.
"""
import concurrent.futures as cf
import json
import os
import re
import sys

from vlib import common as C

sys.path.insert(0, os.path.join(C.ROOT, "tools"))
import translate_rng  # noqa: E402
from cxx2lean import Refuse  # noqa: E402

# the machine is shared: at most VERIF_JOBS (default 4) compile jobs / concurrently running processes while this
# check runs (vlib.common.NPROC is restored afterwards)
JOBS = max(1, min(C.NPROC, int(os.environ.get("VERIF_JOBS", "4"))))

U64 = (1 << 64) - 1


def hexs(s):
    return "".join("%02x" % ord(c) for c in s) or "-"


def gen_lines(rng, tier):
    big = tier != "quick"
    L = []
    seeds = ["0", "1", "default", str(0xcced1fc561884152), str(U64), str(1 << 63), "2", "4294967295"]
    seeds += [str(rng.next()) for _ in range(40 if not big else 200)]
    for s in seeds:
        L.append("stream %s %d" % (s, rng.choice([4, 5, 10, 100, 1000])))
    for s in ["0", "1", "default"] + [str(rng.next()) for _ in range(2 if not big else 10)]:
        L.append("stream %s %d" % (s, 10000 if not big else 200000))
    for s in [0, 1, 7, 4294967295] + [rng.below(1 << 32) for _ in range(6)]:
        L.append("vstream %d %d" % (s, rng.choice([4, 64, 1000])))
    ks = [0, 1, 2, 3, 5, 100, 4097]
    for _ in range(200 if not big else 1000):
        s = rng.choice(seeds)
        L.append("save %s %d" % (s, rng.choice(ks) if rng.below(2) else rng.below(5000)))
    for _ in range(800 if not big else 6000):
        a, b = rng.choice(seeds), rng.choice(seeds)
        k = rng.choice(ks) if rng.below(2) else rng.below(5000)
        j = rng.choice([0, 0, 1, 17]) if rng.below(3) else rng.below(200)
        L.append("roundtrip %s %d %s %d %d" % (a, k, b, j, rng.choice([1, 8, 64, 300])))
    # loads: well-formed texts (all separators the stream accepts) and a malformed stream
    def num():
        m = rng.below(6)
        return str([0, 1, U64, 1 << 63, 10 ** 19][m]) if m < 5 and rng.below(3) == 0 else str(rng.next())
    seps = [" ", "  ", "\t", "\n", " \r\n", "\x0b", "\x0c "]
    texts = []
    for _ in range(300 if not big else 2000):
        ns = [num() for _ in range(4)]
        t = rng.choice(["", "", " ", "\n\t"]) + ns[0]
        for x in ns[1:]:
            t += rng.choice(seps) + x
        t += rng.choice(["", "", " ", "\n", " 99 100", "x"])
        texts.append(t)
    bad = ["", " ", "1 2 3", "1 2", "7", "a b c d", "1 2 x 4", "1 2 3 x", "x 2 3 4", "1,2,3,4",
           "18446744073709551616 1 2 3", "1 2 3 18446744073709551616", "1 99999999999999999999999999 3 4",
           "1 2 3 4abc", "00001 002 03 4", "1 2 3 .5", "1\n2\n3\n", "12345678901234567890123 1 2 3",
           "1 2 18446744073709551615 18446744073709551615", "9 9 9 9 9 9", "1.5 2 3 4", "1 2 3e4 5"]
    for _ in range(150 if not big else 1500):      # random damage of a good text
        ns = " ".join(num() for _ in range(4))
        i = rng.below(len(ns))
        m = rng.below(3)
        bad.append(ns[:i] if m == 0 else ns[:i] + rng.choice("xyz,.;_") + ns[i + 1:] if m == 1
                   else ns[:i] + ns[i + 1:])
    for t in texts + bad:
        L.append("load %s %d %s %d" % (rng.choice(seeds), rng.choice([0, 0, 3]), hexs(t), 3))
    bounds = [1, 2, 3, 5, 6, 7, 10, 100, 255, 256, 257, 1000, 65535, 65536, 65537, (1 << 31) - 1, 1 << 31,
              (1 << 32) - 1, 1 << 32, (1 << 32) + 1, (1 << 62) + 12345, (1 << 63) - 1, 1 << 63,
              3 * (1 << 61) + 1]
    for b in bounds + [rng.below(1 << rng.between(1, 63)) + 1 for _ in range(60 if not big else 400)]:
        L.append("sup %d %d %d" % (rng.below(1 << 32), b, 200 if not big else 2000))
    IMIN, IMAX = -(1 << 31), (1 << 31) - 1
    ranges = [(0, 1), (-5, 5), (-1, 0), (0, 2), (-1000, 1000), (IMIN, IMAX), (IMIN, IMIN + 1), (IMAX - 1, IMAX),
              (IMIN, 0), (0, IMAX), (-3, 1 << 30)]
    for _ in range(60 if not big else 400):
        a = rng.between(IMIN, IMAX)
        ranges.append((a, rng.between(a + 1, IMAX + 1)))
    for a, b in ranges:
        L.append("between %d %d %d %d" % (rng.below(1 << 32), a, b, 200 if not big else 2000))
    for _ in range(6 if not big else 40):
        L.append("mixed %d %d" % (rng.below(1 << 32), 4000))
    # ---- vita::random on top of the engine: integral / floating between, sup, in, element, ring, boolean
    import struct

    def dbits(x):
        return struct.unpack("<Q", struct.pack("<d", x))[0]

    def state_with_output(t):
        """explicit engine state whose next output is t (the ** scrambler inverted)"""
        inv5, inv9 = 14757395258967641293, 10248191152060862009
        y = (t * inv9) & U64
        y = ((y >> 7) | (y << 57)) & U64
        return "st:%d:%d:%d:%d" % (rng.next(), (y * inv5) & U64, rng.next(), rng.next())

    def eng():
        m = rng.below(5)
        if m == 0:           # rare events: the largest / smallest canonical values
            return state_with_output(rng.choice([U64, U64 - 1023, U64 - 1024, U64 - 1025, 0, 1, 2047, 1 << 63,
                                                 (1 << 63) - 1, U64 - rng.below(4096)]))
        if m == 1:
            return "st:%d:%d:%d:%d" % tuple(rng.next() for _ in range(4))
        return str(rng.below(1 << 32))

    cnt = 100 if not big else 1000
    dmax = 1.7976931348623157e308
    dranges = [(0.0, 1.0), (1.0, 2.0), (-1.0, 1.0), (1.0, 1.0000000000000002), (-1e16, 1.0), (1e300, dmax),
               (-dmax, dmax), (5e-324, 1e-323), (-5.0, -4.999999999), (4503599627370496.0, 9007199254740992.0),
               (9007199254740992.0, 9007199254740994.0), (-1.5, 2.5), (0.0, 5e-324), (-1e-300, 1e-300),
               (0.1, 0.30000000000000004), (-3.0, 1e16), (2.0, 4.0), (-2.0, -1.0)]
    for _ in range(20 if not big else 200):
        a = (rng.next() / float(1 << 64) - 0.5) * 10 ** rng.between(-20, 20)
        w = rng.next() / float(1 << 64) * 10 ** rng.between(-25, 20)
        if a + w > a:
            dranges.append((a, a + w))
    for a, b in dranges:
        for _ in range(2):
            L.append("betd %s %d %d %d" % (eng(), dbits(a), dbits(b), cnt))
    for pv in [0.0, 1.0, 0.5, 0.3, 2.0 ** -64, 1 - 2.0 ** -53, 2.0 ** -53, 0.999] + \
            [rng.next() / float(1 << 64) for _ in range(8 if not big else 60)]:
        L.append("bool %s %d %d" % (eng(), dbits(pv), cnt))
    for n in [2, 3, 7, 100, 65537, (1 << 31) + 5, (1 << 32) - 1] + [rng.between(2, 1 << rng.between(2, 32)) for _ in range(10)]:
        for width in {1, 2, 3, max(1, n - 1), n, min(n + 1, U64 >> 32), min(2 * n, (1 << 32) - 1), rng.between(1, n + 1)}:
            L.append("ring %s %d %d %d %d" % (eng(), rng.below(n), width, n, cnt))
    for b in [1, 2, 3, 1 << 31, (1 << 32) - 1] + [rng.between(1, 1 << 32) for _ in range(10 if not big else 100)]:
        L.append("supu %s %d %d" % (eng(), b, cnt))
    for a, b in [(0, U64), (1 << 63, U64), (0, 1), (U64 - 1, U64), (5, 6), (0, 1 << 63), (0, (1 << 63) + 1)] + \
            [tuple(sorted((rng.next(), rng.next()))) for _ in range(10 if not big else 100)]:
        if a < b:
            L.append("betu64 %s %d %d %d" % (eng(), a, b, cnt))
    for a, b in ranges[:12]:
        L.append("inr %s %d %d %d" % (eng(), a, b, cnt))
    for size in [1, 2, 3, 10, 1000, 65536] + [rng.between(1, 5000) for _ in range(6)]:
        L.append("elem %s %d %d" % (eng(), size, cnt))
    # operator== against the future stream: equal states, states that differ in one word / one bit
    for _ in range(80 if not big else 600):
        ws = [rng.next() if rng.below(4) else rng.choice([0, 1, U64, 1 << 63]) for _ in range(4)]
        vs = list(ws)
        m = rng.below(4)
        if m == 1:
            vs[rng.below(4)] ^= 1 << rng.below(64)
        elif m == 2:
            vs[rng.below(4)] = rng.next()
        elif m == 3:
            i, j = rng.below(4), rng.below(4)
            vs[i], vs[j] = vs[j], vs[i]
        L.append("geq st:%s st:%s" % (":".join(map(str, ws)), ":".join(map(str, vs))))
    for _ in range(10):
        a, b = rng.choice(seeds), rng.choice(seeds)
        L.append("geq %s %s" % (a, b))
    return L


# ---- (a2) stream configurations ---------------------------------------------------------------------
WS = [32, 9, 10, 11, 12, 13]                      # std::isspace in the classic locale


def cfg_token(c):
    return "%d:%d:%d:%d:%d:%d:%d:%d:%s:%s" % (
        c["base"], c["showbase"], c["upper"], c["showpos"], c["width"], c["fill"], c["adjust"], c["skipws"],
        "-" if c["sep"] is None else str(c["sep"]),
        "-" if c["sep"] is None or not c["grouping"] else "".join("%02x" % g for g in c["grouping"]))


def cfg_parse(tok):
    f = tok.split(":")
    sep = None if f[8] == "-" else int(f[8])
    return {"base": int(f[0]), "showbase": int(f[1]), "upper": int(f[2]), "showpos": int(f[3]), "width": int(f[4]),
            "fill": int(f[5]), "adjust": int(f[6]), "skipws": int(f[7]), "sep": sep,
            "grouping": [] if sep is None or f[9] == "-" else list(bytes.fromhex(f[9]))}


def cfg_useg(c):
    return c["sep"] is not None and bool(c["grouping"]) and 0 < c["grouping"][0] < 127


def cfg_words(c):
    w = ["dec" if c["base"] == 10 else {16: "hex", 8: "oct", 0: "no basefield"}[c["base"]]]
    if c["width"]:
        w.append("width %d fill chr(%d) %s" % (c["width"], c["fill"], ["left", "right", "internal", "no adjustfield"][c["adjust"]]))
    if not c["skipws"]:
        w.append("noskipws")
    if c["sep"] is not None:
        w.append("numpunct thousands_sep chr(%d) grouping %s" % (c["sep"], c["grouping"]))
    else:
        w.append("classic locale")
    return ", ".join(w)


def cfg_gs(c):
    """the grouping string as the shipped libstdc++ sees it (a NUL byte ends it)"""
    g = list(c["grouping"])
    return g[:g.index(0)] if 0 in g else g


def cfg_class(c):
    """`demanded` when the property demands the round trip under this stream configuration (the Lean
    predicate `Demanded`, design/C07.md), otherwise the first dimension that leaves the class."""
    if c["base"] != 10:
        return "outside:basefield"
    if not c["skipws"]:
        return "outside:noskipws"
    if c["width"] and c["fill"] not in WS:
        return "outside:fill"
    if cfg_useg(c) and (48 <= c["sep"] <= 57 or c["sep"] in WS):
        return "outside:separator"
    return "demanded"


def py_group(digits, sep, grouping):
    """std::__add_grouping"""
    if not grouping or not 0 < grouping[0] < 127:
        return digits
    out, idx = [], 0
    while 0 < grouping[idx] < 127 and len(digits) > grouping[idx]:
        out.insert(0, digits[-grouping[idx]:])
        digits = digits[:-grouping[idx]]
        if idx < len(grouping) - 1:
            idx += 1
    return chr(sep).join([digits] + out)


def adv_word(rng):
    m = rng.below(9)
    if m == 0:
        return rng.choice([0, 1, 9, 10, 99, 100, 999, 1000, 1001, 123456, U64, 1 << 63, 10 ** 19, 10 ** 19 - 1])
    if m == 1:
        k = rng.between(1, 20)
        return min(U64, 10 ** k - rng.below(2))
    if m == 2:
        return rng.below(10 ** rng.between(1, 20)) & U64
    if m <= 4:
        return rng.between(10 ** 19, 1 << 64)
    return rng.next()


def gen_cfg(rng, kind):
    c = {"base": 10, "showbase": rng.below(2), "upper": rng.below(2), "showpos": rng.below(2), "width": 0,
         "fill": 32, "adjust": rng.below(4), "skipws": 1, "sep": None, "grouping": []}
    seps = [44, 46, 39, 95, 59, 58, 47, 34, 42, 97, 120, 88, 45, 43, 101, 126, 127, 1, 160, 255, 102, 70]
    groupings = [[3], [3], [3], [1], [2], [4], [3, 2], [1, 2, 3], [126], [20], [3, 0], [3, 127], [3, 255],
                 [2, 1], [5, 4, 3, 2, 1], [19], [7, 200], [3, 0, 2], [2, 3, 0]]
    if kind in ("group", "any") or (kind == "mix" and rng.below(2)):
        c["sep"] = rng.choice(seps)
        c["grouping"] = rng.choice(groupings) if rng.below(8) else rng.choice([[], [0], [127], [255, 3]])
    if kind in ("pad", "any") or (kind == "mix" and rng.below(2)):
        c["width"] = rng.choice([1, 5, 19, 20, 21, 26, 27, 30, 83, 84, 90, rng.between(1, 100)])
        c["fill"] = rng.choice(WS)
    if kind == "any":            # anything: leaves the demanded class in one or more dimensions
        m = rng.below(6)
        if m == 0:
            c["base"] = rng.choice([16, 16, 8, 0])
        elif m == 1:
            c["skipws"] = 0
        elif m == 2:
            c["width"] = rng.between(2, 60)
            c["fill"] = rng.choice([42, 48, 53, 120, 45, 43, 44, 46, 0, 255])
        elif m == 3:
            c["sep"] = rng.choice(WS + [48, 49, 57])
            c["grouping"] = rng.choice([[3], [1], [3, 2]])
        elif m == 4:
            c["base"] = rng.choice([16, 8, 0])
            c["width"] = rng.between(2, 60)
            c["fill"] = rng.choice([42, 48, 32, 102])
            c["adjust"] = 2
    return c


def gen_cfg_lines(rng, tier, meta=None):
    """round trips under stream configurations the engine does not fix (requests `cfgrt`) and loads of
    well-formed / damaged texts under such configurations (`cfgload`)."""
    meta = {} if meta is None else meta
    big = tier != "quick"
    L = []
    seeds = ["0", "1", "default", str(U64), "2", "4294967295"] + [str(rng.next()) for _ in range(20)]

    def engine():
        m = rng.below(4)
        if m == 0:
            return rng.choice(seeds), rng.choice([0, 1, 2, 3, 5, 100]) if rng.below(2) else rng.below(3000)
        if m == 1:               # every word >= 10^19 (20 digits: the longest text)
            return "st:" + ":".join(str(rng.between(10 ** 19, 1 << 64)) for _ in range(4)), 0
        return "st:" + ":".join(str(adv_word(rng)) for _ in range(4)), rng.choice([0, 0, 1])

    plan = [("plain", 60), ("group", 500), ("pad", 200), ("mix", 300), ("any", 500)]
    for kind, n in plan:
        for _ in range(n if not big else 6 * n):
            c = gen_cfg(rng, kind)
            (a, k), (b, j) = engine(), engine()
            ln = "cfgrt %s %d %s %d %d %s" % (a, k, b, j, rng.choice([1, 8, 64]), cfg_token(c))
            meta[ln] = cfg_class(c)
            L.append(ln)
    # loads under a configuration: the text a conforming writer produces, then damaged
    for _ in range(500 if not big else 4000):
        c = gen_cfg(rng, rng.choice(["group", "group", "mix", "any"]))
        ws = [adv_word(rng) for _ in range(4)]
        fmt = {16: "%x", 8: "%o"}.get(c["base"], "%d")
        toks = [py_group(fmt % w, c["sep"], cfg_gs(c)) if cfg_useg(c) else fmt % w for w in ws]
        m = rng.below(12)
        i = rng.below(4)
        t = toks[i]
        sepc = chr(c["sep"]) if c["sep"] is not None else ","
        if m == 0:
            t = sepc + t
        elif m == 1:
            t = t + sepc
        elif m == 2 and sepc in t:
            t = t.replace(sepc, sepc + sepc, 1)
        elif m == 3 and sepc in t:
            t = t.replace(sepc, "", 1)
        elif m == 4 and sepc in t:
            q = t.index(sepc)
            t = t[:q - 1] + sepc + t[q - 1] + t[q + 1:] if q > 0 else t
        elif m == 5:
            t = rng.choice(["+", "-", "+-", "0", "00", "0x", "0X", "x", ".", " "]) + t
        elif m == 6:
            t = t[:rng.below(len(t) + 1)]
        elif m == 7:
            q = rng.below(len(t))
            t = t[:q] + rng.choice("0123456789abcdefxX,.+- ") + t[q + 1:]
        elif m == 8:
            t = py_group(str(rng.between(1 << 64, 1 << 70)), c["sep"], cfg_gs(c)) if cfg_useg(c) else t + "0"
        elif m == 9:
            t = t + rng.choice(["x", ".", ".5", "e3", "f", "8", sepc + "1"])
        toks[i] = t
        text = rng.choice(["", "", " ", "\n"]) + rng.choice([" ", " ", "\n", "\t", "  "]).join(toks)
        text += rng.choice(["", "", " ", "\n", " 7"])
        ln = "cfgload %s %d %s %s %d" % (rng.choice(seeds), rng.choice([0, 3]), cfg_token(c),
                                         "".join("%02x" % ord(ch) for ch in text) or "-", 2)
        meta[ln] = "load"
        L.append(ln)
    return L


# ---- (c) source scan ----------------------------------------------------------------------------
SCAN = [
    ("random_device", r"std::random_device", "hard"),
    ("rand()", r"(?<![\w:.>])(?:std::)?s?rand\s*\(\s*\)|std::rand\b|\bsrand\s*\(", "hard"),
    ("time()", r"(?<![\w.>])(?:std::|::)?time\s*\(\s*(?:NULL|nullptr|0|&)", "hard"),
    ("getpid/clock()", r"\bgetpid\s*\(|(?<![\w:.>])clock\s*\(\s*\)", "hard"),
    ("unordered container", r"std::unordered_(?:multi)?(?:map|set)", "soft"),
    ("pointer-keyed ordered container", r"std::(?:multi)?(?:map|set)\s*<\s*(?:const\s+)?[\w:]+\s*\*", "soft"),
    ("address as a number", r"uintptr_t|reinterpret_cast<\s*(?:std::)?(?:size_t|u?intptr_t|unsigned long)", "soft"),
    ("thread_local / static mutable state in a draw path", r"\bthread_local\b", "soft"),
    # also textual (template code that no instantiation of the scan TU reaches is invisible to the AST matchers)
    ("threads / tasks / parallel algorithms",
     r"std::j?thread\b|std::async\b|hardware_concurrency|std::execution::|#\s*pragma\s+omp|<execution>|<thread>|<future>", "hard"),
    ("hash / order of addresses", r"std::hash<[^<>]*\*\s*>|std::less<[^<>]*\*\s*>|std::owner_less", "soft"),
]
# occurrences that were read and judged harmless for this property (file, tag)
ALLOW = {
    ("kernel/random.cc", "random_device"),            # random::randomize(): explicit request for a random seed
    ("kernel/analyzer.h", "pointer-keyed ordered container"),   # ordered by opcode (cmp_symbol_ptr), not address
    ("kernel/gp/mep/i_mep.cc", "thread_local / static mutable state in a draw path"),  # scratch buffer of pack()
}


def strip_cxx_comments(src):
    src = re.sub(r"/\*.*?\*/", lambda m: "\n" * m.group(0).count("\n"), src, flags=re.S)
    return re.sub(r"//[^\n]*", "", src)


def source_scan():
    hits = []
    for sub in ("kernel", "utility"):
        for d, dn, fs in os.walk(os.path.join(C.REPO, "src", sub)):
            dn.sort()
            for f in sorted(fs):
                if not f.endswith((".h", ".cc", ".tcc")):
                    continue
                p = os.path.join(d, f)
                rel = os.path.relpath(p, os.path.join(C.REPO, "src"))
                src = strip_cxx_comments(open(p, errors="replace").read())
                for i, ln in enumerate(src.splitlines(), 1):
                    for tag, rx, sev in SCAN:
                        if re.search(rx, ln):
                            hits.append({"file": rel, "line": i, "what": tag, "severity": sev,
                                         "allowed": (rel, tag) in ALLOW, "text": ln.strip()[:120]})
    return hits


# ---- (c1) AST scan: clang-query / clang-tidy over ONE translation unit made of every .cc of src/utility and
#      src/kernel plus the whole-run harness (which instantiates the search / evolution / strategy templates)
AST_QUERIES = [
    ("pointer relational comparison", "hard",
     'binaryOperator(hasAnyOperatorName("<", ">", "<=", ">="), hasLHS(hasType(pointerType())), '
     'hasRHS(hasType(pointerType())), unless(isExpansionInSystemHeader()), unless(isExpansionInFileMatching("/harness/")))'),
    ("mutable object with static or thread storage duration", "hard",
     'varDecl(hasGlobalStorage(), unless(hasType(isConstQualified())), unless(isExpansionInSystemHeader()), '
     'unless(isExpansionInFileMatching("/harness/")))'),
    ("pointer-keyed associative container", "hard",
     'declaratorDecl(hasType(hasUnqualifiedDesugaredType(recordType(hasDeclaration(classTemplateSpecializationDecl('
     'hasAnyName("::std::map", "::std::set", "::std::multimap", "::std::multiset", "::std::unordered_map", '
     '"::std::unordered_set", "::std::unordered_multimap", "::std::unordered_multiset"), '
     'hasTemplateArgument(0, refersToType(pointerType()))))))), unless(isExpansionInSystemHeader()), '
     'unless(isExpansionInFileMatching("/harness/")))'),
    ("hash of a pointer", "hard",
     'cxxOperatorCallExpr(hasOverloadedOperatorName("()"), hasArgument(0, hasType(hasUnqualifiedDesugaredType(recordType('
     'hasDeclaration(classTemplateSpecializationDecl(hasName("::std::hash"), hasTemplateArgument(0, '
     'refersToType(pointerType())))))))), unless(isExpansionInSystemHeader()))'),
    ("pointer converted to an integer", "hard",
     'explicitCastExpr(hasDestinationType(isInteger()), hasSourceExpression(hasType(pointerType())), '
     'unless(isExpansionInSystemHeader()), unless(isExpansionInFileMatching("/harness/")))'),
    ("thread / async", "hard",
     'expr(anyOf(callExpr(callee(functionDecl(hasAnyName("::std::async", "::std::thread::hardware_concurrency")))), '
     'cxxConstructExpr(hasType(hasUnqualifiedDesugaredType(recordType(hasDeclaration(cxxRecordDecl(hasAnyName('
     '"::std::thread", "::std::jthread")))))))), unless(isExpansionInSystemHeader()), '
     'unless(isExpansionInFileMatching("/harness/")))'),
    ("parallel algorithm (execution policy argument)", "hard",
     'callExpr(hasArgument(0, hasType(hasUnqualifiedDesugaredType(recordType(hasDeclaration(cxxRecordDecl('
     'matchesName("::std::execution::.*policy"))))))), unless(isExpansionInSystemHeader()))'),
    # C07-m8 family: the iteration order of a hash container is a function of its bucket array, which clear() keeps
    # and which only grows – a container that outlives one call (static, thread_local, data member) iterates in an
    # order that depends on the history of the thread / object.  Any declaration of such a type is listed.
    ("hash container (iteration order depends on the history of its bucket array)", "hard",
     'declaratorDecl(hasType(qualType(hasCanonicalType(anyOf(qualType(hasDeclaration(classTemplateSpecializationDecl('
     'hasAnyName("::std::unordered_map", "::std::unordered_set", "::std::unordered_multimap", "::std::unordered_multiset")))), '
     'referenceType(pointee(hasDeclaration(classTemplateSpecializationDecl(hasAnyName("::std::unordered_map", '
     '"::std::unordered_set", "::std::unordered_multimap", "::std::unordered_multiset"))))))))), '
     'unless(isExpansionInSystemHeader()), unless(isExpansionInFileMatching("/harness/|/third_party/")))'),
    # C07-m7 family: a constructor that gives a scalar data member (arithmetic, enumeration, pointer) neither a member
    # initialiser nor a default member initialiser: `T x;` leaves it indeterminate, and whatever is not serialised keeps
    # that value after `T x; x.load(...)`.  `= default` constructors here; user-provided ones (bodies included) are
    # clang-tidy's cppcoreguidelines-pro-type-member-init below – both lists are hard.
    ("`= default` constructor leaves a scalar data member without initialiser", "hard",
     'cxxConstructorDecl(isDefaulted(), unless(isImplicit()), '
     'unless(isCopyConstructor()), unless(isMoveConstructor()), ofClass(cxxRecordDecl(forEach(fieldDecl('
     'unless(hasInClassInitializer(anything())), hasType(qualType(anyOf(isInteger(), realFloatingPointType(), '
     'hasCanonicalType(enumType()), hasCanonicalType(pointerType()))))).bind("f")))), unless(hasAnyConstructorInitializer(forField(equalsBoundNode("f")))), '
     'unless(isExpansionInSystemHeader()), unless(isExpansionInFileMatching("/harness/|/third_party/")))'),
    ("randomness / time / process identity outside random::engine", "hard",
     'expr(anyOf(callExpr(callee(functionDecl(hasAnyName("::rand", "::srand", "::random", "::drand48", "::time", "::clock", '
     '"::getpid", "::gettimeofday", "::clock_gettime", "::std::rand", "::std::srand", "::std::time", "::std::clock")))), '
     'cxxConstructExpr(hasType(hasUnqualifiedDesugaredType(recordType(hasDeclaration(cxxRecordDecl(hasName('
     '"::std::random_device")))))))), unless(isExpansionInSystemHeader()), unless(isExpansionInFileMatching("/harness/")))'),
]
# every hit of today's tree, read and judged (key: tag, file, whitespace-normalised source line) -> why harmless
AST_REVIEWED = {
    ("pointer relational comparison", "utility/small_vector.tcc", "for (; size_ < capacity_; ++size_)"):
        "two pointers into the same buffer of one small_vector (loop bound), not an ordering of objects",
    ("mutable object with static or thread storage duration", "kernel/compatibility_patch.h", "static termios oldt, newt;"):
        "terminal mode saved / restored around a run (keyboard polling); never read by the evolution",
    ("mutable object with static or thread storage duration", "kernel/log.h", "static level reporting_level;"):
        "log verbosity: output only",
    ("mutable object with static or thread storage duration", "kernel/log.h", "static std::unique_ptr<std::ostream> stream;"):
        "log file stream: output only",
    ("mutable object with static or thread storage duration", "kernel/log.cc", "log::level log::reporting_level = log::lALL;"):
        "definition of log::reporting_level",
    ("mutable object with static or thread storage duration", "kernel/log.cc", "std::unique_ptr<std::ostream> log::stream = nullptr;"):
        "definition of log::stream",
    ("mutable object with static or thread storage duration", "kernel/gp/symbol.h", "static opcode_t opc_count_;"):
        "process-wide opcode counter: names symbols in creation order – a second problem built in the same process is a "
        "renaming (the reason in-process repetition of i_mep runs is excluded); two processes number alike",
    ("mutable object with static or thread storage duration", "kernel/gp/symbol.cc", "opcode_t symbol::opc_count_(0);"):
        "definition of symbol::opc_count_",
    ("mutable object with static or thread storage duration", "kernel/cache.h", "extern void (*sched_callback)(int);"):
        "VITA_VERIF hook (C15), null unless a harness installs it",
    ("mutable object with static or thread storage duration", "kernel/cache.cc", "void (*verif_hook::sched_callback)(int) = nullptr;"):
        "definition of the VITA_VERIF hook",
    ("mutable object with static or thread storage duration", "kernel/random.h", "extern engine_t engine;"):
        "THE engine of the property: every stochastic choice goes through it, random::seed() resets all of it",
    ("mutable object with static or thread storage duration", "kernel/random.cc", "engine_t engine;"):
        "definition of random::engine",
    ("mutable object with static or thread storage duration", "kernel/gp/mep/i_mep.cc", "thread_local std::vector<std::byte> packed;"):
        "scratch buffer of i_mep::pack(): cleared before every use, no value survives a call",
    ("mutable object with static or thread storage duration", "kernel/gp/src/lambda_f.tcc", "extern std::map<std::string, build_func> factory_;"):
        "registry of lambda builders keyed by class name: filled at start-up, ordered by string",
    ("mutable object with static or thread storage duration", "kernel/gp/src/lambda_f.cc", "std::map<std::string, build_func> factory_;"):
        "definition of the lambda builder registry",
    ("mutable object with static or thread storage duration", "kernel/evaluator.tcc", "static random::engine_t e;"):
        "test_evaluator (random flavour): re-seeded from its argument before every use (`e.seed(dist); return e()`), a "
        "pure function of the argument; not used by any search",
    ("mutable object with static or thread storage duration", "kernel/evolution.tcc", "static unsigned last_run(0);"):
        "log_evolution(): decides whether a blank line separates runs in the statistics files – formatting of a log, "
        "and the transcripts include those files",
    ("`= default` constructor leaves a scalar data member without initialiser", "kernel/individual.h",
     "individual() = default; // unsigned age_;"):
        "protected constructor of the CRTP base: every derived constructor names `individual()` in its initialiser list "
        "(value-initialisation: age_ = 0) except i_ga() / i_de() = default, whose objects are either value-initialised "
        "(`T()`, summary, vector(n)) or `T ind; ind.load(...)` – individual::load assigns age_ (serialised) before any "
        "read; the checkpoint / restart chains run ga / de under valgrind and a painted stack",
    ("pointer-keyed associative container", "kernel/analyzer.h",
     "std::map<const symbol *, sym_counter, cmp_symbol_ptr> sym_counter_;"):
        "ordered by cmp_symbol_ptr = opcode order, not by address",
    ("randomness / time / process identity outside random::engine", "kernel/random.cc", "std::random_device rd;"):
        "random::randomize(): the explicit request for an unpredictable seed; seed() afterwards restores determinism "
        "(exercised by the `mixed` requests)",
}
# cppcoreguidelines-pro-type-member-init findings of today's tree (key: file, message) -> why harmless
UNINIT_REVIEWED = {
    ("kernel/cache.h", "constructor does not initialize these fields: seal"):
        "cache::slot is value-initialised by std::vector<slot>(n) (zeroes `seal`); the implicit constructor is never "
        "used for default-initialisation",
    ("kernel/compatibility_patch.h", "uninitialized record type: 'tv'"): "both fields assigned on the next two lines",
    ("kernel/gp/gene.h", "constructor does not initialize these fields: sym, par"):
        "basic_gene(): placeholder elements of a genome matrix, overwritten before any read (C02 checks well-formedness)",
    ("kernel/gp/gene.tcc", "constructor does not initialize these fields: par"):
        "`par` is meaningful (and read, compared, saved) only when sym->parametric(); init_if_parametric() sets it then",
    ("kernel/gp/mep/interpreter.h", "constructor does not initialize these fields: valid"):
        "elem_ of the interpreter cache: matrix<elem_>(r, c) value-initialises (valid = false)",
    ("kernel/individual.h", "constructor does not initialize these fields: age_"):
        "individual() = default is always reached through value-initialisation (`: individual()` in every derived "
        "constructor, `T()` elsewhere), which zeroes age_; `i_ga x;` would leave it indeterminate – no such use in src/",
    ("utility/matrix.h", "constructor does not initialize these fields: cols_"):
        "delegating constructor matrix() : matrix(0, 0) – cols_ is set by the delegate",
    ("utility/matrix.tcc", "constructor does not initialize these fields: cols_"):
        "delegating constructor: cols_ is set by matrix(rows, cols)",
}


def scan_tu():
    d = os.path.join(C.BUILD, "c07_scan")
    os.makedirs(d, exist_ok=True)
    ccs = []
    for sub in ("utility", "kernel"):
        for dd, dn, fs in os.walk(os.path.join(C.REPO, "src", sub)):
            dn.sort()
            ccs += [os.path.relpath(os.path.join(dd, f), os.path.join(C.REPO, "src")) for f in sorted(fs)
                    if f.endswith(".cc")]
    # utility.cc defines explicit specialisations the kernel sources use: it must come first
    ccs.sort(key=lambda f: (0 if f.startswith("utility/") else 1, f))
    tu = os.path.join(d, "unity.cc")
    txt = "".join('#include "%s"\n' % f for f in ccs) + '#include "%s"\n' % os.path.join(C.ROOT, "harness", "c07_run.cc")
    if not os.path.exists(tu) or open(tu).read() != txt:
        open(tu, "w").write(txt)
    flags = ["--", "-std=c++17", "-w", "-DNDEBUG", "-D" + C.GUARD, "-I" + os.path.join(C.REPO, "src"),
             "-isystem", os.path.join(C.REPO, "src", "third_party"), "-I" + os.path.join(C.ROOT, "harness")]
    return d, tu, flags, len(ccs)


def ast_scan():
    """-> (hits, uninit, error)"""
    d, tu, flags, nfiles = scan_tu()
    src_root = os.path.join(C.REPO, "src") + os.sep
    q = os.path.join(d, "queries.txt")
    with open(q, "w") as f:
        f.write("set output diag\nset bind-root true\nset traversal AsIs\n")
        for _, _, m in AST_QUERIES:
            f.write("match " + m + "\n")
    try:
        rc, so, se = C.sh(["clang-query-14", "-f", q, tu] + flags, timeout=1200)
    except Exception as e:
        return [], [], "clang-query did not finish: %r" % e
    if rc != 0 or " error: " in se or len(re.findall(r"^\d+ match(?:es)?\.$", so, re.M)) != len(AST_QUERIES):
        return [], [], "clang-query failed on the scan translation unit (rc=%d): %s" % (rc, (se + so)[-800:])
    hits, qi, lines = [], 0, so.splitlines()
    seen = set()
    field = None
    for i, ln in enumerate(lines):
        if re.match(r"^\d+ match(?:es)?\.$", ln):
            qi += 1
            continue
        if ln.startswith("Match #"):
            field = None
            continue
        m = re.match(r"^(/.*?):(\d+):(\d+): note: \"f\" binds here", ln)
        if m:
            field = norm_ws(lines[i + 1]) if i + 1 < len(lines) else ""
            continue
        m = re.match(r"^(/.*?):(\d+):(\d+): note: \"root\" binds here", ln)
        if m and qi < len(AST_QUERIES):
            tag, sev, _ = AST_QUERIES[qi]
            path = m.group(1)
            rel = path[len(src_root):] if path.startswith(src_root) else path
            text = norm_ws(lines[i + 1]) if i + 1 < len(lines) else ""
            if field is not None:
                text += " // " + field
            key = (tag, rel, text)
            if (key, int(m.group(2))) in seen:      # one declaration, several template instantiations
                continue
            seen.add((key, int(m.group(2))))
            hits.append({"what": tag, "severity": sev, "file": rel, "line": int(m.group(2)), "text": text[:200],
                         "reviewed": AST_REVIEWED.get(key)})
    try:
        rc, so, se = C.sh(["clang-tidy-14", "-checks=-*,cppcoreguidelines-pro-type-member-init",
                           "-header-filter=.*/src/(kernel|utility)/.*", tu] + flags, timeout=1200)
    except Exception as e:
        return hits, [], "clang-tidy did not finish: %r" % e
    uninit, useen = [], set()
    for m in re.finditer(r"^(/.*?):(\d+):\d+: warning: (.*?) \[cppcoreguidelines-pro-type-member-init\]", so, re.M):
        path = m.group(1)
        if not path.startswith(src_root):
            continue
        key = (path[len(src_root):], m.group(3))
        if (key, m.group(2)) in useen:
            continue
        useen.add((key, m.group(2)))
        uninit.append({"file": key[0], "line": int(m.group(2)), "message": key[1], "reviewed": UNINIT_REVIEWED.get(key)})
    return hits, uninit, None


# ---- (c2) wall-clock / timer sites -----------------------------------------------------------------
CLOCK_RX = r"\btimer\b|chrono::|\bclock\b|\belapsed\b|sleep_for|sleep_until|steady_clock|system_clock|" \
           r"high_resolution_clock|\bnow\s*\(|gettimeofday|clock_gettime|difftime|\bmktime\b|localtime"
# today's sites, each read and classified (see design/C07.md); key = (file, whitespace-normalised text).
# role: "def" the timer class itself, "plumb" declaration/parameter passing, "field" the elapsed field of a
# summary (excluded from the property: wall-clock field), "log" time stamps / messages, "cond" a condition.
CLOCK_SITES = {
    ("kernel/evolution.h", '#include "utility/timer.h"'): "plumb",
    ("kernel/evolution.h", "void print_progress(unsigned, unsigned, bool, timer *) const;"): "plumb",
    ("kernel/evolution.tcc", "bool summary, timer *from_last_msg) const"): "plumb",
    ("kernel/evolution.tcc", "timer measure;"): "plumb",
    ("kernel/evolution.tcc", "timer from_last_msg;"): "plumb",
    ("kernel/evolution.tcc", "if (from_last_msg.elapsed() > std::chrono::seconds(2))"): "cond",
    ("kernel/evolution.tcc", "stats_.elapsed = measure.elapsed();"): "field",
    ("kernel/evolution.tcc", "<< std::chrono::duration<double>(stats_.elapsed).count()"): "log",
    ("kernel/evolution_summary.h", "std::chrono::milliseconds elapsed;"): "field",
    ("kernel/evolution_summary.tcc",
     "summary<T>::summary() : az(), best{T(), model_measurements()}, elapsed(0),"): "field",
    ("kernel/evolution_summary.tcc", "tmp_summary.elapsed = std::chrono::milliseconds(ms);"): "field",
    ("kernel/evolution_summary.tcc",
     "out << elapsed.count() << ' ' << mutations << ' ' << crossovers << ' '"): "field",
    ("kernel/search.tcc", "overall.elapsed += r.elapsed;"): "field",
    ("kernel/search.tcc", 'set_text(e_summary, "elapsed_time", stats.overall.elapsed.count());'): "log",
    ("kernel/log.cc", "const auto tp(std::chrono::system_clock::now());"): "log",
}
# everything executed under a wall-clock condition: (file, condition) -> the controlled statement(s).
# Today: the progress line (printing only; restarts the timer when printing is on) and the poll of the
# keyboard (`.` stops the run: user input, not the clock, decides).
CLOCK_BLOCKS = {
    ("kernel/evolution.tcc", "if (from_last_msg.elapsed() > std::chrono::seconds(2))"):
        "{ print_progress(k, run_count, false, &from_last_msg); stop = term::user_stop(); }",
}


def norm_ws(t):
    return re.sub(r"\s+", " ", t).strip()


def controlled_statement(src, pos):
    """text of the statement controlled by the `if/while (…)` whose condition ends at src[pos-1]"""
    i = pos
    while i < len(src) and src[i].isspace():
        i += 1
    if i < len(src) and src[i] == "{":
        depth, j = 0, i
        while j < len(src):
            if src[j] == "{":
                depth += 1
            elif src[j] == "}":
                depth -= 1
                if depth == 0:
                    return src[i:j + 1]
            j += 1
        return src[i:]
    j = src.find(";", i)
    return src[i:j + 1] if j >= 0 else src[i:]


def clock_scan():
    sites, blocks = [], []
    for sub in ("kernel", "utility"):
        for d, dn, fs in os.walk(os.path.join(C.REPO, "src", sub)):
            dn.sort()
            for f in sorted(fs):
                if not f.endswith((".h", ".cc", ".tcc")):
                    continue
                rel = os.path.relpath(os.path.join(d, f), os.path.join(C.REPO, "src"))
                if rel == "utility/timer.h":          # the definition of `timer` (steady_clock wrapper)
                    continue
                src = strip_cxx_comments(open(os.path.join(d, f), errors="replace").read())
                for i, ln in enumerate(src.splitlines(), 1):
                    if re.search(CLOCK_RX, ln):
                        t = norm_ws(ln)
                        role = CLOCK_SITES.get((rel, t))
                        sites.append({"file": rel, "line": i, "text": t[:140], "role": role or "NEW",
                                      "new": role is None})
                # statements controlled by a condition that mentions the clock
                for m in re.finditer(r"\b(if|while)\s*\(", src):
                    depth, j = 0, m.end() - 1
                    while j < len(src):
                        if src[j] == "(":
                            depth += 1
                        elif src[j] == ")":
                            depth -= 1
                            if depth == 0:
                                break
                        j += 1
                    cond = src[m.start():j + 1]
                    if re.search(CLOCK_RX, cond):
                        body = norm_ws(controlled_statement(src, j + 1))
                        want = CLOCK_BLOCKS.get((rel, norm_ws(cond)))
                        blocks.append({"file": rel, "line": src.count("\n", 0, m.start()) + 1,
                                       "condition": norm_ws(cond), "controls": body[:400],
                                       "reviewed": want == body})
    return sites, blocks


# ---- (b) whole runs -----------------------------------------------------------------------------
# configuration = <kind>-<strategy>[-<validation>]; see harness/c07_run.cc
CONFIGS = ["mep-std", "mep-alps", "mep-std-dss", "mep-std-holdout", "mep-alps-dss", "cls-std", "cls-alps",
           "team-std", "team-alps", "team-std-holdout", "ga-std", "ga-alps", "de"]
REPEATABLE = {"ga-std", "ga-alps", "de"}     # the configurations with a fitness FUNCTION (stall-eval applies)
# in-process repetition (`repeat:<k>`) applies to EVERY configuration: i_mep dumps contain opcodes (numbered by a
# process-wide counter, an in-process second problem is renamed), so the harness compares canonical transcripts
# (symbols by name).  Checkpoint / restart needs a run without validation strategy (one evolution, fixed data).
CKPT_CONFIGS = ["mep-std", "mep-alps", "cls-std", "cls-alps", "team-std", "team-alps", "ga-std", "ga-alps", "de"]
VALGRIND = ["valgrind", "-q", "--error-exitcode=99", "--track-origins=yes"]
STALL_MS = 2300
WORK = os.path.join(C.BUILD, "c07_work")


def gen_params(rng, cfg, inds, gens):
    """A random point of the environment-parameter grid: every parameter that enables a code path of
    search / evolution / the strategies may be present (with a value that keeps the environment valid)."""
    kind = cfg.split("-")[0]
    p = {}

    def maybe(k, vals, prob=0.4):
        if rng.chance(prob):
            p[k] = rng.choice(vals)

    maybe("brood", [1, 2, 3, 4, 6], 0.6)
    maybe("cache", [0, 4, 8, 12, 16], 0.5)
    maybe("elit", [0, 1])
    maybe("pmut", [0, 0.02, 0.1, 0.5, 1.0])
    maybe("pcross", [0, 0.3, 0.9, 1.0])
    maybe("tourn", [t for t in (2, 3, 5, 8) if t <= inds])
    maybe("mate", [2, 5, 20, 100])
    maybe("stuck", [1, 2, 5, 50])
    maybe("runs", [1, 2, 3], 0.5)
    if kind != "de":
        maybe("layers", [1, 2, 3, 5])
        maybe("minind", [2, 3])
    if "alps" in cfg:
        maybe("agegap", [1, 2, 3, 5, 20], 0.7)
        maybe("psame", [0, 0.5, 0.75, 1.0])
        if rng.chance(0.5):               # layers growing: small age gap, room for new layers
            p["agegap"] = rng.choice([1, 2])
            p["layers"] = rng.choice([3, 4, 6])
    if kind in ("mep", "cls", "team"):
        maybe("code", [8, 16, 24, 40])
        if "code" in p:
            maybe("patch", [x for x in (1, 2, 3, 7) if x < p["code"]])
        maybe("thr", [-1000, -5], 0.15)
        if kind == "cls":
            maybe("eva", ["gaussian", "dyn_slot"], 0.6)
        else:
            maybe("eva", ["mae", "rmae", "mse", "count"], 0.5)
    if kind == "team":
        maybe("team", [1, 2, 3, 4], 0.6)
    if "dss" in cfg:
        maybe("dssgap", [1, 2, 3], 0.6)
    if "holdout" in cfg:
        maybe("valpct", [10, 30, 50], 0.6)
    if kind == "de" and rng.chance(0.4):
        p["dewlo"], p["dewhi"] = rng.choice([(0.5, 1.0), (0.1, 0.2), (0.9, 0.9001), (0.0, 2.0)])
    return p


def params_token(p, ser=None, logs=None):
    items = ["%s=%s" % (k, p[k]) for k in sorted(p)]
    if ser:
        items.append("ser=" + ser)
    if logs:
        items.append("logs=" + logs)
    return ",".join(items)


class Proc:
    """one process of the plan; `chain` = processes that must run one after the other (cold, warm, …)"""

    def __init__(self, key, build, exe, noise, mode, env, params, role, ser=None, logs=None, ckpt=None,
                 valgrind=False):
        self.key, self.build, self.exe, self.noise, self.mode, self.env = key, build, exe, noise, mode, env
        self.params, self.role, self.ser, self.logs = params, role, ser, logs
        self.ckpt, self.valgrind = ckpt, valgrind      # checkpoint file (`@CKPT@` in the mode), run under valgrind
        self.rc = self.out = self.err = None
        self.timed_out = False

    def argv(self, ser=None, logs=None, ckpt=None):
        cfg, seed, gens, inds, _ = self.key
        return [cfg, seed, gens, inds, self.noise, self.mode.replace("@CKPT@", ckpt or self.ckpt or "@CKPT@"),
                params_token(self.params, ser or self.ser, logs or self.logs)]

    def describe(self):
        """command line with the scratch paths as placeholders (the replay file recreates them)"""
        return " ".join(str(x) for x in self.argv("@SER@" if self.ser else None, "@LOGS@" if self.logs else None,
                                                  "@CKPT@"))

    def step(self):
        st = {"args": self.describe(), "env": self.env, "build": self.build, "role": self.role}
        if self.valgrind:
            st["valgrind"] = True
        return st


def run_proc(p, timeout):
    if p.logs:
        os.makedirs(p.logs, exist_ok=True)
    try:
        if p.valgrind:
            p.rc, p.out, p.err = C.run_harness(VALGRIND[0], VALGRIND[1:] + [p.exe] + p.argv(), timeout=max(timeout, 1800),
                                               env=p.env)
        else:
            p.rc, p.out, p.err = C.run_harness(p.exe, p.argv(), timeout=timeout, env=p.env)
        p.timed_out = False
    except Exception as e:  # subprocess.TimeoutExpired
        p.rc, p.out, p.err, p.timed_out = 124, "", repr(e)[:300], True
    return p


def first_diff(x, y):
    a, b = x.splitlines(), y.splitlines()
    i = next((i for i, (u, v) in enumerate(zip(a, b)) if u != v), min(len(a), len(b)))
    return i, (a[i][:300] if i < len(a) else "<end>"), (b[i][:300] if i < len(b) else "<end>")


def transcripts(chk, rng, broken):
    import shutil
    exe = C.build_harness("c07_run", "plain")
    exes = [("plain", exe)]
    quick = chk.tier == "quick"
    if not quick:
        exes.append(("asan", C.build_harness("c07_run", "asan")))
    nseeds = 3 if quick else 10
    work = os.path.join(WORK, "%d-%d" % (os.getpid(), chk.seed))
    shutil.rmtree(work, ignore_errors=True)
    os.makedirs(work)
    counter = [0]

    def scratch(name):
        counter[0] += 1
        return os.path.join(work, "%s%d" % (name, counter[0]))

    chains, nstall, ncold = [], 0, 0
    seen_cfg = {}
    stall_cfgs = {"mep-std": 1, "mep-alps": 1, "ga-alps": 1} if quick else {c: 2 for c in CONFIGS}
    for cfg in CONFIGS:
        for _ in range(nseeds):
            seed = rng.below(1 << 31) if rng.below(4) else rng.choice([0, 1])
            gens = rng.between(3, 8) if quick else rng.between(4, 20)
            inds = rng.between(10, 30) if quick else rng.between(10, 60)
            params = gen_params(rng, cfg, inds, gens)
            do_stall = seen_cfg.get(cfg, 0) < stall_cfgs.get(cfg, 0)
            seen_cfg[cfg] = seen_cfg.get(cfg, 0) + 1
            if do_stall:                  # generations must follow the stall: no early stop
                params.pop("stuck", None)
                params.pop("thr", None)
            key = (cfg, seed, gens, inds, params_token(params))
            with_logs = rng.chance(0.3)
            if with_logs:
                key = key[:4] + (key[4] + ",logs=*",)

            def mk(build, bexe, noise, mode, env, role, ser=None):
                return Proc(key, build, bexe, noise, mode, env, params, role, ser=ser,
                            logs=scratch("logs") if with_logs else None)

            for bname, bexe in exes:
                # (1) same arguments, different heap layouts / allocator behaviour / environment sizes
                # (the reference also repeats the execution IN THIS PROCESS after other work – every configuration;
                #  not with statistics files: the second execution would need a second, empty directory)
                chains.append([mk(bname, bexe, 0, "-" if with_logs else "repeat:%d" % rng.below(1 << 30), {},
                                  "reference")])
                chains.append([mk(bname, bexe, rng.next() | 1, "-",
                                  {"MALLOC_PERTURB_": str(rng.between(1, 255)), "VERIF_PAD": "x" * rng.between(1, 5000)},
                                  "heap-noise")])
                if not quick:
                    chains.append([mk(bname, bexe, rng.next() | 1, "-",
                                      {"MALLOC_PERTURB_": str(rng.between(1, 255)), "MALLOC_ARENA_MAX": "1",
                                       "VERIF_PAD2": "y" * rng.between(1, 9000), "LC_ALL": "C"}, "heap-noise")])
                    chains.append([mk(bname, bexe, rng.next() | 1, "-",
                                      {"MALLOC_MMAP_THRESHOLD_": "64", "VERIF_PAD": "z" * rng.between(1, 20000)},
                                      "heap-noise")])
            # (2) COLD execution (serialization file named, absent) then WARM executions (the file the
            #     previous execution left behind): the cache file is not among the things results may depend on
            if params.get("cache", 16) > 0:
                ser = scratch("ser") + ".txt"
                chain = [mk("plain", exe, 0, "-", {}, "cold", ser=ser), mk("plain", exe, 0, "-", {}, "warm", ser=ser)]
                if not quick:
                    chain.append(mk("plain", exe, rng.next() | 1, "-", {"MALLOC_PERTURB_": "77"}, "warm-2", ser=ser))
                chains.append(chain)
                ncold += 1
            # (3) timing perturbation
            if do_stall:
                n = rng.between(0, max(1, gens - 1))
                chains.append([mk("plain", exe, 0, "stall-cb:%d:%d" % (n, STALL_MS), {}, "stalled")])
                nstall += 1
                if cfg in REPEATABLE and (not quick or cfg == "ga-alps"):
                    m = rng.between(1, max(2, inds // 2))
                    chains.append([mk("plain", exe, 0, "stall-eval:%d:%d" % (m, STALL_MS), {}, "stalled")])
                    nstall += 1

    # (4) IN-PROCESS repetition only: longer runs, bigger populations (cheap: one process each)
    nrepeat_only = 0
    for cfg in CONFIGS:
        for _ in range(2 if quick else 6):
            seed, gens, inds = rng.below(1 << 31), rng.between(8, 13), rng.between(24, 41)
            params = gen_params(rng, cfg, inds, gens)
            key = (cfg, seed, gens, inds, params_token(params) + ",repeat-only")
            chains.append([Proc(key, "plain", exe, rng.next() | 1 if rng.chance(0.5) else 0,
                                "repeat:%d" % rng.below(1 << 30), {}, params, "repeat-only")])
            nrepeat_only += 1
    # (5) CHECKPOINT / RESTART: population + summary + random::engine saved after generation g (`ckpt-save`), then
    #     restored into fresh objects by several processes that differ in dead stack content, heap noise and
    #     previous work (`ckpt-load`); some of the restarts under valgrind (uninitialised reads)
    ckpt_chains, nvalgrind = [], 0
    have_valgrind = shutil.which(VALGRIND[0]) is not None
    vg_kinds = set()
    for cfg in CKPT_CONFIGS:
        for _ in range(1 if quick else 4):
            seed, gens, inds = rng.below(1 << 31), rng.between(4, 9) if quick else rng.between(4, 16), rng.between(10, 31)
            params = gen_params(rng, cfg, inds, gens)
            for k in ("stuck", "thr", "runs"):      # one evolution; its stop condition reads the analyzer, which a
                params.pop(k, None)                 # checkpoint does not contain (recomputed every generation)
            g = rng.between(0, gens)
            key = (cfg, seed, gens, inds, params_token(params) + ",ckpt=%d" % g)
            f = scratch("ckpt") + ".txt"

            def ck(noise, mode, env, role, valgrind=False):
                return Proc(key, "plain", exe, noise, mode, env, params, role, ckpt=f, valgrind=valgrind)

            chain = [ck(0, "ckpt-save:%d:@CKPT@" % g, {}, "ckpt-save"),
                     ck(0, "ckpt-load:0:0:@CKPT@", {}, "ckpt-load"),
                     ck(rng.next() | 1, "ckpt-load:165:0:@CKPT@", {"MALLOC_PERTURB_": str(rng.between(1, 255))}, "ckpt-load"),
                     ck(rng.next() | 1, "ckpt-load:%d:1:@CKPT@" % (256 + rng.below(1 << 30)),
                        {"MALLOC_PERTURB_": str(rng.between(1, 255)), "VERIF_PAD": "x" * rng.between(1, 5000)},
                        "ckpt-load")]
            kind = cfg.split("-")[0]
            if have_valgrind and (not quick or kind not in vg_kinds):
                vg_kinds.add(kind)
                chain.append(ck(0, "ckpt-load:%d:0:@CKPT@" % rng.below(256), {}, "ckpt-load-valgrind", valgrind=True))
                nvalgrind += 1
            for q in chain:
                q.ckpt_gen = g
            chains.append(chain)
            ckpt_chains.append(chain)

    def run_chain(chain):
        for p in chain:
            run_proc(p, 300)
        return chain

    with cf.ThreadPoolExecutor(C.NPROC) as ex:
        list(ex.map(run_chain, chains))
    # a time-out is never a verdict: once more, alone, with a generous limit; then it is only a note
    ntimeout = 0
    for chain in chains:
        if any(p.timed_out for p in chain):
            ntimeout += 1
            for p in chain:
                if p.ser and os.path.exists(p.ser):
                    os.remove(p.ser)
                    break
            for p in chain:
                run_proc(p, 1800)
    groups = {}
    for chain in chains:
        for i, p in enumerate(chain):
            p.chain, p.pos = chain, i
            chk.count("run:" + p.key[0])
            chk.count("role:" + p.role)
            chk.seen(("run", p.key, p.build, p.role, p.noise, p.mode, tuple(sorted(p.env))))
            if not p.role.startswith("ckpt"):
                groups.setdefault(p.key, []).append(p)
    ck_stats = judge_checkpoints(chk, ckpt_chains, broken)
    ck_stats["restarts_under_valgrind"] = nvalgrind
    if not have_valgrind:
        chk.notes.append("valgrind is not installed: the restarts were not searched for uninitialised reads")
    chk.cov["checkpoint_restart"] = ck_stats

    def replay_of(a, b):
        """steps that reproduce processes a and b (with the executions that must precede them)"""
        if a.ser and a.chain is b.chain:
            return {"steps": [dict(r.step(), chain=1) for r in b.chain[:max(a.pos, b.pos) + 1]],
                    "compare": [a.pos, b.pos]}
        steps = []
        for q in (a, b):
            pre = q.chain[:q.pos + 1] if q.ser else [q]
            for r in pre:
                st = r.step()
                st["chain"] = id(q.chain) % 100000 if q.ser else None
                steps.append(st)
        ia = len(a.chain[:a.pos + 1]) - 1 if a.ser else 0
        return {"steps": steps, "compare": [ia, len(steps) - 1]}

    ngen = nwarm_loaded = 0
    neffective, nrepeat = [0], [0]
    for key, procs in groups.items():
        cfg = key[0]
        live = []
        for p in procs:
            if p.timed_out:
                chk.notes.append("whole run `%s` did not finish within the time limit twice – inconclusive, no verdict "
                                 "drawn from it" % p.describe())
                chk.count("run-timeout")
                continue
            if p.role.startswith("warm"):
                if "SERIALIZATION-FILE present" in (p.err or ""):
                    nwarm_loaded += 1
                else:
                    broken.append("warm execution `%s` did not find the serialization file of the previous one (%s)"
                                  % (p.describe(), (p.err or "")[-200:]))
            if p.rc == 0 and "STALL-NOT-REACHED" in p.out:
                chk.notes.append("timing perturbation did not happen in `%s` (stall point beyond the end of the run)"
                                 % p.describe())
                chk.count("stall-not-reached")
                p.out = p.out.replace("STALL-NOT-REACHED\n", "")
            elif p.role == "stalled" and p.rc == 0:
                chk.count("stalled_process:" + cfg)
                neffective[0] += 1
            live.append(p)
        if not live:
            continue
        # processes that died: a violation of THIS property only when the executions disagree about dying
        dead = [p for p in live if p.rc != 0]
        if dead and len(dead) == len(live) and len({p.rc for p in dead}) == 1:
            chk.notes.append("configuration `%s` ends with rc=%d in every execution (deterministic failure – not a "
                             "matter of this property): %s" % (dead[0].describe(), dead[0].rc,
                                                              (dead[0].err or "")[-300:].replace("\n", " | ")))
            chk.count("run-fails-deterministically:" + cfg)
            continue
        ref = next(p for p in live if p.rc == 0)
        for p in dead:
            chk.violation("same seed, problem, data and parameters: `%s` (%s, %s) ends with rc=%d while `%s` (%s, %s) "
                          "completes\n%s" % (p.describe(), p.build, p.role, p.rc, ref.describe(), ref.build, ref.role,
                                             (p.err or "")[-1200:]),
                          replay_of(ref, p), tags={"kind": "run", "config": cfg, "clause": "died"})
        ok = [p for p in live if p.rc == 0]
        mains = {}
        for p in ok:
            main, _, rep = p.out.partition("REPEAT ")
            mains[id(p)] = main
            if rep:
                chk.count("in-process-repeat:" + cfg)
                nrepeat[0] += 1
            if rep and not rep.startswith("same"):
                first, _, second = rep.partition("FIRST\n")[2].partition("SECOND\n")
                i, x, y = first_diff(first, second)
                chk.violation("same seed, problem, data and parameters: the execution performed twice in ONE process "
                              "(problem rebuilt from scratch, other work in between; transcripts compared with symbols "
                              "by NAME) differs: `%s` – first differing line %d of the canonical transcript:\n"
                              "  1st: %s\n  2nd: %s" % (p.describe(), i, x, y),
                              {"steps": [p.step()], "compare": [0, 0]},
                              tags={"kind": "run", "config": cfg, "clause": "in-process-repeat",
                                    # DSS with the evaluation cache on: see known_findings.d/C07.json
                                    "path": "dss+cache" if "dss" in cfg and str(p.params.get("cache", 16)) != "0"
                                    else "-"})
            if "GEN " not in main or "FINAL" not in main:
                broken.append("whole-run harness printed no transcript for `%s`: %s"
                              % (p.describe(), (p.out + p.err)[-300:]))
        ok = [p for p in ok if "GEN " in mains[id(p)] and "FINAL" in mains[id(p)]]
        if not ok:
            continue
        ref = ok[0]
        ngen += mains[id(ref)].count("GEN ")
        for p in ok[1:]:
            if mains[id(p)] != mains[id(ref)]:
                i, x, y = first_diff(mains[id(ref)], mains[id(p)])
                why = {"stalled": " (B stalls once for > 2 s: the result depends on the wall clock)",
                       "warm": " (B is a WARM execution: it starts with the serialization file the previous execution "
                               "left behind – the result depends on a cache file)",
                       "warm-2": " (B is a WARM execution: it starts with the serialization file the previous "
                                 "execution left behind – the result depends on a cache file)",
                       "cold": " (B names a serialization file that does not exist yet)"}.get(p.role, "")
                chk.violation("same seed, problem, data and parameters, two PROCESSES print different transcripts%s:\n"
                              "  A: `%s` (%s, %s)\n  B: `%s` (%s, %s, env %s)\n  first differing line %d:\n  A: %s\n  B: %s"
                              % (why, ref.describe(), ref.build, ref.role, p.describe(), p.build, p.role,
                                 sorted(p.env), i, x, y),
                              replay_of(ref, p),
                              tags={"kind": "run", "config": cfg,
                                    "clause": {"stalled": "timing", "warm": "warm-cache", "warm-2": "warm-cache",
                                               "cold": "serialization-file"}.get(p.role, "two-processes")})
                break
    if nstall and not neffective[0]:
        broken.append("no timing perturbation took place (%d stalled processes planned, none reached its stall point)"
                      % nstall)
    chk.cov["timing_perturbation"] = {"stalled_processes": nstall, "effective": neffective[0], "stall_ms": STALL_MS,
                                      "configurations": sorted(stall_cfgs)}
    chk.cov["cold_warm"] = {"chains": ncold, "warm_executions_that_loaded_the_previous_cache": nwarm_loaded}
    chk.cov["in_process_repetition"] = {"executions_repeated_in_process": nrepeat[0], "repeat_only_jobs": nrepeat_only,
                                        "compared": "canonical transcripts (symbols by name, no opcode)",
                                        "between_the_two": "heap noise, 1-3 extra problems (symbols), six searches over "
                                                           "bigger programs (mep, team, cls, ga, de), painted stack"}
    chk.cov["whole_runs"] = {"configurations": CONFIGS, "processes": sum(len(c) for c in chains),
                             "groups": len(groups), "generations_compared": ngen, "builds": [b for b, _ in exes],
                             "chains_rerun_after_a_timeout": ntimeout}
    params_seen = {}
    for key in groups:
        for kv in key[4].split(","):
            if kv:
                params_seen[kv.split("=")[0]] = params_seen.get(kv.split("=")[0], 0) + 1
    chk.cov["parameter_grid"] = params_seen
    if groups:
        k = sorted(groups)[0]
        chk.sample({"run": groups[k][0].describe(), "transcript_bytes": len(groups[k][0].out or ""),
                    "identical_processes": len(groups[k])})
    shutil.rmtree(work, ignore_errors=True)


def ckpt_tail(out, g):
    """the part of an uninterrupted transcript that follows generation g"""
    m = re.search(r"^GEN %d " % (g + 1), out, re.M)
    return out[m.start():] if m else None


def ckpt_fully_serialised(p):
    """Is the saved state (population, summary, engine) the WHOLE state of the evolution?  i_ga / i_de: yes.
    i_mep / team<i_mep>: the self-adaptive crossover flavour of an individual is not serialised (a loaded individual
    has flavour 0), so the continuation legitimately differs from the uninterrupted run – unless no crossover takes
    place (p_cross = 0)."""
    kind = p.key[0].split("-")[0]
    return kind in ("ga", "de") or str(p.params.get("pcross")) == "0"


def judge_checkpoints(chk, ckpt_chains, broken):
    st = {"chains": len(ckpt_chains), "restarts": 0, "restart_pairs_compared": 0, "compared_with_uninterrupted": 0,
          "mirror_of_evolution_run_agrees": 0}

    def steps(chain, upto):
        return [dict(r.step(), chain=1) for r in chain[:upto + 1]]

    for chain in ckpt_chains:
        save, loads = chain[0], chain[1:]
        cfg = save.key[0]
        if any(p.timed_out for p in chain):
            chk.notes.append("checkpoint chain `%s` did not finish within the time limit twice – inconclusive, no verdict "
                             "drawn from it" % save.describe())
            chk.count("run-timeout")
            continue
        if save.rc != 0 or "CHECKPOINT written" not in (save.err or "") or "GEN " not in save.out:
            if all(p.rc == save.rc for p in chain) and save.rc not in (0, 3):
                chk.notes.append("configuration `%s` ends with rc=%d in every execution (deterministic failure – not a "
                                 "matter of this property)" % (save.describe(), save.rc))
                chk.count("run-fails-deterministically:" + cfg)
            else:
                broken.append("checkpoint harness wrote no checkpoint for `%s` (rc=%s): %s"
                              % (save.describe(), save.rc, (save.err or "")[-300:]))
            continue
        if "MIRROR same" in save.err:
            st["mirror_of_evolution_run_agrees"] += 1
        else:
            broken.append("the harness' mirror of evolution<T, ES>::run (selection / recombination / replacement / "
                          "after_generation) no longer produces the transcript of the real evolution::run for `%s` – the "
                          "checkpoint / restart comparison rests on it" % save.describe())
            continue
        good = []
        for p in loads:
            st["restarts"] += 1
            if p.valgrind and p.rc == 99:
                rep = [x for x in (p.err or "").splitlines() if x.startswith("==")]
                what = next((x.split("== ", 1)[-1] for x in rep if "uninitialised" in x or "Invalid" in x), "valgrind error")
                where = [x.split("== ", 1)[-1].strip() for x in rep if re.search(r"\b(at|by) 0x", x)][:4]
                chk.violation("checkpoint / restart: `%s` restores the state `%s` saved after generation %d and continues; "
                              "under valgrind the continuation READS UNINITIALISED MEMORY – %s: %s – what the restarted run "
                              "does next depends on data that is not an input of the computation"
                              % (p.describe(), save.describe(), save.ckpt_gen, what, " <- ".join(where)),
                              {"steps": steps(chain, p.pos), "compare": [p.pos, p.pos]},
                              tags={"kind": "run", "config": cfg, "clause": "uninitialised-read"})
                continue
            if p.rc != 0 or "CHECKPOINT loaded" not in (p.err or ""):
                others = [q for q in loads if q is not p and q.rc == 0]
                if others and p.rc not in (3,):
                    chk.violation("checkpoint / restart: `%s` (env %s) ends with rc=%d while `%s` completes from the same "
                                  "checkpoint\n%s" % (p.describe(), sorted(p.env), p.rc, others[0].describe(),
                                                      (p.err or "")[-1200:]),
                                  {"steps": steps(chain, max(p.pos, others[0].pos)), "compare": [others[0].pos, p.pos]},
                                  tags={"kind": "run", "config": cfg, "clause": "died"})
                else:
                    broken.append("restart `%s` could not load the checkpoint (rc=%s): %s"
                                  % (p.describe(), p.rc, (p.err or "")[-300:]))
                continue
            good.append(p)
        if not good:
            continue
        ref = good[0]
        for p in good[1:]:
            st["restart_pairs_compared"] += 1
            if p.out != ref.out:
                i, x, y = first_diff(ref.out, p.out)
                chk.violation("checkpoint / restart: the same checkpoint (population + summary + random::engine saved by "
                              "`%s` after generation %d) restored by two processes gives different continuations:\n"
                              "  A: `%s` (env %s)\n  B: `%s` (env %s%s)\n  (they differ in dead stack content, heap "
                              "noise and previous work only)\n  first differing line %d:\n  A: %s\n  B: %s"
                              % (save.describe(), save.ckpt_gen, ref.describe(), sorted(ref.env), p.describe(),
                                 sorted(p.env), ", under valgrind" if p.valgrind else "", i, x, y),
                              {"steps": steps(chain, p.pos), "compare": [ref.pos, p.pos]},
                              tags={"kind": "run", "config": cfg, "clause": "checkpoint-restart"})
                break
        else:
            if ckpt_fully_serialised(save):
                tail = ckpt_tail(save.out, save.ckpt_gen)
                st["compared_with_uninterrupted"] += 1
                chk.count("checkpoint-vs-uninterrupted:" + cfg)
                if tail is None:
                    broken.append("no generation %d in the uninterrupted transcript of `%s`"
                                  % (save.ckpt_gen + 1, save.describe()))
                elif tail != ref.out:
                    i, x, y = first_diff(tail, ref.out)
                    chk.violation("checkpoint / restart: the run restored from the state saved after generation %d does "
                                  "not continue like the uninterrupted run (the saved population + summary + engine are "
                                  "the whole state of this evolution):\n  uninterrupted: `%s`\n  restart: `%s`\n  first "
                                  "differing line %d after generation %d:\n  uninterrupted: %s\n  restart: %s"
                                  % (save.ckpt_gen, save.describe(), ref.describe(), i, save.ckpt_gen, x, y),
                                  {"steps": steps(chain, ref.pos), "compare": [0, ref.pos], "tail_after": save.ckpt_gen},
                                  tags={"kind": "run", "config": cfg, "clause": "checkpoint-vs-uninterrupted"})
    return st


def replay_whole_run(chk, r):
    """re-execute the steps of a whole-run finding in a fresh scratch directory and compare the two marked"""
    import shutil
    work = os.path.join(WORK, "replay-%d" % os.getpid())
    shutil.rmtree(work, ignore_errors=True)
    os.makedirs(work)
    outs, sers, nlogs = [], {}, 0
    for st in r["steps"]:
        args = st["args"]
        if "@CKPT@" in args:
            args = args.replace("@CKPT@", os.path.join(work, "ckpt%s.txt" % st.get("chain")))
        if "@SER@" in args:
            args = args.replace("@SER@", sers.setdefault(st.get("chain"), os.path.join(work, "ser%d.txt" % len(sers))))
        if "@LOGS@" in args:
            nlogs += 1
            d = os.path.join(work, "logs%d" % nlogs)
            os.makedirs(d)
            args = args.replace("@LOGS@", d)
        bexe = C.build_harness("c07_run", st.get("build", "plain"))
        try:
            if st.get("valgrind"):
                rc, so, se = C.run_harness(VALGRIND[0], VALGRIND[1:] + [bexe] + args.split(" "), timeout=3600,
                                           env=st.get("env") or None)
            else:
                rc, so, se = C.run_harness(bexe, args.split(" "), timeout=1800, env=st.get("env") or None)
        except Exception as e:
            rc, so, se = 124, "", repr(e)
        outs.append((rc, so.replace("STALL-NOT-REACHED\n", "")))
        chk.seen(("replay", st["args"]))
    i, j = r["compare"]
    a, b = outs[i][1].partition("REPEAT ")[0], outs[j][1].partition("REPEAT ")[0]
    if "tail_after" in r:
        a = ckpt_tail(a, r["tail_after"])
    bad = outs[i][0] != outs[j][0] or outs[i][0] != 0 or "REPEAT different" in outs[i][1] or a != b
    shutil.rmtree(work, ignore_errors=True)
    if bad:
        chk.violation("replayed whole runs still differ / fail: %s" % [s["args"] for s in r["steps"]], r,
                      tags={"kind": "run", "clause": "replay"})


def run(chk, replay=None):
    saved = C.NPROC
    C.NPROC = JOBS
    try:
        return run_(chk, replay)
    finally:
        C.NPROC = saved


def run_(chk, replay=None):
    rng = C.SplitMix(chk.seed)
    broken = []
    scan_pool = cf.ThreadPoolExecutor(1)
    scan_job = None if replay else scan_pool.submit(ast_scan)

    # ---- translator + proofs ----------------------------------------------------------------
    gen = os.path.join(C.LEAN, "Vita", "C07", "Gen.lean")
    info = None
    try:
        info, changed = translate_rng.emit(gen)
        chk.cov["translated"] = info
        chk.cov["gen_changed_vs_committed"] = bool(changed)
        info2, changed2 = translate_rng.emit_code(os.path.join(C.LEAN, "Vita", "C07", "GenCode.lean"),
                                                  info["state_size"])
        chk.cov["translated_code"] = info2
        chk.cov["gencode_changed_vs_committed"] = bool(changed2)
    except Refuse as e:
        broken.append("translator tools/translate_rng.py refuses the current xoshiro256ss.{h,cc}: %s" % e)
        info = None
    drv_ok = False
    if info is not None:
        drv_ok, out = C.lake_build(["c07_driver"])
        if not drv_ok:
            broken.append("c07_driver does not build: " + C.lean_errors(out))
        ok, msg = chk.prove("Vita.C07.Props", ["Vita.C07.Props"])
        if not ok:
            broken.append("theorems of Vita.C07.Props no longer check against the generated operand lists "
                          "/ the translated code of the generator (write=%s read=%s): %s"
                          % (info["write"], info["read"], msg))

    # ---- (a) differential on the generator ---------------------------------------------------
    exe = C.build_harness("c07_rng", "asan", extra_flags=["-fsanitize-recover=undefined"])
    corpus = []
    cdir = os.path.join(C.ROOT, "corpus", "C07")
    if os.path.isdir(cdir):
        for f in sorted(os.listdir(cdir)):
            corpus += [ln.strip() for ln in open(os.path.join(cdir, f)) if ln.strip() and not ln.startswith("#")]
    only_line = None
    if replay:
        r = json.load(open(replay))["replay"]
        only_line = r.get("line")
        if r.get("steps"):             # replay of a whole-run finding: the processes involved, nothing else
            replay_whole_run(chk, r)
            return chk.finish(level="proof", checker_cmd="(replay of a whole-run finding)", rule="replay")
    lines = [only_line] if only_line else corpus + gen_lines(rng, chk.tier) + gen_cfg_lines(rng, chk.tier)

    cpp, deaths = C.run_lines(exe, lines, env={"UBSAN_OPTIONS": "print_stacktrace=0:halt_on_error=0"}, timeout=900)
    died = {}
    for idx, rc, se in deaths:
        died[idx] = (rc, se)
    dl = [("stream " + ln.split(" ", 1)[1]) if ln.startswith("vstream ") else ln for ln in lines]
    dl = ["gen" if ln.startswith("mixed ") else ln for ln in dl]
    # the translated seed / operator() are interpreted on the short streams as well
    gidx = [i for i, ln in enumerate(lines) if ln.startswith("stream ") and int(ln.split()[2]) <= 1000]
    dl += ["g" + lines[i] for i in gidx]
    lean = C.run_driver("c07_driver", dl) if drv_ok else None

    found, ndis = [], 0
    for i, ln in enumerate(lines):
        op = ln.split()[0]
        c = cpp[i] if i < len(cpp) else "skipped"
        chk.seen(ln)
        chk.count("op:" + op)
        if i in died:
            rc, se = died[i]
            why = [x for x in se.splitlines() if "runtime error" in x or "ERROR: AddressSanitizer" in x]
            found.append((len(ln), "`%s`: the harness died (rc=%d) – %s" % (ln, rc, (why or [se[-300:]])[0][:300]),
                          {"line": ln, "stderr": se[-1500:]},
                          {"kind": op, "clause": "sanitizer", "detail": (why or ["?"])[0][-80:]}))
            continue
        if c.startswith(("skipped", "exception", "bad-op")):
            broken.append("harness answered `%s` to `%s`" % (c[:100], ln))
            continue
        # the property's own oracle
        if op == "roundtrip":
            chk.count("roundtrip:" + c.split()[0])
            if c != "same":
                found.append((len(ln), "`%s`: a state written with operator<< and read back with operator>> does "
                              "not continue the same sequence (%s)" % (ln, c), {"line": ln, "cpp": c},
                              {"kind": op, "clause": c.split()[0]}))
        if op == "betd":
            m = re.search(r"lo=(\d+) eq=(\d+) hi=(\d+)", c)
            if m:
                lo, eq, hi = map(int, m.groups())
                chk.count("betd:draws-equal-to-sup", eq)
                chk.count("betd:draws-above-sup", hi)
                if lo:
                    found.append((len(ln), "`%s`: random::between<double> returned %d value(s) below `min`" % (ln, lo),
                                  {"line": ln, "cpp": c}, {"kind": op, "clause": "below-min"}))
        if op in ("sup", "between", "mixed", "supu", "betu64", "inr", "elem", "ring", "betd", "bool") and \
                ("nondet" in c or "range!" in c):
            found.append((len(ln), "`%s`: %s" % (ln, "re-seeding with the same seed gives different draws in the "
                          "same process" if "nondet" in c else "a draw left the requested range"),
                          {"line": ln, "cpp": c}, {"kind": op, "clause": "nondet" if "nondet" in c else "range"}))
        if op == "geq":
            chk.count("geq:" + c)
            if c not in ("equal same4", "different diff4"):
                found.append((len(ln), "`%s`: operator== answers `%s` but the next four numbers are %s (or != is not "
                              "its negation): equality of engines is not equality of their future streams"
                              % (ln, c.split()[0], "the same" if "same4" in c else "different"),
                              {"line": ln, "cpp": c}, {"kind": op, "clause": c}))
        if op == "load":
            chk.count("load:" + c.split()[0])
        if op == "cfgload":
            chk.count("cfgload:" + c.split()[0])
        if op == "cfgrt":
            cls, v = cfg_class(cfg_parse(ln.split()[6])), c.split()[0]
            chk.count("cfgrt:%s:%s" % (cls, v))
            if cls == "demanded" and v != "same":
                try:
                    txt = bytes.fromhex(c.split()[-1]).decode("latin1")
                except ValueError:
                    txt = c.split()[-1]
                found.append((len(ln), "`%s`: a state written with operator<< to a stream (configuration %s: %s) and "
                              "read back with operator>> from the SAME stream does not continue the same sequence "
                              "(%s; text written: %r; words read back: %s)"
                              % (ln, ln.split()[6], cfg_words(cfg_parse(ln.split()[6])), v, txt[:120],
                                 " ".join(c.split()[1:5])),
                              {"line": ln, "cpp": c}, {"kind": op, "clause": v}))
        # model vs code
        if lean is not None and op != "mixed" and i < len(lean):
            l = lean[i]
            same = (l == c) or (l.split()[:1] == ["oob"] and c.split()[:1] == ["oob"])
            if not same:
                ndis += 1
                if ndis <= 5:
                    broken.append("model and code disagree on `%s`: model `%s`, code `%s`" % (ln, l[:200], c[:200]))
        if i % 97 == 0:
            chk.sample({"line": ln, "cpp": c[:160], "model": (lean[i][:160] if lean and i < len(lean) else None)})
    if lean is not None:
        for k, i in enumerate(gidx):
            j = len(lines) + k
            chk.count("op:gstream")
            if j < len(lean) and i < len(cpp) and lean[j] != cpp[i]:
                ndis += 1
                if ndis <= 5:
                    broken.append("translated code and compiled code disagree on `%s`: interpreting the translated "
                                  "seed / operator() gives `%s`, the engine `%s`" % (lines[i], lean[j][:200], cpp[i][:200]))
    chk.cov["model_vs_code_disagreements"] = ndis
    for _, what, rep, tags in sorted(found, key=lambda x: (x[0], x[1])):
        chk.violation(what, rep, tags=tags)

    if not only_line:
        # ---- (c) source scan ---------------------------------------------------------------
        hits = source_scan()
        chk.cov["source_scan"] = hits
        new = [h for h in hits if not h["allowed"]]
        for h in new:
            msg = "source scan: %s at src/%s:%d (`%s`) is not on the reviewed list" % (
                h["what"], h["file"], h["line"], h["text"])
            if h["severity"] == "hard":
                broken.append(msg + " – a source of randomness outside random::engine")
            else:
                chk.notes.append(msg + " – potential address dependence; relying on the transcript comparison")
        hits2, uninit, err = scan_job.result()
        chk.cov["ast_scan"] = hits2
        chk.cov["uninitialised_members_clang_tidy"] = uninit
        if err:
            broken.append("AST scan of src/kernel, src/utility did not run: " + err)
        for h in hits2:
            chk.count("ast-scan:" + h["what"])
            if not h["reviewed"]:
                msg = "AST scan: %s at src/%s:%d (`%s`) is not on the reviewed list (checks/c07.py AST_REVIEWED)" % (
                    h["what"], h["file"], h["line"], h["text"])
                if h["severity"] == "hard":
                    broken.append(msg + " – a possible source of run-to-run differences that no transcript comparison "
                                  "is known to cover")
                else:
                    chk.notes.append(msg)
        for u in uninit:
            if not u["reviewed"]:
                broken.append("clang-tidy cppcoreguidelines-pro-type-member-init: src/%s:%d %s – not on the reviewed list "
                              "(checks/c07.py UNINIT_REVIEWED): a default-initialised object (`T x; x.load(...)`) keeps "
                              "dead stack content in that member unless load / the caller assigns it"
                              % (u["file"], u["line"], u["message"]))
        sites, blocks = clock_scan()
        chk.cov["clock_sites"] = sites
        chk.cov["clock_controlled_code"] = blocks
        for b in blocks:
            if not b["reviewed"]:
                broken.append("code executed under a wall-clock condition changed or is new: src/%s:%d `%s` now controls "
                              "`%s` – not the reviewed block (reviewed: progress line + keyboard poll only)"
                              % (b["file"], b["line"], b["condition"], b["controls"][:300]))
        for st in sites:
            if st["new"]:
                chk.notes.append("clock scan: new wall-clock / timer use at src/%s:%d `%s` (not on the reviewed list in "
                                 "checks/c07.py CLOCK_SITES); relying on the timing-perturbed transcript comparison"
                                 % (st["file"], st["line"], st["text"]))
        # ---- (b) whole runs ----------------------------------------------------------------
        transcripts(chk, rng, broken)

    if broken and not [v for v in chk.violations if not v[2]]:
        for b in broken:
            chk.violation(b, {"broken": b, "searched": "%d generator requests and the whole-run transcripts: no input "
                              "on which two executions differ" % len(lines)}, no_input=True)
    elif broken:
        chk.notes += broken
    return chk.finish(
        level="proof",
        checker_cmd="python3 tools/translate_rng.py && lake build Vita.C07.Props c07_driver && "
                    "lake env lean <#print axioms for every theorem>",
        rule="generator: one evaluation = one request line (stream / save / load / roundtrip / sup / between / mixed) "
             "answered by the compiled code and by the Lean model, compared verbatim; whole runs: one evaluation = one "
             "process, transcripts of processes with equal arguments must be byte-identical, the two executions of an "
             "in-process repetition must have identical canonical transcripts, the restarts of one checkpoint identical "
             "continuations (= the uninterrupted run where the checkpoint is the whole state); distinct = distinct request "
             "line or distinct (configuration, seed, build, mode, environment)",
        trusted=["Lean 4.33 kernel", "tools/translate_rng.py + cxx2lean.py (clang-14 JSON AST -> operand lists)",
                 "Vita.C07.Model: iostream extraction/insertion of std::uint64_t in the classic locale (no sign, no "
                 "grouping)", "Vita.Common.Rng: UInt64 = std::uint64_t wrap-around arithmetic; libstdc++ 12 "
                 "uniform_int_distribution (Lemire) for sup/between",
                 "whole-run determinism is VALIDATED by transcript comparison (partial), not proved",
                 "harness/c07_run.cc: canonical (name-based) transcript; mirror of evolution::run for checkpoint / "
                 "restart (checked against the real run on every chain); valgrind 3.x memcheck",
                 "g++ 12.2, ASan/UBSan, glibc malloc tunables for heap perturbation"])
