"""C08 — models agree with the interpreter and honour the prediction contract.

Lean: Vita/C08/{Model,Lemmas,Props}.lean.  Tie: differential, bit-exact – the real model objects
(reg / dyn_slot / gaussian / binary lambda functions, individuals and teams, wta and majority
voting) built by harness/c08_model.cc from hand-made programs and generated training sets answer
training rows and unseen query rows; the Lean model (hardware doubles, c08_driver) gets the
interpreter's per-member outputs and must produce the same labels, confidence bits, accuracy and
training fitness.  The harness also drives a random copy / assign / move / destroy / serialize
history of every model object under ASan, and every answer is judged by the property's own oracle
in Python.  harness/c08_routes.cc obtains the model through every public ROUTE (each evaluator's
lambdify, constrained_evaluator / evaluator_proxy in front of it, src_search::lambdify with and
without validation data and with each validation strategy, the model behind the summary of
src_search::run) and applies to each the lifetime steps on the ORIGINAL individual (overwritten,
moved from, destroyed) and the comparison with the classifier built from the TRAINING data /
the score of the TRAINING evaluator.
"""
import glob
import json
import math
import os
import struct
import sys
from fractions import Fraction

from vlib import common as C

TMPDIR = os.path.join(C.BUILD, "c08_tmp")
DMAX = 1.7976931348623157e308
DMIN = 2.0 ** -1022
EPS2 = 2.0 * 2.0 ** -52
REG_EVAS = ("mae", "rmae", "mse", "count")
PROGS1 = ["x1", "x1", "x1", "x2", "div", "ln", "add", "sub", "mul", "abs", "neg", "mulbig", "big", "tiny"]


def f2b(x):
    return struct.unpack("<Q", struct.pack("<d", x))[0]


def b2f(n):
    return struct.unpack("<d", struct.pack("<Q", n))[0]


def tok(x):
    if x is None:
        return "u"
    if x != x:
        return "nan"
    return str(f2b(x))


def untok(s):
    if s == "u":
        return None
    if s == "nan":
        return float("nan")
    return b2f(int(s))


class Gen:
    def __init__(self, rng):
        self.r = rng

    def dbl(self, flavour=None):
        r = self.r
        k = flavour if flavour is not None else r.below(10)
        if k <= 2:
            return float(r.between(-20, 21))
        if k == 3:
            return (r.between(-2000000, 2000001)) / 1024.0
        if k == 4:
            while True:
                v = b2f(r.next())
                if math.isfinite(v):
                    return v
        if k == 5:
            return r.choice([1.0, -1.0]) * r.choice([1e200, 1e300, 8e307, 1e308, 1.7e308, DMAX, 1e154, 1e7, 1.0000001e7, 9999999.0])
        if k == 6:
            return r.choice([0.0, -0.0, 5e-324, -5e-324, 1e-320, DMIN, 1e-300, 1e-162, EPS2, EPS2 / 2, -EPS2])
        if k == 7:
            return r.choice([1.0, -1.0]) * math.ldexp(1.0 + r.below(1 << 20) / float(1 << 20), r.between(-40, 41))
        if k == 8:
            return float(r.between(-3, 4)) * 0.25
        return math.tan((r.below(2001) - 1000) / 1000.0 * 1.55)    # spread over the slots of atan

    def prog(self, team):
        r = self.r
        if team:
            m = r.between(1, 6)
            return "t:" + ",".join(r.choice(PROGS1) for _ in range(m))
        return r.choice(PROGS1)

    def inputs(self, style, pu):
        r = self.r
        fl = None if style >= 4 else r.choice([style, None])
        x1 = None if r.chance(pu) else self.dbl(fl)
        x2 = None if r.chance(pu / 2) else self.dbl(fl)
        return x1, x2


def gen_cases(chk, rng):
    g = Gen(rng)
    quick = chk.tier == "quick"
    lines = []
    n = 8000 if quick else 30000
    for i in range(n):
        kind = ["dyn", "gau", "bin", "reg"][i % 4]
        team = rng.chance(0.45)
        comp = "-"
        if team and kind != "reg":
            comp = "mv" if rng.chance(0.4) else "wta"
        prog = g.prog(team)
        xslot = rng.choice([1, 2, 3, 10, 10, 17])
        style = rng.below(7)
        pu = rng.choice([0.0, 0.0, 0.05, 0.3, 1.0])
        k = rng.below(10)
        ntrain = 2 if k == 0 else rng.between(2, 8) if k <= 3 else rng.between(8, 60 if quick else 200)
        ncl = 2 if kind == "bin" else rng.choice([2, 2, 3, 4, 7])
        ntrain = max(ntrain, ncl)
        rows = []
        shape = rng.below(5)     # class distribution
        for j in range(ntrain):
            if j < ncl:
                c = j                                   # every class at least once
            elif shape == 0:
                c = 0                                   # single example for every other class
            elif shape == 1:
                c = rng.below(ncl)
            elif shape == 2:
                c = ncl - 1 if rng.chance(0.9) else rng.below(ncl)
            else:
                c = j % ncl
            x1, x2 = g.inputs(style, pu)
            if shape == 3 and c == 1:
                x1 = None                               # a class whose members are all undefined
            if shape == 4 and c == 0:
                x1, x2 = 3.0, 2.0                       # zero variance class
            if kind == "reg":
                y = g.dbl(style if style < 4 else None)
                if rng.chance(0.4) and x1 is not None:
                    y = x1
                rows.append((tok(y), x1, x2))
            else:
                rows.append((str(c), x1, x2))
        for j in range(len(rows) - 1, 0, -1):
            k2 = rng.below(j + 1)
            rows[j], rows[k2] = rows[k2], rows[j]
        qs = []
        for j in range(rng.between(1, 12)):
            if rng.chance(0.3) and kind != "reg":
                q = rows[rng.below(len(rows))]
                qs.append((q[1], q[2]))
            elif rng.chance(0.3):
                qs.append((g.dbl(rng.choice([4, 5, 6])), g.dbl(rng.choice([4, 5, 6]))))
            else:
                qs.append(g.inputs(rng.below(7), rng.choice([0.0, 0.2])))
        if kind != "reg" and rng.chance(0.04):
            qs.append((float("nan"), 1.0))            # robustness probe (outside the property)
            if rng.chance(0.5):
                y0, _, b0 = rows[0]
                rows[0] = (y0, float("nan"), b0)
        line = (f"{kind} {comp} {xslot} {prog} {rng.below(1 << 30)} {ntrain} " +
                " ".join(f"{y} {tok(a)} {tok(b)}" for y, a, b in rows) +
                f" {len(qs)} " + " ".join(f"{tok(a)} {tok(b)}" for a, b in qs))
        lines.append(line)
    for v in [0.0, -0.0, 1.0, -1.0, 1e308, -1e308, 5e-324, 0.5, 1e7]:
        for mx in (1, 19, 169):
            lines.append(f"disc {tok(v)} {mx}")
    for _ in range(300 if quick else 5000):
        lines.append(f"disc {tok(g.dbl())} {rng.choice([1, 3, 19, 29, 169, 1000])}")
    return lines


def gen_routes(chk, rng):
    """models obtained through every public route (see harness/c08_routes.cc)"""
    g = Gen(rng)
    quick = chk.tier == "quick"
    lines = []
    n = 1300 if quick else 6000
    for i in range(n):
        eva = ["mae", "dyn", "gau", "rmae", "bin", "mse", "gau", "count", "dyn"][i % 9]
        reg = eva in REG_EVAS
        team = rng.chance(0.35)
        prog = g.prog(team)
        prog2 = g.prog(team)
        while prog2 == prog:
            prog2 = g.prog(team)
        mode = rng.choice(["direct", "direct", "constrained", "search", "search", "search", "run", "run"])
        validator = rng.choice(["asis", "asis", "holdout", "dss"])
        cache = rng.choice([0, 6, 16])
        xslot = rng.choice([1, 2, 3, 10])
        ncl = 0 if reg else 2 if eva == "bin" else rng.choice([2, 2, 3, 4])
        style = rng.below(7)
        pu = rng.choice([0.0, 0.0, 0.05, 0.3])

        def rows(k, every_class):
            out = []
            for j in range(k):
                x1, x2 = g.inputs(style, pu)
                if reg:
                    y = g.dbl(style if style < 4 else None)
                    if rng.chance(0.4) and x1 is not None:
                        y = x1
                    out.append((tok(y), x1, x2))
                else:
                    c = j if (every_class and j < ncl) else rng.below(ncl)
                    out.append((str(c), x1, x2))
            for j in range(len(out) - 1, 0, -1):
                k2 = rng.below(j + 1)
                out[j], out[k2] = out[k2], out[j]
            return out
        ntrain = max(rng.between(3, 30 if quick else 80), ncl + 1)
        tr = rows(ntrain, True)
        va = [] if rng.chance(0.35) else rows(max(rng.between(2, 14), ncl), False)
        qs = []
        for j in range(rng.between(1, 8)):
            if rng.chance(0.3):
                qs.append((g.dbl(rng.choice([4, 5, 6])), g.dbl(rng.choice([4, 5, 6]))))
            else:
                qs.append(g.inputs(rng.below(7), rng.choice([0.0, 0.2])))
        f = lambda rs: f"{len(rs)} " + " ".join(f"{y} {tok(a)} {tok(b)}" for y, a, b in rs)
        lines.append(f"route {eva} {xslot} {prog} {prog2} {validator} {mode} {cache} {rng.below(1 << 30)} "
                     f"{f(tr)} {f(va)} {len(qs)} " + " ".join(f"{tok(a)} {tok(b)}" for a, b in qs))
    return lines


# ---------------------------------------------------------------------------

class Parsed:
    pass


def parse(line, cpp):
    """split a case line and the harness answer into fields (None if the answer is not `ok`)"""
    t = line.split()
    c = cpp.split()
    if not c or c[0] != "ok":
        return None
    p = Parsed()
    p.route = None
    p.extra = {}
    if t[0] == "route":
        p.eva, p.xslot, p.prog = t[1], int(t[2]), t[3]
        p.kind = "reg" if p.eva in REG_EVAS else p.eva
        p.comp = "wta" if (p.prog.startswith("t:") and p.kind != "reg") else "-"
        p.route = {"route": t[6], "validator": t[5], "cache": int(t[7]), "eva": p.eva}
        p.ntrain = int(c[c.index("nt") + 1])
        p.nq = int(c[c.index("nq") + 1])
        p.ys = []
        if p.kind == "reg":
            yi = c.index("ys")
            p.ys = c[yi + 1:yi + 1 + p.ntrain]
        for key in ("sacc", "racc", "tfile"):
            if key in c:
                p.extra[key] = c[c.index(key) + 1]
    else:
        p.kind, p.comp, p.xslot, p.prog = t[0], t[1], int(t[2]), t[3]
        p.eva = "mae" if p.kind == "reg" else p.kind
        p.ntrain = int(t[5])
        p.ys = [t[6 + 3 * i] for i in range(p.ntrain)]
        qat = 6 + 3 * p.ntrain
        p.nq = int(t[qat])
    p.n = p.ntrain + p.nq
    p.m = int(c[2])
    mi = c.index("mem")
    p.mem = c[mi + 1:mi + 1 + p.m * p.n]
    ci = c.index("classes")
    p.labels = c[c.index("labels") + 1:ci] if "labels" in c[:ci] else []
    p.classes = int(c[ci + 1])
    ai = c.index("ans")
    acc_i = c.index("acc", ai)
    p.ans = [x for x in c[ai + 1:acc_i] if x != "MISMATCH"]
    p.acc = c[acc_i + 1]
    p.fit = c[c.index("fit", acc_i) + 1]
    hi = c.index("life" if p.route else "hist", acc_i)
    p.hist = " ".join(c[hi + 1:])
    p.flags = [x for x in c if x in ("MISMATCH", "LAMBDIFY-DIFF", "LAMBDIFY-NULL", "ROUTE-DIFF", "ROUTE-NULL", "ROUTE-TYPE")]
    return p


def lean_request(line, cpp):
    if line.startswith("disc "):
        return line
    p = parse(line, cpp)
    if p is None:
        return None
    if p.ntrain == 0 or "ROUTE-NULL" in p.flags:
        return None          # a model fitted on no example at all: left to the oracle
    if p.kind == "reg":
        return f"regf {p.eva} {'t' if p.prog.startswith('t:') else 'i'} {p.m} {p.ntrain} {p.nq} " + " ".join(p.ys + p.mem)
    return f"{p.kind} {p.comp} {p.classes} {p.xslot} {p.m} {p.ntrain} {p.nq} " + " ".join(p.labels + p.mem)


def cpp_canon(line, cpp):
    if line.startswith("disc "):
        return cpp.strip()
    p = parse(line, cpp)
    if p is None:
        return cpp
    return "ans " + " ".join(p.ans) + " acc " + p.acc + " fit " + p.fit


# ---------------------------------------------------------------------------
# reference implementation of the DOCUMENTED rules in plain Python doubles (independent of Lean):
# used by the oracle so that a deviation comes with a concrete failing input
# ---------------------------------------------------------------------------

def fma(a, b, c):
    """correctly rounded a*b+c (exact rational arithmetic, one rounding)"""
    if not (math.isfinite(a) and math.isfinite(b) and math.isfinite(c)):
        return a * b + c
    return float(Fraction(a) * Fraction(b) + Fraction(c))


def c_round(x):
    """C's round(): half away from zero"""
    if not math.isfinite(x):
        return x
    a = abs(x)
    if a >= 4503599627370496.0:
        return x
    f = float(math.floor(a))
    if a - f >= 0.5:          # exact: a and f are within one unit
        f += 1.0
    return math.copysign(f, x)


def ref_disc(x, mx):
    return int(c_round(fma(float(mx), fma(math.atan(x), 0.31830988618, 0.5), 0.0)))


def ref_dyn_build(classes, xslot, train):
    ns = classes * xslot
    mat = [[0] * classes for _ in range(ns)]

    def slot(o):
        if o is None:
            return ns - 1
        w = ref_disc(o, ns - 1)
        return ns - 1 if w >= ns else w
    for o, l in train:
        mat[slot(o)][l] += 1
    cls = []
    for row in mat:
        best = 0
        for j in range(1, classes):
            if row[j] >= row[best]:
                best = j
        cls.append(best if row[best] else classes)
    for i in range(ns):
        if cls[i] == classes:
            if i and cls[i - 1] != classes:
                cls[i] = cls[i - 1]
            elif i + 1 < ns and cls[i + 1] != classes:
                cls[i] = cls[i + 1]
            else:
                cls[i] = 0

    def tag(o):
        s = slot(o)
        total = sum(mat[s])
        return cls[s], (0.5 if not total else mat[s][cls[s]] / total)
    return tag


def ref_gau_build(classes, train):
    cnt = [0] * classes
    mean = [0.0] * classes
    m2 = [0.0] * classes
    for o, l in train:
        v = 0.0 if o is None else o
        v = 1e7 if v > 1e7 else (-1e7 if v < -1e7 else v)
        if not cnt[l]:
            mean[l] = v
        cnt[l] += 1
        delta = v - mean[l]
        mean[l] += delta / cnt[l]
        t = delta * (v - mean[l])
        m2[l] = m2[l] + t if cnt[l] > 1 else t

    def tag(o):
        x = 0.0 if o is None else o
        val, sm, best = 0.0, 0.0, 0
        for i in range(classes):
            dist = abs(x - mean[i])
            var = (m2[i] / cnt[i]) if cnt[i] else float("nan")
            if abs(var) < EPS2:
                p = 1.0 if abs(dist) < EPS2 else 0.0
            else:
                try:
                    q = -dist * dist / var
                except (OverflowError, ZeroDivisionError):
                    q = float("nan")
                try:
                    p = math.exp(q)
                except OverflowError:
                    p = float("inf")
            if p > val:
                val, best = p, i
            sm += p
        return best, (val / sm if sm > 0.0 else 0.0)
    return tag


def ref_bin_tag(o):
    v = 0.0 if o is None else o
    return (1 if v > 0.0 else 0), abs(v)


def ref_predict(p, mem):
    """labels / confidences of all rows according to the documented rules"""
    lab = [int(x) for x in p.labels]
    taggers = []
    for k in range(p.m):
        train = list(zip(mem[k][:p.ntrain], lab))
        if p.kind == "dyn":
            taggers.append(ref_dyn_build(p.classes, p.xslot, train))
        elif p.kind == "gau":
            taggers.append(ref_gau_build(p.classes, train))
        else:
            taggers.append(ref_bin_tag)
    res = []
    for i in range(p.n):
        tags = [taggers[k](mem[k][i]) for k in range(p.m)]
        if p.comp == "-":
            res.append(tags[0])
        elif p.comp == "wta":
            best = tags[0]
            for tg in tags[1:]:
                if tg[1] > best[1]:
                    best = tg
            res.append(best)
        else:
            votes = [0] * p.classes
            for tg in tags:
                votes[tg[0]] += 1
            mx = 0
            for j in range(1, p.classes):
                if votes[j] > votes[mx]:
                    mx = j
            res.append((mx, votes[mx] / len(tags)))
    return res


def ref_err(eva, a, t):
    """the four documented error functors of the sum-of-errors evaluators (a = model value or None)"""
    pen = DMAX / 100.0
    if eva == "mae":
        if a is None:
            return pen
        e = abs(a - t)
        return e if math.isfinite(e) else pen
    if eva == "mse":
        if a is None:
            return pen
        d = a - t
        try:
            e = d * d
        except OverflowError:
            e = float("inf")
        return e if math.isfinite(e) else pen
    if eva == "count":
        return 0.0 if (a is not None and abs(a - t) < EPS2) else 1.0
    if a is None:
        return 200.0
    delta = abs(t - a)
    if delta <= 10.0 * DMIN:
        return 0.0
    sm = abs(a) + abs(t)
    try:
        e = 200.0 * delta / sm
    except (OverflowError, ZeroDivisionError):
        e = float("nan")
    if math.isfinite(sm) and math.isfinite(e):
        return e
    den = abs(a) / 2.0 + abs(t) / 2.0
    try:
        e2 = 100.0 * (delta / den)
    except (OverflowError, ZeroDivisionError):
        e2 = float("nan")
    return e2 if e2 <= 200.0 else 200.0


def ref_reg_fitness(eva, vals, targets):
    avg, n = 0.0, 0.0
    for a, t in zip(vals, targets):
        n += 1.0
        avg += (ref_err(eva, a, t) - avg) / n
    return -avg


def oracle(line, cpp):
    """the property itself, judged on the harness answer alone"""
    bad = []
    if line.startswith("disc "):
        t = line.split()
        try:
            v = int(cpp)
        except ValueError:
            return [("discretization answered " + cpp, {"model": "discretization", "kind": "range"})]
        if not (0 <= v <= int(t[2])):
            bad.append((f"discretization({untok(t[1])!r}, {t[2]}) = {v} is outside [0, max]",
                        {"model": "discretization", "kind": "range"}))
        return bad
    p = parse(line, cpp)
    if p is None:
        return bad
    tags = {"model": p.kind, "team": p.m > 1 or p.prog.startswith("t:"), "comp": p.comp}
    via = ""
    if p.route:
        tags.update(route=p.route["route"], validator=p.route["validator"], eva=p.route["eva"])
        via = f" obtained through route `{p.route['route']}` (evaluator {p.route['eva']}, validation strategy " \
              f"{p.route['validator']}, cache_size {p.route['cache']})"
        if "ROUTE-NULL" in p.flags:
            return [(f"{p.kind} model{via}: the route returned no model", dict(tags, kind="route-null"))]
        if p.hist.startswith("DIFF"):
            bad.append((f"{p.kind} model{via}: its predictions changed {p.hist[5:]} (the model must own its individual)",
                        dict(tags, kind="lifetime")))
        if p.ntrain == 0 and p.kind in ("dyn", "gau"):     # reg / bin models do not depend on the training data
            bad.append((f"{p.kind} model{via}: after the run the training set is EMPTY, the model handed out (and the "
                        f"accuracy stored in the summary) belongs to a classifier fitted on no example at all",
                        dict(tags, kind="empty-training")))
        if "sacc" in p.extra and p.extra.get("racc") not in (None, "-") and p.extra["sacc"] != p.extra["racc"]:
            bad.append((f"{p.kind} model{via}: the summary reports accuracy {untok(p.extra['sacc'])!r}, the model built from "
                        f"the individual and the training set scores {untok(p.extra['racc'])!r} on the same examples",
                        dict(tags, kind="summary-accuracy")))
        if p.extra.get("tfile") == "DIFF":
            bad.append((f"{p.kind} model{via}: the predictions written to the test file differ from those of the model "
                        f"built from the best individual and the training set", dict(tags, kind="test-file")))
        if p.ntrain == 0:
            return bad
    elif not p.hist.startswith("ok"):
        bad.append((f"{p.kind} model: predictions changed along a copy/assign/move/destroy/serialize history: {p.hist}",
                    dict(tags, kind="history")))
    for fl in p.flags:
        if fl == "ROUTE-TYPE":
            continue      # structural (reported as a broken tie when nothing concrete fails)
        bad.append((f"{p.kind} model{via}: {fl} (operator() vs tag(); the evaluator's lambdify() model / the route's model "
                    f"differs from the model constructed directly from the individual and the training set)",
                    dict(tags, kind=fl.lower())))
    mem = [[untok(x) for x in p.mem[k * p.n:(k + 1) * p.n]] for k in range(p.m)]
    if p.kind == "reg":
        vals = [untok(x) for x in p.ans]
        for i in range(p.n):
            outs = [mem[k][i] for k in range(p.m)]
            if not p.prog.startswith("t:"):
                if tok(vals[i]) != tok(outs[0]):
                    bad.append((f"reg model answers {vals[i]!r}, the interpreter yields {outs[0]!r} (row {i})",
                                dict(tags, kind="interp")))
                    break
                continue
            dfd = [o for o in outs if o is not None]
            if vals[i] is not None and not math.isfinite(vals[i]):
                bad.append((f"team reg model returns the non-finite value {vals[i]!r} for member outputs {outs!r}",
                            dict(tags, kind="nonfinite")))
                break
            if not dfd:
                if vals[i] is not None:
                    bad.append((f"team reg model answers {vals[i]!r} although no member has a value", dict(tags, kind="mean")))
                    break
                continue
            if vals[i] is None:
                # allowed only when the running mean itself overflows (documented limitation)
                avg, cnt, ovf = 0.0, 0.0, False
                for v in dfd:
                    cnt += 1.0
                    avg += (v - avg) / cnt
                    if not math.isfinite(avg):
                        ovf = True
                        break
                if not ovf:
                    bad.append((f"team reg model has no value although members yield {outs!r}", dict(tags, kind="mean")))
                    break
                continue
            mean = sum(Fraction(v) for v in dfd) / len(dfd)
            scale = max(abs(v) for v in dfd)
            if abs(Fraction(vals[i]) - mean) > Fraction(1e-9) * Fraction(scale) + Fraction(1e-300):
                bad.append((f"team reg model answers {vals[i]!r}, the mean of the defined outputs {dfd!r} is {float(mean)!r}",
                            dict(tags, kind="mean")))
                break
        # accuracy: fraction of training rows with a value within issmall of the target
        tg = [untok(y) for y in p.ys]
        ok = sum(1 for i in range(p.ntrain) if vals[i] is not None and abs(vals[i] - tg[i]) < EPS2)
        if tok(ok / p.ntrain) != p.acc:
            bad.append((f"reg model{via}: accuracy {untok(p.acc)!r}, but {ok} of {p.ntrain} rows match", dict(tags, kind="accuracy")))
        if p.fit not in ("-", "nan") and not p.fit.startswith("size"):
            # the same function the TRAINING evaluator scored: its fitness recomputed from the model's answers
            want = ref_reg_fitness(p.eva, vals[:p.ntrain], tg)
            fit = untok(p.fit)
            if not (abs(fit - want) <= 1e-9 * max(1.0, abs(want))):
                bad.append((f"{p.eva} evaluator scored {fit!r} on the training set, the model{via} is worth {want!r}",
                            dict(tags, kind="evaluator")))
        return bad
    lab = [int(x) for x in p.labels]
    al = [int(p.ans[2 * i]) for i in range(p.n)]
    sure = [untok(p.ans[2 * i + 1]) for i in range(p.n)]
    has_nan = any(x == "nan" for x in p.mem)
    if has_nan:
        # NaN inputs are outside the property's quantifier: robustness probe only (no crash,
        # an existing class)
        for i in range(p.n):
            if al[i] >= p.classes:
                bad.append((f"{p.kind} model names class {al[i]} but only {p.classes} classes exist (NaN input, row {i})",
                            dict(tags, kind="label")))
                break
        return bad
    try:
        want = ref_predict(p, mem)
    except (ValueError, OverflowError, ZeroDivisionError, IndexError) as e:   # reference failed: say so
        want = None
        bad.append((f"reference implementation failed: {e!r}", dict(tags, kind="reference")))
    if want is not None:
        for i in range(p.n):
            wl, ws = want[i]
            if wl != al[i] or not (abs(ws - sure[i]) <= 1e-9 * max(1.0, abs(ws)) or (ws != ws and sure[i] != sure[i])):
                bad.append((f"{p.kind} model ({p.comp}) answers class {al[i]} / confidence {sure[i]!r} on row {i}; "
                            f"the documented rule gives class {wl} / confidence {ws!r}", dict(tags, kind="rule")))
                break
    for i in range(p.n):
        if al[i] >= p.classes:
            bad.append((f"{p.kind} model names class {al[i]} but only {p.classes} classes exist (row {i})",
                        dict(tags, kind="label")))
            break
    for i in range(p.n):
        s = sure[i]
        if s != s or s < 0 or (p.kind != "bin" and s > 1):
            bad.append((f"{p.kind} model: confidence {s!r} outside the documented range (row {i})",
                        dict(tags, kind="confidence")))
            break
    ok = sum(1 for i in range(p.ntrain) if al[i] == lab[i])
    if tok(ok / p.ntrain) != p.acc:
        bad.append((f"{p.kind} model: accuracy {untok(p.acc)!r}, but {ok} of {p.ntrain} training rows are predicted right",
                    dict(tags, kind="accuracy")))
    if p.fit != "-":
        fit = untok(p.fit) if not p.fit.startswith("size") else float("nan")
        wrong = p.ntrain - ok
        if p.kind in ("dyn", "bin"):
            if fit != -float(wrong):
                bad.append((f"{p.kind} evaluator scored {fit!r}, this model mislabels {wrong} training rows",
                            dict(tags, kind="evaluator")))
        else:
            want = math.fsum((-1.0 if al[i] != lab[i] else (sure[i] - 1.0) / (p.classes - 1)) for i in range(p.ntrain))
            if not (abs(fit - want) <= 1e-9 * max(1.0, abs(want))):
                bad.append((f"gaussian evaluator scored {fit!r}, this model's tags give {want!r}", dict(tags, kind="evaluator")))
    return bad


def exe_for(exes, line):
    return exes[1] if line.startswith("route ") else exes[0]


def run_h(exe, lines):
    return C.run_lines(exe, lines, env={"C08_TMPDIR": TMPDIR})


def shrink(exe, line, sig):
    """drop training rows / validation rows / queries while the oracle still reports the same kind of failure"""
    t = line.split()
    if t[0] == "disc":
        return line
    # layout: head tokens, then groups of <count> <rows of `w` tokens>
    if t[0] == "route":
        nhead, widths, minrows = 9, [3, 3, 2], [2, 0, 0]
    else:
        nhead, widths, minrows = 5, [3, 2], [2, 0]
    head = t[:nhead]
    groups, at = [], nhead
    for w in widths:
        k = int(t[at])
        groups.append([t[at + 1 + w * i:at + 1 + w * (i + 1)] for i in range(k)])
        at += 1 + w * k
    is_reg = (t[0] == "reg") or (t[0] == "route" and t[1] in REG_EVAS)

    def mk(gs):
        out = list(head)
        for g in gs:
            out.append(str(len(g)))
            out += [x for r in g for x in r]
        return " ".join(out)

    def fails(l, a):
        if a.startswith("died"):
            return sig[1] in ("asan", "ubsan", "crash")
        return any((tg.get("model"), tg.get("kind")) == sig for _, tg in oracle(l, a))

    for which in range(len(groups)):
        items = groups[which]
        chunk = max(1, len(items) // 2)
        rounds = 0
        while chunk >= 1 and rounds < 30 and len(items) > minrows[which]:
            rounds += 1
            cands = []
            for s0 in range(0, len(items), chunk):
                it = items[:s0] + items[s0 + chunk:]
                if which == 0 and (len(it) < 2 or (not is_reg and len({r[0] for r in it}) < 2)):
                    continue
                cands.append(it)
            if not cands:
                chunk //= 2
                continue
            ls = [mk(groups[:which] + [it] + groups[which + 1:]) for it in cands]
            hit = None
            if sig[1] in ("asan", "ubsan", "crash"):
                for i, l in enumerate(ls):       # a dying harness: one candidate per process
                    a, d = run_h(exe, [l])
                    if d:
                        hit = cands[i]
                        break
            else:
                cpp, _ = run_h(exe, ls)
                for i, l in enumerate(ls):
                    if i < len(cpp) and fails(l, cpp[i]):
                        hit = cands[i]
                        break
            if hit is None:
                if chunk == 1:
                    break
                chunk //= 2
            else:
                items = hit
                groups[which] = hit
                chunk = min(chunk, max(1, len(items) // 2))
    return mk(groups)


def regenerate(broken):
    """lean/Vita/C08/GenStorage.lean from the clang AST of the current tree (cached by tree hash)"""
    import hashlib
    gen = os.path.join(C.LEAN, "Vita", "C08", "GenStorage.lean")
    tool = os.path.join(C.ROOT, "tools", "translate_c08_storage.py")
    tu = os.path.join(C.ROOT, "tools", "tu", "c08_storage_tu.cc")
    key = C.repo_tree_hash(open(tool).read() + open(tu).read() + open(os.path.join(C.ROOT, "tools", "cxx2lean.py")).read())
    stamp = os.path.join(C.BUILD, "c08_gen.stamp")
    if os.path.exists(stamp) and os.path.exists(gen):
        old = open(stamp).read().split("\n")
        if len(old) == 2 and old[0] == key and old[1] == hashlib.sha256(open(gen, "rb").read()).hexdigest():
            return
    rc, so, se = C.sh([sys.executable, tool])
    if rc != 0:
        broken.append("the storage translator refuses the current source (the special member functions of "
                      "reg_lambda_f_storage / a lambdify have a shape the lifetime model does not cover): " + se.strip()[-600:])
        if os.path.exists(stamp):
            os.remove(stamp)
        return
    os.makedirs(C.BUILD, exist_ok=True)
    with open(stamp, "w") as f:
        f.write(key + "\n" + hashlib.sha256(open(gen, "rb").read()).hexdigest())


def run(chk, replay=None):
    rng = C.SplitMix(chk.seed)
    broken = []
    regenerate(broken)
    ok, out = C.lake_build(["c08_driver"])
    drv_ok = ok
    if not ok:
        broken.append("the model / driver no longer builds: " + C.lean_errors(out))
    ok, msg = chk.prove("Vita.C08.Props", ["Vita.C08.Props"])
    if not ok:
        broken.append("theorems of Vita.C08.Props no longer check: " + msg)

    import concurrent.futures as cf
    os.makedirs(TMPDIR, exist_ok=True)
    C.build_vita("asan")
    with cf.ThreadPoolExecutor(2) as ex:
        exes = list(ex.map(lambda n: C.build_harness(n, "asan"), ["c08_model", "c08_routes"]))

    lines = []
    if replay:
        r = json.load(open(replay))
        lines.append(r["replay"]["line"])
    else:
        for f in sorted(glob.glob(os.path.join(C.ROOT, "corpus", "C08", "*.lines"))):
            for ln in open(f):
                ln = ln.strip()
                if ln and not ln.startswith("#"):
                    lines.append(ln)
        chk.cov["corpus_cases"] = len(lines)
        lines += gen_routes(chk, rng)
        lines += gen_cases(chk, rng)

    # batches keep the ASan quarantine of one harness process small; three of them run at a time
    B = 1500
    batches = []          # (exe, [indices])
    for which in (1, 0):
        idx = [i for i, l in enumerate(lines) if (exe_for(exes, l) is exes[which])]
        bsz = 350 if which == 1 else B
        batches += [(exes[which], idx[k:k + bsz]) for k in range(0, len(idx), bsz)]
    with cf.ThreadPoolExecutor(3) as ex:
        res = list(ex.map(lambda b: run_h(b[0], [lines[i] for i in b[1]]), batches))
    cpp, deaths = ["skipped"] * len(lines), []
    for (_, idx), (a, d) in zip(batches, res):
        for k, i in enumerate(idx):
            if k < len(a):
                cpp[i] = a[k]
        deaths += [(idx[i], rc, se) for i, rc, se in d]
    dead_seen = set()
    for idx, rc, se in sorted(deaths):
        t = lines[idx].split()
        kind = "asan" if "AddressSanitizer" in se else "ubsan" if "runtime error" in se else "crash"
        if t[0] == "route":
            model = "reg" if t[1] in REG_EVAS else t[1]
            tags = {"model": model, "kind": kind, "team": t[3].startswith("t:"), "comp": "-",
                    "route": t[6], "validator": t[5], "eva": t[1]}
            site = "|".join(sorted({ln.split(" in ", 1)[1].split("(")[0].strip() for ln in se.splitlines()
                                    if " in vita::" in ln and ("#1 " in ln or "#2 " in ln or "#0 " in ln)}))[:300]
            tags["site"] = site
        else:
            tags = {"model": t[0], "kind": kind, "team": t[3].startswith("t:"), "comp": t[1]}
        key = (tags["model"], kind, tags.get("route"), tags.get("validator"))
        chk.count("harness_death:%s/%s" % (tags["model"], kind))
        if key in dead_seen:
            continue
        dead_seen.add(key)
        small = lines[idx]
        if not replay:
            small = shrink(exe_for(exes, small), small, (tags["model"], kind))
            _, d2 = run_h(exe_for(exes, small), [small])
            if d2:
                se = d2[0][2]
            else:
                small = lines[idx]
        chk.violation("harness died (rc=%d, %s) on: %s\n%s" % (rc, kind, small[:300], se[-2500:]),
                      {"line": small, "stderr": se[-2500:],
                       "how": "echo '<line>' | C08_TMPDIR=build/c08_tmp build/asan/%s   (or check.py C08 --replay <this file>)"
                              % os.path.basename(exe_for(exes, small))},
                      tags=tags)
    reqs = [lean_request(lines[i], cpp[i]) if i < len(cpp) and not cpp[i].startswith(("died", "skipped")) else None
            for i in range(len(lines))]
    lean = None
    if drv_ok:
        idx = [i for i, r in enumerate(reqs) if r is not None]
        ans = C.run_driver("c08_driver", [reqs[i] for i in idx])
        lean = [None] * len(lines)
        for k, i in enumerate(idx):
            lean[i] = ans[k] if k < len(ans) else None

    ndis = 0
    reported = set()
    for i, line in enumerate(lines):
        if i >= len(cpp):
            break
        c = cpp[i]
        if c.startswith("died") or c == "skipped":
            continue
        t = line.split()
        if t[0] == "disc":
            chk.count("case:disc")
            chk.seen(line, nontrivial=False)
        else:
            team = t[3].startswith("t:")
            if t[0] == "route":
                chk.count(f"route:{t[6]}:{t[5]}:{t[1]}:{'team' if team else 'individual'}")
                chk.count(f"route_mode:{t[6]}")
                chk.count("route_validation_rows:" + ("0" if t[9 + 1 + 3 * int(t[9])] == "0" else "some"))
            else:
                chk.count(f"case:{t[0]}:{'team-' + t[1] if team else 'individual'}")
            chk.seen(line)
            if not c.startswith("ok"):
                chk.count("harness:" + c.split()[0])
                broken.append(f"harness answered `{c[:200]}` to `{line[:200]}`")
                continue
            p = parse(line, c)
            if "ROUTE-TYPE" in p.flags:
                chk.count("route_type_not_shipped")
                broken.append(f"route `{t[6]}` ({t[1]}) returned a model that is not the storing flavour of the shipped alias "
                              f"(no copy history could be run on it): `{line[:200]}`")
            chk.count("train_rows:" + ("2" if p.ntrain == 2 else "3-9" if p.ntrain < 10 else "10-59" if p.ntrain < 60 else "60+"))
            chk.count("predictions", p.n)
            chk.count("queries", p.nq)
            chk.count("undefined_member_outputs", sum(1 for x in p.mem if x == "u"))
            if p.kind != "reg":
                chk.count("classes:%d" % p.classes)
                cnt = {}
                for l in p.labels:
                    cnt[l] = cnt.get(l, 0) + 1
                if cnt and min(cnt.values()) == 1:
                    chk.count("single_example_class")
            if all(x == "u" for x in p.mem):
                chk.count("all_members_undefined")
            hs = p.hist.split()
            if hs and hs[0] == "ok":
                chk.count("lifetime_steps" if p.route else "history_steps", int(hs[1]))
        for what, tags in oracle(line, c):
            sig = (tags.get("model"), tags.get("kind"))
            chk.count("oracle_fail:%s/%s" % sig)
            if sig in reported:
                continue
            reported.add(sig)
            small, ans = line, c
            exe = exe_for(exes, line)
            if not replay:
                small = shrink(exe, line, sig)
                a2, _ = run_h(exe, [small])
                w2 = [(w, tg) for w, tg in oracle(small, a2[0]) if (tg.get("model"), tg.get("kind")) == sig] if a2 else []
                if w2:
                    (what, tags), ans = w2[0], a2[0]
                else:
                    small = line
            chk.violation(what, {"line": small, "harness_answer": ans[:3000],
                                 "how": "echo '<line>' | C08_TMPDIR=build/c08_tmp build/asan/%s   (or check.py C08 --replay <this file>)"
                                        % os.path.basename(exe)},
                          tags=tags)
        if lean is not None and lean[i] is not None and " nan" not in reqs[i]:
            want = cpp_canon(line, c)
            if lean[i].strip() != want.strip():
                ndis += 1
                if ndis <= 3:
                    broken.append(f"model and compiled model object disagree on `{line[:400]}`: "
                                  f"model `{lean[i][:300]}`, code `{want[:300]}`")
        if i % 211 == 0:
            chk.sample({"case": line[:160], "code": cpp_canon(line, c)[:120],
                        "model": (lean[i][:120] if lean and lean[i] else None)})
    chk.cov["model_vs_code_disagreements"] = ndis
    chk.cov["cases"] = len(lines)

    concrete = [v for v in chk.violations if not v[2]]
    if broken and not concrete:
        for b in broken[:3]:
            chk.violation(b, {"broken": b, "searched": f"{len(lines)} model objects judged by the property's own oracle "
                              "(model = interpreter / mean of defined outputs, label < classes, confidence range, accuracy "
                              "fraction, evaluator = -#mislabelled, histories under ASan): no failing input"}, no_input=True)
    elif broken:
        chk.notes += broken[:5]
    return chk.finish(
        level="proof",
        checker_cmd="python3 tools/translate_c08_storage.py && lake build Vita.C08.Props c08_driver && lake env lean <#print axioms for every theorem>",
        rule="one evaluation = one (program or team, training set, queries) triple, or one ROUTE case (evaluator, validation "
             "strategy, cache, training + validation rows, queries, what happens to the original individual): the compiled "
             "model object - constructed directly or obtained through the route - answers all rows, the Lean model (hardware "
             "doubles; fitness through C05's end-to-end evaluator models) must give the same labels / confidence bits / accuracy "
             "/ training fitness, the Python oracle judges the contract against the TRAINING data, a random 12-23 step object "
             "history (cases) or overwrite / move / destroy of the original individual (routes) runs under ASan; the special "
             "member functions and the lambdify routes are re-translated from the clang AST and the lifetime obligations "
             "re-proved; distinct = distinct input lines (discretization probes excluded)",
        trusted=["Lean 4.33 kernel", "harness/c08_model.cc, harness/c08_routes.cc + this script (canonicalisation, oracle)",
                 "tools/translate_c08_storage.py (clang-14 AST -> table of special member functions / routes; C++ rules for "
                 "implicit members applied by the translator)",
                 "glibc libm (atan, exp, fma, round) shared by the harness and the Lean runtime",
                 "ConfLaws / DiscLaws: IEEE-754 and libm facts as hypotheses of the _ieee theorems",
                 "the per-member program outputs come from vita's interpreter (C01's subject)"])
