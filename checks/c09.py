"""C09 — dataset import is faithful to the table.

Lean: Vita/C09/{Csv,Model}.lean model pocket_csv (parse_line, blank-line skipping, sniffer) and the
dataframe import (read_csv, read_xrff from the parsed document, columns_info::build, to_example,
encode / class_name, setup_terminals, variable binding); Vita/C09/Props.lean holds the theorems.

Tie (differential, every run): tables generated *here* (rendered by this file, not by the model)
are read by vita::dataframe (harness/c09_read.cc, ASan+UBSan build of the working tree) and by the
compiled Lean driver; the canonical dumps must be equal.  The generator knows the table, so the
C++ result is also compared with the table directly (oracle independent of Lean).
Numbers: strtod / std::stod are not modelled; the model is parametric in them and the driver gets
their values for the strings of each request from the harness (`num` request), see Proto.lean.
"""
import json
import os
import struct

from vlib import common as C

SPACES = b" \t\n\x0b\x0c\r"
DELIMS = [b",", b";", b"\t", b":", b"|", b" "]


def hx(b):
    return b.hex() or "-"


def unhx(s):
    return b"" if s == "-" else bytes.fromhex(s)


def trim(b):
    return b.strip(SPACES)


def dbits(x):
    return "d%016x" % struct.unpack("<Q", struct.pack("<d", x))[0]


# ---------------------------------------------------------------------------
# talking to the two sides
# ---------------------------------------------------------------------------

class Session:
    """C++ harness + Lean driver, with the number dictionary protocol."""

    def __init__(self, exe, driver):
        self.exe, self.driver = exe, driver
        self.numcache = {}
        self.rounds = 0

    def cpp(self, lines):
        return C.run_lines(self.exe, lines)

    def num(self, keys):
        todo = sorted(k for k in keys if k not in self.numcache)
        if not todo:
            return
        ans, deaths = C.run_lines(self.exe, ["num " + k for k in todo])
        for k, a in zip(todo, ans):
            t = a.split()
            self.numcache[k] = " ".join(t[1:4]) if len(t) == 4 and t[0] == "n" else "0 x x"

    def model(self, lines):
        """Answers of the Lean driver; `need …` answers are resolved through the harness."""
        ans = C.run_driver(self.driver, lines)
        keys = [set() for _ in lines]
        for _ in range(4):
            pend = [i for i, a in enumerate(ans) if a.startswith("need")]
            if not pend:
                break
            self.rounds += 1
            new = set()
            for i in pend:
                ks = ans[i].split()[1:]
                keys[i].update(ks)
                new.update(ks)
            self.num(new)
            again = []
            for i in pend:
                ent = " ".join(k + " " + self.numcache[k] for k in sorted(keys[i]))
                again.append("%s D %d %s" % (lines[i], len(keys[i]), ent))
            res = C.run_driver(self.driver, again)
            for i, a in zip(pend, res):
                ans[i] = a
        return ans


def parse_dump(s):
    """Canonical structure of an `ok …` dump (both sides print the same format)."""
    t = s.split()
    if not t or t[0] != "ok":
        return None
    d = {"ret": t[1], "valid": t[2], "eqin": t[3]}
    i = 4
    assert t[i] == "C"
    n = int(t[i + 1])
    i += 2
    cols = []
    for _ in range(n):
        name, dom, ns = t[i], int(t[i + 1]), int(t[i + 2])
        i += 3
        cols.append((name, dom, tuple(sorted(t[i:i + ns]))))
        i += ns
    d["cols"] = cols
    assert t[i] == "K"
    n = int(t[i + 1])
    i += 2
    d["classes"] = t[i:i + n + 1]
    i += n + 1
    assert t[i] == "E"
    n = int(t[i + 1])
    i += 2
    ex = []
    for _ in range(n):
        out, k = t[i], int(t[i + 1])
        i += 2
        ex.append((out, tuple(t[i:i + k])))
        i += k
    d["examples"] = ex
    assert i == len(t)
    return d


def outcome_class(a):
    """ok / exc / fault / other, for model answers and harness answers alike."""
    if a.startswith("ok"):
        return "ok"
    if a.startswith("exc"):
        return "exc"
    if a.startswith("fault") or a.startswith("died"):
        return "fault"
    return "other:" + a[:40]


# ---------------------------------------------------------------------------
# generator of well-formed tables
# ---------------------------------------------------------------------------

NUMS = [b"0", b"1", b"-1", b"3.5", b"-0.25", b"1e5", b"2.5E-3", b"12345678", b"0.1", b".5", b"5.", b"+7",
        b"1e308", b"2.5e-300", b"-0", b"007", b"1E2", b"6.02e23"]
PRINT = bytes(range(0x20, 0x7f))
WORDS = [b"abc", b"Iris-setosa", b"x y", b"a,b", b"say \"hi\"", b"\"q\"", b"semi;colon", b"tab\there", b"pipe|x",
         b"c:d", b" lead", b"trail ", b"M", b"F", b"I", b"cp", b"im", b"'single'", b"a\"\"b", b"\"", b"\"\"",
         b"N/A", b"1 2", b"a 23", b"e", b"--", b"0x", b"1e", b"#"]


def rnd_text(rng, numeric_ok=False):
    k = rng.below(10)
    if k < 4:
        return rng.choice(WORDS)
    if k < 8:
        n = rng.between(1, 9)
        return bytes(PRINT[rng.below(len(PRINT))] for _ in range(n))
    if k == 8:
        return b" " * rng.below(3) + rng.choice(WORDS) + b" " * rng.below(3)
    return rng.choice(NUMS) if numeric_ok else rng.choice(WORDS) + b"_"


def rnd_num(rng):
    k = rng.below(6)
    if k < 2:
        s = rng.choice(NUMS)
    elif k < 4:
        s = str(rng.between(-100000, 100000)).encode()
    else:
        s = ("%.*f" % (rng.below(7), (rng.between(-10 ** 7, 10 ** 7)) / 1000.0)).encode()
    if rng.chance(0.1):
        s = b" " * rng.below(3) + s + b" " * rng.below(3)
    return s


def is_numeric_text(b):
    """Conservative: could strtod consume the whole trimmed text?  (used to keep text cells textual)"""
    t = trim(b)
    if not t:
        return False
    try:
        float(t.decode("latin1"))
        return True
    except ValueError:
        pass
    low = t.lower().lstrip(b"+-")
    return low.startswith(b"0x") or low.startswith(b"inf") or low.startswith(b"nan")


def text_cell(rng):
    while True:
        c = rnd_text(rng)
        if trim(c) and not is_numeric_text(c):
            return c


def esc(b):
    return b.replace(b'"', b'""')


def needs_quote(cell, d):
    t = cell.lstrip(SPACES)
    return d in cell or t[:1] == b'"'


CANDS = b"\t,:;|"          # the five candidate delimiters of the sniffer


def parse_hook(spec):
    """The hook language of harness/c09_read.cc (make_filter) and Vita/C09/Proto.lean (makeHook)."""
    if spec == "0":
        return []
    prims = []
    for p in spec.split("+"):
        op = "s" if p[0].isdigit() else p[0]
        body = p if p[0].isdigit() else p[1:]
        prims.append((op, [int(x) for x in body.split("_")]))
    return prims


def apply_hook(spec, fields):
    """None = rejected, else the record as the hook leaves it."""
    r = list(fields)
    for op, a in parse_hook(spec):
        if op == "s":
            if (len(r) + sum(sum(f) for f in r)) % a[0] == a[1]:
                return None
        elif op == "w":
            if sum((i + 1) * (1 + sum(f)) for i, f in enumerate(r)) % a[0] == a[1]:
                return None
        elif op == "c":
            if a[0] < len(r) and (sum(r[a[0]]) + len(r[a[0]])) % a[1] == a[2]:
                return None
        elif op == "U":
            if a[0] < len(r):
                r[a[0]] = bytes(c - 32 if 0x61 <= c <= 0x7a else c for c in r[a[0]])
        elif op == "X":
            if a[0] < len(r) and a[1] < len(r):
                r[a[0]], r[a[1]] = r[a[1]], r[a[0]]
    return r


def keep(filt, fields):
    return apply_hook(filt, fields) is not None


def gen_hook(rng, ncols, kinds):
    """A row hook: filters that depend on the content, on the POSITION of the cells, on one cell;
    transformations of one cell / of the order of two cells of the same kind."""
    if rng.chance(0.55):
        return "0"
    prims = []
    for _ in range(1 if rng.chance(0.7) else 2):
        k = rng.below(10)
        if k < 2:
            prims.append(("%d_%d" if rng.chance(0.5) else "s%d_%d") % (rng.between(2, 6), rng.below(2)))
        elif k < 5:
            prims.append("w%d_%d" % (rng.between(2, 6), rng.below(2)))
        elif k < 7:
            prims.append("c%d_%d_%d" % (rng.below(ncols + 1), rng.between(2, 5), rng.below(2)))
        elif k < 9:
            prims.append("U%d" % rng.below(ncols + 1))
        else:
            pairs = [(i, j) for i in range(ncols) for j in range(ncols) if i != j and kinds[i] == kinds[j]]
            prims.append("X%d_%d" % rng.choice(pairs) if pairs else "w3_1")
    return "+".join(prims)


LOWER = [b"alpha", b"beta", b"gamma", b"delta", b"setosa", b"versicolor", b"red wine", b"n/a", b"x y z", b"kappa",
         b"mu", b"omicron-9", b"it's", b"p", b"lorem ipsum"]
YEARS = [b"2019", b"2020", b"2021", b"1", b"2", b"3.5", b"-4", b"100", b"007", b"1e3"]
NAMES = [b"length", b"Width", b"HEIGHT", b"x", b"sepal length", b"pH", b"Class", b"mcg", b"A1", b"shell weight"]


def plain_num(rng):
    return ("%.*f" % (rng.below(4), rng.between(-9999, 9999) / 10.0)).encode()


def declutter(c):
    """no candidate delimiter inside the cell (quoted or not): the sniffer counts raw characters"""
    return bytes(0x5f if ch in CANDS else ch for ch in c)


def gen_table(rng, tier, family=None):
    """A well-formed rectangular table plus reading parameters.

    family: general   any cell text, any of six delimiters (explicit dialect has an oracle)
            clear     delimiter one of the sniffer's five candidates, no candidate inside a cell, >= 2
                      columns: the delimiter can be left to the sniffer
            years     clear + numeric column names over numeric columns (the sniffer votes `no header`)
            capsrow   clear + header-less text table whose first row is capitalised, the others lower
                      case (the sniffer votes `header`)
            unamb     the class of `sniff_agrees`: delimiter and header can both be left to the sniffer
            unambq    the class of `sniff_agrees_quoted` (UNAMBIGUOUS tables, see design/C09.md): unamb with
                      quoting - every cell / only the numeric cells / only the header / cells at random
                      written between quotes, numbers of varying width, column names in lower case,
                      Capitalised, UPPER case, mixed, or quoted numbers (`"1980"`); in a table without
                      header the cells of the first row are not quoted (a quoted first row reads as names)"""
    uq = family == "unambq"
    if uq:
        family = "unamb"
    big = tier == "thorough"
    if family is None:
        family = "general"
    ncols = rng.between(1, 13) if rng.chance(0.15) else rng.between(2, 13)
    if family != "general":
        ncols = max(ncols, 2)
    nrows = rng.between(1, 61) if rng.chance(0.5) else rng.between(1, 13)
    if big and rng.chance(0.05):
        nrows = rng.between(60, 200)
    kinds = [rng.choice("nnt") for _ in range(ncols)]       # n = numeric, t = text
    mode = rng.below(4)
    if mode == 0 or family in ("years", "unamb"):
        kinds = ["n"] * ncols
    elif mode == 1 or family == "capsrow":
        kinds = ["t"] * ncols
    has_header = rng.chance(0.5)
    if family == "years":
        has_header = True
    if family == "capsrow":
        has_header = False
    if family in ("unamb", "capsrow"):
        nrows = max(nrows, 2)
    out = None if rng.chance(0.15) else rng.below(ncols)
    if has_header:
        header = []
        for j in range(ncols):
            if family == "years":
                h = rng.choice(YEARS)
            elif family == "unamb" and uq:
                h = b"x"            # replaced below (one style for the whole header)
            elif family == "unamb":
                h = rng.choice(NAMES) if rng.chance(0.8) else b"n_%d" % j
            else:
                h = text_cell(rng) if rng.chance(0.6) else b"col%d" % j
            header.append(h)
    else:
        header = None
    rows = []
    nlabels = rng.between(11, 15) if rng.chance(0.1) else rng.between(2, 6)
    labels = []
    while len(labels) < nlabels:
        l = rng.choice(LOWER) + b"%d" % len(labels) if family == "capsrow" else text_cell(rng)
        if trim(l) not in [trim(x) for x in labels]:
            labels.append(l)
    loose = rng.chance(0.25) and family in ("general", "clear")   # later text cells may be blank / numeric looking
    for i in range(nrows):
        r = []
        for j in range(ncols):
            if kinds[j] == "n":
                r.append(plain_num(rng) if family == "unamb" else rnd_num(rng))
            elif family == "capsrow":
                w = rng.choice(labels) if j == out else rng.choice(LOWER)
                r.append(w.capitalize() if i == 0 else w)
            elif j == out:
                r.append(rng.choice(labels))
            elif loose and i > 0:
                r.append(rnd_text(rng, numeric_ok=True) if rng.chance(0.8) else b" " * rng.below(3))
            else:
                r.append(text_cell(rng))
        rows.append(r)
    d = rng.choice(DELIMS)
    qprob = rng.choice([0.0, 0.0, 0.2, 1.0])
    if family != "general":
        d = rng.choice(DELIMS[:5])
        rows = [[declutter(c) for c in r] for r in rows]
        if header is not None:
            header = [declutter(c) for c in header]
    if family == "unamb":
        qprob = 0.0
    hook = gen_hook(rng, ncols, kinds)
    T = {"ncols": ncols, "kinds": kinds, "header": header, "rows": rows, "out": out, "delim": d,
         "trim": rng.chance(0.3), "keep": rng.chance(0.2), "qprob": qprob,
         "eol": rng.choice([b"\n", b"\n", b"\r\n"]), "final_eol": rng.chance(0.8),
         "filter": hook, "loose": loose, "family": family}
    if uq:
        T["family"] = "unambq"
        T["keep"] = False           # (KEEP_QUOTES turns a quoted number into a text: another table)
        qmode = rng.choice(["all", "all", "numeric", "numeric", "header", "random", "none"])
        style = rng.choice(["lower", "lower", "cap", "upper", "mixed", "years"])
        T["qmode"], T["hstyle"] = qmode, style
        T["qprob"] = {"all": 1.0, "numeric": 1.0, "header": 0.0, "random": 0.5, "none": 0.0}[qmode]
        T["qprob_header"] = {"all": 1.0, "numeric": 0.0, "header": 1.0, "random": 0.5, "none": 0.0}[qmode]
        if header is None:
            T["qprob_first"] = 0.0  # a quoted first row would read as column names (`"1980"`)
        else:
            if style == "years":    # numbers as names: unambiguous only between quotes
                T["qprob_header"] = 1.0
            T["header"] = [uq_name(rng, style, j) for j in range(ncols)]
        if rng.chance(0.5):         # numbers of clearly different widths in every column
            T["rows"] = [[wide_num(rng) for _ in r] for r in rows]
    return T


UQ_LOWER = [b"length", b"width", b"height", b"x", b"sepal length", b"ph", b"class", b"mcg", b"a1", b"shell weight",
            b"weight", b"n", b"petal-width", b"v_2"]


def uq_name(rng, style, j):
    """a column name of the family `unambq`: never blank, never a number unless style == years"""
    if style == "years":
        return rng.choice(YEARS[:3] + [b"1980", b"1999", b"2024"])
    if style == "mixed":
        style = rng.choice(["lower", "cap", "upper"])
    w = rng.choice(UQ_LOWER) if rng.chance(0.85) else b"c_%d" % j
    return w if style == "lower" else w.capitalize() if style == "cap" else w.upper()


def wide_num(rng):
    """a plain number (digits, sign, dot) of 1 to 9 characters"""
    k = rng.below(4)
    if k == 0:
        return b"%d" % rng.below(10)
    if k == 1:
        return b"%d" % rng.between(10, 999)
    if k == 2:
        return b"%d" % rng.between(-99999, 99999)
    return ("%.*f" % (rng.between(1, 3), rng.between(-999999, 999999) / 100.0)).encode()


def render_line(rng, cells, d, qprob, noquote=()):
    """-> (line, mask of the quoted cells); cells whose index is in `noquote` are quoted only if needed"""
    out, mask = [], []
    for j, c in enumerate(cells):
        q = needs_quote(c, d) or (j not in noquote and rng.chance(qprob))
        mask.append(q)
        out.append(b'"' + esc(c) + b'"' if q else c)
    line = d.join(out)
    if not trim(line):            # a blank line would be skipped by the parser: quote one field
        out[0] = b'"' + esc(cells[0]) + b'"'
        mask[0] = True
        line = d.join(out)
    return line, mask


def render_csv(rng, T):
    """The file; the decisions to quote are left in T["qmask"] (one mask per line, header first).
    With KEEP_QUOTES a quoted number is a text: numeric cells are quoted only when they have to be."""
    noq = [j for j, k in enumerate(T["kinds"]) if k == "n"] if T.get("keep") else ()
    lines, masks = [], []
    if T["header"] is not None:
        l, m = render_line(rng, T["header"], T["delim"], T.get("qprob_header", T["qprob"]))
        lines.append(l)
        masks.append(m)
    for i, r in enumerate(T["rows"]):
        qp = T.get("qprob_first", T["qprob"]) if i == 0 else T["qprob"]
        l, m = render_line(rng, r, T["delim"], qp, noq)
        lines.append(l)
        masks.append(m)
        if rng.chance(0.03):
            lines.append(rng.choice([b"", b"  ", b"\t"]))          # blank lines are skipped
    T["qmask"] = masks
    data = T["eol"].join(lines)
    if T["final_eol"]:
        data += T["eol"]
    return data


def rotate(r, k):
    return r if k is None else [r[k]] + r[:k] + r[k + 1:]


def stod_bits(b):
    return dbits(float(trim(b).decode("latin1")))


def seen_fields(T):
    """The records as the parser has to deliver them, header first: a cell written between quotes
    keeps them under KEEP_QUOTES; trim_ws trims."""
    recs = ([T["header"]] if T["header"] is not None else []) + T["rows"]
    out = []
    for r, m in zip(recs, T["qmask"]):
        f = [b'"' + c + b'"' if (q and T.get("keep")) else c for c, q in zip(r, m)]
        out.append([trim(c) for c in f] if T["trim"] else f)
    return out


def expected_csv(T, alt=False, prior=None):
    """What the table says the import must produce (None = outside the oracle's class).
    Call after render_csv (the quoting decisions matter under KEEP_QUOTES).
    alt: the other reading of the first line (a header line read as data / the first data row read
    as header) - what must come out when the header is left to the sniffer and it votes the other way.
    prior: the dump of the dataframe the table is read INTO (a history on one object; None = a fresh
    object): the import has to produce exactly the data rows of this table, under the columns the object
    already has (names, domains; the states of text columns grow) and with the class map continued
    (labels seen before keep their id).  A column whose cells are all blank has no domain: it is left
    out of the examples."""
    recs = seen_fields(T)
    if T.get("keep") and any(q and T["kinds"][j] == "n" for m in T["qmask"][(T["header"] is not None):]
                             for j, q in enumerate(m)):
        return None                              # a number kept between quotes is a text
    hooked = [apply_hook(T["filter"], r) for r in recs]       # the hook sees the record as parsed
    as_header = (T["header"] is not None) != alt
    tkinds = T["kinds"]
    if alt:
        if T.get("keep") or any(h is None for h in hooked[:2]):
            return None
        if T["header"] is not None:              # the header line is the first example: it types the columns
            tkinds = ["n" if (kd == "n" and is_numeric_text(c)) else "t" for kd, c in zip(tkinds, hooked[0])]
            if T["out"] is not None and T["kinds"][T["out"]] == "n" and tkinds[T["out"]] == "t":
                return None                      # labels and numbers in the output column
    T = dict(T, kinds=tkinds)
    if as_header:
        if all(h is None for h in hooked):
            return "exc"
        if hooked[0] is None:
            return None                          # the hook ate the header: a data row takes its place
        header, data = hooked[0], [h for h in hooked[1:] if h is not None]
    else:
        header, data = None, [h for h in hooked if h is not None]
    if not data:
        return "exc"
    if any(len(r) != T["ncols"] for r in data):
        return None
    # a column without any value has no domain; one whose first value comes after the first row changes
    # the number of inputs half way: outside the oracle's class
    blank = [all(not trim(r[j]) for r in data) for j in range(T["ncols"])]
    if any(not trim(r[j]) and not blank[j] for r in data for j in range(T["ncols"])):
        return None
    if any(T["kinds"][j] == "t" and is_numeric_text(c) for j, c in enumerate(data[0])):
        return None       # (the hook removed the first row) a text column would be taken for numbers
    if alt and any(T["kinds"][j] == "n" and not is_numeric_text(c) for r in data for j, c in enumerate(r)):
        return None
    k = T["out"]
    if k is not None and T["kinds"][k] == "t" and any(is_numeric_text(r[k]) for r in data):
        return None       # (the hook moved cells) a numeric looking label is read as a number
    kinds = rotate(["v" if blank[j] else kd for j, kd in enumerate(T["kinds"])], k)
    names = [hx(trim(h)) for h in rotate(header, k)] if header is not None else ["-"] * T["ncols"]
    if k is None:
        names = ["-"] + names
        kinds = ["v"] + kinds
    classes = []
    states = [set() for _ in kinds]
    if prior is not None and prior["cols"]:
        # the object has its columns: names and domains are the ones it has
        if len(prior["cols"]) != len(kinds):
            return None
        for j, (kd, (pn, pd, ps)) in enumerate(zip(kinds, prior["cols"])):
            if pd != (0 if kd == "v" else 2 if (kd == "n" or j == 0) else 3):
                return None                      # another schema: outside the oracle's class
            states[j] = set(ps)
        names = [c[0] for c in prior["cols"]]
    if prior is not None:
        classes = [unhx(c) for c in prior["classes"][:-1]]
        if classes and (k is None or T["kinds"][k] != "t" or blank[k]):
            return None                          # numbers into a dataframe that has class labels
    ex = []
    for r in data:
        r = rotate(r, k)
        if k is None:
            r = [b""] + r
        vals = []
        for j, c in enumerate(r):
            if kinds[j] == "v":
                if j == 0:
                    vals.append("v")
            elif kinds[j] == "n":
                vals.append(stod_bits(c))
            elif j == 0:
                l = trim(c)
                if l not in classes:
                    classes.append(l)
                vals.append("i%d" % classes.index(l))
            else:
                vals.append("s" + hx(trim(c)))
                states[j].add("s" + hx(trim(c)))
        ex.append((vals[0], tuple(vals[1:])))
    if len(classes) == 1:
        return "exc"
    cols = []
    for j, kd in enumerate(kinds):
        dom = 0 if kd == "v" else 2 if (kd == "n" or j == 0) else 3
        cols.append((names[j], dom, tuple(sorted(states[j]))))
    return {"ret": "ret=%d" % len(ex), "valid": "valid=1", "eqin": "eqin=1", "cols": cols,
            "classes": [hx(c) for c in classes] + ["-"], "examples": ex}


def xml_esc(b):
    return b.replace(b"&", b"&amp;").replace(b"<", b"&lt;").replace(b">", b"&gt;")


def xml_attr(b):
    return xml_esc(b).replace(b'"', b"&quot;")


EXTS = [b".csv", b".CSV", b".txt", b".dat", b"", b".xrff", b".XRFF", b".Xrff", b".xml", b".XML", b".xMl", b".xmlx",
        b".xrf", b".tsv", b".xrff2"]
VOID_TYPES = [b"date", b"relational", b"", None, b"Numeric", b"STRING", b"int", b"nominal "]


def render_xrff(rng, T, prior=None):
    """The same logical table as XRFF text; returns (bytes, expected).  T["xinfo"] describes the
    header that was written (class attribute position, declared types).
    prior: the dump of the dataframe the document is read into (see expected_csv): the columns are those
    of the document, the class map is continued."""
    k = T["out"]
    nc = T["ncols"]
    types = []
    for j in range(nc):
        if T["kinds"][j] == "n":
            allint = all(trim(r[j]).lstrip(b"+-").isdigit() and len(trim(r[j])) < 9 for r in T["rows"])
            if allint and rng.chance(0.5):
                types.append(b"integer")
            else:
                types.append(rng.choice([b"numeric", b"real"]))
        else:
            types.append(rng.choice([b"string", b"nominal"]))
    void = set()
    if rng.chance(0.15):            # a type read_xrff does not handle: the column has no domain
        jv = rng.below(nc)
        types[jv] = rng.choice(VOID_TYPES)
        void.add(jv)
    names = [trim(h) for h in T["header"]] if T["header"] is not None else [b"a%d" % j for j in range(nc)]
    if T.get("xnames"):             # (histories: the schema has names whether or not a table shows them)
        names = [trim(h) for h in T["xnames"]]
    explicit = k is not None and (k != nc - 1 or rng.chance(0.5))
    kk = nc - 1 if k is None else k
    T["xinfo"] = {"class": ("default" if not explicit else "first" if kk == 0 else "last" if kk == nc - 1
                            else "middle") + ("/1col" if nc == 1 else ""),
                  "types": [("missing" if t is None else t.decode() or "empty") for t in types],
                  "class_type": "missing" if types[kk] is None else types[kk].decode() or "empty"}
    o = [b"<?xml version=\"1.0\"?>\n<dataset name=\"t\">\n<header>\n<attributes>\n"]
    labelsets = []
    for j in range(nc):
        a = b"<attribute "
        if explicit and j == kk:
            a += b'class="yes" '
        a += b'name="' + xml_attr(names[j]) + b'"'
        if types[j] is not None:
            a += b' type="' + types[j] + b'"'
        ls = []
        if types[j] is not None and types[j].startswith(b"nominal") and rng.chance(0.7):
            ls = sorted({trim(r[j]) for r in T["rows"]})
            a += b">" + b"".join(b"<label>" + xml_esc(l) + b"</label>" for l in ls) + b"</attribute>\n"
        else:
            a += b"/>\n"
        labelsets.append(ls)
        o.append(a)
    o.append(b"</attributes>\n</header>\n<body>\n<instances>\n")
    for r in T["rows"]:
        o.append(b"<instance>" + b"".join(b"<value>" + xml_esc(c) + b"</value>" for c in r) + b"</instance>\n")
    o.append(b"</instances>\n</body>\n</dataset>\n")
    data = b"".join(o)
    if any(T["kinds"][j] == "n" and not trim(r[j]) for r in T["rows"] for j in range(nc)):
        return data, None          # a numeric column with an empty value: std::stod throws
    # expected
    for op, a in parse_hook(T["filter"]):
        if op == "X" and a[0] < nc and a[1] < nc and types[a[0]] != types[a[1]]:
            return data, None      # cells moved to a column declared with another type
    # a <value> holding only white space has no text node: GetText() is null, the field is "".
    # The hook is handed the values in the order of the <value> elements.
    rows = [apply_hook(T["filter"], [c if trim(c) else b"" for c in r]) for r in T["rows"]]
    rows = [r for r in rows if r is not None]
    kinds = rotate(["v" if j in void else kd for j, kd in enumerate(T["kinds"])], kk)
    tys = rotate(types, kk)
    lbs = rotate(labelsets, kk)
    nm = rotate(names, kk)
    classes, ex = [], []
    if prior is not None:
        classes = [unhx(c) for c in prior["classes"][:-1]]
        if classes and kinds[0] != "t":
            return data, None      # numbers into a dataframe that has class labels
    for r in rows:
        r = rotate(r, kk)
        vals = []
        for j, c in enumerate(r):
            if kinds[j] == "v":
                if j == 0:
                    vals.append("v")
                continue            # a column without a domain is not stored in the example
            if kinds[j] == "n":
                vals.append("i%d" % int(trim(c)) if tys[j] == b"integer" else stod_bits(c))
            elif j == 0:
                l = trim(c)
                if l not in classes:
                    classes.append(l)
                vals.append("i%d" % classes.index(l))
            else:
                vals.append("s" + hx(trim(c)))
        ex.append((vals[0], tuple(vals[1:])))
    cols = []
    for j in range(nc):
        if kinds[j] == "v":
            cols.append((hx(nm[j]), 0, ()))
            continue
        if kinds[j] == "n":
            dom = 1 if tys[j] == b"integer" else 2
        else:
            dom = 2 if j == 0 else 3
        st = tuple(sorted("s" + hx(l) for l in lbs[j])) if (tys[j] == b"nominal" and j != 0) else ()
        if j == 0 and kinds[j] == "t" and not explicit:
            # the last column becomes the output without the nominal -> numeric rewrite
            dom = 3
            st = tuple(sorted("s" + hx(l) for l in lbs[j])) if tys[j] == b"nominal" else ()
        cols.append((hx(nm[j]), dom, st))
    if kinds[0] == "t" and any(is_numeric_text(r[kk]) for r in rows):
        return data, None          # a numeric looking label is read as a number: outside the oracle's class
    if len(classes) == 1 and ex:
        return data, "exc"
    exp = {"ret": "ret=%d" % len(ex), "valid": "valid=1", "eqin": "eqin=1",
           "cols": cols, "classes": [hx(c) for c in classes] + ["-"], "examples": ex}
    return data, exp


def csv_line(T, data, op="csv", sniff=False):
    """csv2 request: the delimiter and the header flag are given (T["dmode"] / T["hmode"] = `explicit`,
    the default) or left to the sniffer"""
    dmode, hmode = T.get("dmode", "explicit"), T.get("hmode", "explicit")
    if sniff:
        dmode = hmode = "sniffed"
    d = T["delim"][0] if dmode == "explicit" else 0
    h = (1 if T["header"] is not None else 0) if hmode == "explicit" else -1
    o = -1 if T["out"] is None else T["out"]
    if op == "var":
        return "var %d %d %d %d %d %s" % (T["delim"][0], 1 if T["header"] is not None else 0, int(T["trim"]), o,
                                         T.get("typing", 0), hx(data))
    return "csv2 %d %d %d %d %d %s %s" % (d, h, int(T["trim"]), int(bool(T.get("keep"))), o, T["filter"], hx(data))


def xrff_line(rng, T, xml):
    """xrff2 request: dialect and output_index are set as well - read_xrff must not look at them"""
    return "xrff2 %d %d %d %d %d %s %s" % (rng.choice([0, 44, 59, 9]), rng.between(-1, 1), rng.below(2), rng.below(2),
                                          rng.between(-1, T["ncols"] + 1), T["filter"], hx(xml))


def oracle_applies(T):
    """explicit dialect: always; delimiter left to the sniffer: the delimiter-clear families; header
    left to the sniffer: the class of `sniff_agrees`"""
    dmode, hmode = T.get("dmode", "explicit"), T.get("hmode", "explicit")
    if hmode != "explicit":
        return T["family"] in ("unamb", "unambq")
    return dmode == "explicit" or T["family"] != "general"


def expected_for(T):
    """The table oracle for a csv2 request: one expectation, or - header left to the sniffer on a table
    outside the class of `sniff_agrees`, delimiter explicit or recognisable - the two readings of the
    first line, one of which must come out (`either`)."""
    if oracle_applies(T):
        return expected_csv(T)
    if T.get("hmode", "explicit") != "explicit" and (T.get("dmode", "explicit") == "explicit" or T["family"] != "general"):
        a, b = expected_csv(T), expected_csv(T, alt=True)
        if a is not None and b is not None:
            return {"either": [a, b]}
    return None


def parse_vars(s, width):
    """`ok V n {name cat rows {width tokens}}` -> [(name, cat, [tuple])]"""
    t = s.split()
    n = int(t[2])
    p = 3
    out = []
    for _ in range(n):
        name, cat, k = t[p], t[p + 1], int(t[p + 2])
        p += 3
        rows = [tuple(t[p + width * r:p + width * (r + 1)]) for r in range(k)]
        p += width * k
        out.append((name, cat, rows))
    return out


def parse_syms(s, width):
    """`ok S n {v name cat rows {width tokens} | k name cat value | f name cat} P cats vars classes C n {name dom ns}`
    -> (groups, P, cols); a group = (name, cat, rows, sorted constants (name, cat, value)) per variable"""
    t = s.split()
    n = int(t[2])
    p = 3
    groups, loose = [], []
    for _ in range(n):
        k = t[p]
        if k == "v":
            name, cat, nr = t[p + 1], t[p + 2], int(t[p + 3])
            p += 4
            rows = [tuple(t[p + width * r:p + width * (r + 1)]) for r in range(nr)]
            p += width * nr
            groups.append([name, cat, rows, []])
        elif k == "k":
            c = (t[p + 1], t[p + 2], t[p + 3])
            p += 4
            (groups[-1][3] if groups else loose).append(c)
        else:
            loose.append((t[p + 1], t[p + 2], "function"))
            p += 3
    assert t[p] == "P"
    P = tuple(t[p + 1:p + 4])
    assert t[p + 4] == "C"
    nc = int(t[p + 5])
    p += 6
    cols = [(t[p + 3 * j], int(t[p + 3 * j + 1]), int(t[p + 3 * j + 2])) for j in range(nc)]
    assert p + 3 * nc == len(t)
    return [(g[0], g[1], g[2], sorted(g[3])) for g in groups], loose, P, cols


def check_symbols(a, strong, history=False):
    """The property's own statement about setup_terminals, read off vita's answer alone: one variable
    per input column that has a domain, in column order, named after it, the j-th one asking for input j
    (and a real interpreter returning that cell); the constants of a column's states right after its
    variable, in its category; categories: undefined for no column with a variable, one per column under
    strong typing, shared exactly by the non-string columns of equal domain under weak typing."""
    groups, loose, P, cols = parse_syms(a, 3)
    if loose:
        return "setup_terminals inserted %r outside a column's group" % (loose[:2],)
    want = [(i, c) for i, c in enumerate(cols) if i >= 1 and c[1] != 0]
    if len(groups) != len(want):
        return "%d variables for %d input columns with a domain" % (len(groups), len(want))
    for j, ((name, cat, rows, ks), (i, (cname, dom, ns))) in enumerate(zip(groups, want)):
        exp_name = cname if cname != "-" else hx(b"X%d" % i)
        if name != exp_name and not history:      # (history: the names are those of the first import)
            return "variable %d is named %s, its column (%d) %s" % (j, name, i, exp_name)
        if cat == "u" or int(cat) > 10 ** 6:
            return "variable %d has no category" % j
        for asked, direct, interp in rows:
            if int(asked) != j:
                return "variable %d reads input %s" % (j, asked)
            if direct == "s" + hx(b"<out-of-range>"):
                return "variable %d reads input %s, the example has fewer inputs" % (j, asked)
            if interp != "-" and interp != direct:
                return "variable %d: interpreter returns %s, the example holds %s" % (j, interp, direct)
            if direct[0] != {1: "i", 2: "d", 3: "s"}[dom]:
                return "variable %d of a column with domain %d evaluates to %s" % (j, dom, direct)
        if len(ks) != ns and not history:         # (history: a later import adds states / replaces the columns)
            return "column %d has %d states, %d constants follow its variable" % (i, ns, len(ks))
        for kn, kc, kv in ks:
            if kc != cat:
                return "a state constant of column %d is in category %s, the variable in %s" % (i, kc, cat)
            if kv[0] != "s" or unhx(kn) != b'"' + unhx(kv[1:]) + b'"':
                return "state constant %s evaluates to %s" % (kn, kv)
    cats = [(int(g[1]), c[1]) for g, (_, c) in zip(groups, want)]
    for x, (cx, dx) in enumerate(cats):
        for cy, dy in cats[x + 1:]:
            if cx == cy and dx != dy:
                return "category %d holds columns of domains %d and %d" % (cx, dx, dy)
            if cx == cy and (strong or dx == 3):
                return "two %s columns share category %d" % ("strongly typed" if strong else "string", cx)
            if cx != cy and not strong and dx == dy and dx != 3:
                return "weak typing: two columns of domain %d in categories %d and %d" % (dx, cx, cy)
    if groups and groups[0][2] and int(P[1]) != len(groups):      # (an empty dataframe has no inputs)
        return "%s inputs per example, %d variables" % (P[1], len(groups))
    return None


def oracle_diff(exp, a):
    """None when vita's answer `a` is what the table oracle expects (`exp`: a dump, "exc", or
    {"either": [...]}), else a description of the first difference"""
    if isinstance(exp, dict) and "either" in exp:
        ds = [oracle_diff(e, a) for e in exp["either"]]
        return None if None in ds else "neither reading of the first line: as declared: %s; the other way: %s" % tuple(ds)
    if exp == "exc":
        return None if a.startswith("exc") else "expected an exception (no data rows / a single class), got: " + a[:200]
    got = parse_dump(a)
    if got is None:
        return "well-formed table rejected: %s (expected %d examples)" % (a[:200], len(exp["examples"]))
    d = first_diff(exp, got)
    return None if d is None else "import differs from the table (table vs vita): " + d


def first_diff(a, b):
    for key in ("ret", "valid", "eqin", "classes", "cols"):
        if a[key] != b[key]:
            return "%s: %r vs %r" % (key, a[key], b[key])
    if len(a["examples"]) != len(b["examples"]):
        return "number of examples: %d vs %d" % (len(a["examples"]), len(b["examples"]))
    for i, (x, y) in enumerate(zip(a["examples"], b["examples"])):
        if x != y:
            return "example %d: %r vs %r" % (i, x, y)
    return None


# ---------------------------------------------------------------------------
# sniffer: tables of the class `sniff_agrees` is about
# ---------------------------------------------------------------------------

def gen_unambiguous(rng):
    nc = rng.between(2, 9)
    nr = rng.between(2, 30)
    d = rng.choice(DELIMS[:5])
    hdr = rng.chance(0.5)
    lines = []
    if hdr:
        names = []
        for j in range(nc):
            n = rng.choice([b"length", b"Width", b"HEIGHT", b"x", b"sepal length", b"pH", b"Class", b"n_%d" % j,
                            b"mcg", b"A1", b"shell weight"])
            names.append(n)
        lines.append(d.join(names))
    for _ in range(nr):
        lines.append(d.join(("%.*f" % (rng.below(4), rng.between(-9999, 9999) / 10.0)).encode() for _ in range(nc)))
    return b"\n".join(lines) + b"\n", d[0], int(hdr)


# ---------------------------------------------------------------------------
# raw parser lines (well-formed and not)
# ---------------------------------------------------------------------------

def gen_parse_line(rng):
    alphabet = [b'"', b'"', b",", b",", b";", b" ", b"\t", b"a", b"b", b"1", b".", b"\r", b"\x00", b"\n", b"\xe9", b"x"]
    n = rng.between(0, 25)
    return b"".join(rng.choice(alphabet) for _ in range(n))


def shrink_table(S, T, kind="csv", budget=70):
    """Greedy reduction of a table on which vita and the table oracle disagree: drop rows, then
    columns, as long as the disagreement stays.  Returns (T, line, answer, expected)."""
    sniffing = kind == "csv" and (T.get("dmode", "explicit") != "explicit" or T.get("hmode", "explicit") != "explicit")
    min_cols = 2 if sniffing else 1
    min_rows = 2 if T.get("hmode", "explicit") != "explicit" else 1

    def attempt(T2):
        if kind == "xrff":
            data, exp = render_xrff(C.SplitMix(4242), T2)
            ln = xrff_line(C.SplitMix(4243), T2, data)
        else:
            data = render_csv(C.SplitMix(4242), T2)
            exp = expected_for(T2)
            ln = csv_line(T2, data)
        ans, deaths = S.cpp([ln])
        a = ans[0] if ans else "died"
        if isinstance(exp, dict):
            bad = oracle_diff(exp, a) is not None
        elif exp == "exc":
            bad = not a.startswith("exc")
        else:
            bad = False
        return bad, ln, a, exp
    best = dict(T)
    bad, ln, a, ex = attempt(best)
    if not bad:
        return None
    used = 1
    changed = True
    while changed and used < budget:
        changed = False
        n = len(best["rows"])
        for chunk in (n // 2, n // 4, 1):
            i = 0
            while chunk >= 1 and i < len(best["rows"]) and len(best["rows"]) > min_rows and used < budget:
                cand = dict(best)
                cand["rows"] = best["rows"][:i] + best["rows"][i + chunk:]
                if len(cand["rows"]) < min_rows:
                    break
                ok2, l2, a2, e2 = attempt(cand)
                used += 1
                if ok2:
                    best, ln, a, ex, changed = cand, l2, a2, e2, True
                else:
                    i += chunk
        j = 0
        while j < best["ncols"] and best["ncols"] > min_cols and used < budget:
            if j == best["out"]:
                j += 1
                continue
            cand = dict(best)
            cand["ncols"] = best["ncols"] - 1
            cand["kinds"] = best["kinds"][:j] + best["kinds"][j + 1:]
            cand["rows"] = [r[:j] + r[j + 1:] for r in best["rows"]]
            cand["header"] = None if best["header"] is None else best["header"][:j] + best["header"][j + 1:]
            if best["out"] is not None and best["out"] > j:
                cand["out"] = best["out"] - 1
            ok2, l2, a2, e2 = attempt(cand)
            used += 1
            if ok2:
                best, ln, a, ex, changed = cand, l2, a2, e2, True
            else:
                j += 1
    return best, ln, a, ex


# ---------------------------------------------------------------------------
# histories: several imports into ONE dataframe object
# ---------------------------------------------------------------------------

CSV_EXTS = [b".csv", b".CSV", b".txt", b".dat", b""]
XRFF_EXTS = [b".xrff", b".XRFF", b".xml", b".Xml"]


def params_tokens(T):
    """<delim> <hdr> <trim> <keep> <oidx> <hook> of a csv2 / file / hist-csv request"""
    return csv_line(T, b"").split(" ", 1)[1].rsplit(" ", 1)[0]


def gen_history(rng, tier):
    """A history on one dataframe object: two or three tables of the SAME schema (kinds of the columns,
    output index, label pool; different rows: a training table, then a test / validation table) read one
    after the other - with and without header line, explicit and sniffed dialect, other delimiter /
    quoting / line ends, through read_csv(stream), read_xrff(stream) or read(path); clear() in between or
    not; on a plain dataframe or on the dataframes of a src_problem (setup_terminals after the first
    import; the later tables into the training dataframe or - after clone_schema - into the validation
    one).  Returns the description H; history_lines(H, ...) renders it."""
    fam = rng.choice(["general", "general", "general", "clear", "unamb", "unambq"])
    nimp = 2 if rng.chance(0.7) else 3
    while True:
        T0 = gen_table(rng, tier, fam)
        if not T0["loose"] and len(T0["rows"]) >= 2 * nimp:
            break
    T0["keep"] = False
    if T0["header"] is None:        # the schema has names; each table shows them or not
        T0["header"] = [(b"n_%d" % j if fam.startswith("unamb") else b"col%d" % j) for j in range(T0["ncols"])]
    if rng.chance(0.75):
        T0["filter"] = "0"
    elif any(op in "UX" for op, _ in parse_hook(T0["filter"])):
        T0["filter"] = "w3_1"
    blankcol = None
    if fam in ("general", "clear") and T0["ncols"] >= 3 and rng.chance(0.2):
        blankcol = rng.choice([j for j in range(T0["ncols"]) if j != T0["out"]])
        T0["rows"] = [r[:blankcol] + [rng.choice([b"", b" ", b""])] + r[blankcol + 1:] for r in T0["rows"]]
    # the rows are dealt out to the tables
    n = len(T0["rows"])
    cuts = sorted(rng.between(2, n - 2) for _ in range(nimp - 1)) if n >= 2 * nimp else []
    bounds = [0] + cuts + [n]
    for i in range(1, len(bounds)):
        bounds[i] = max(bounds[i], bounds[i - 1] + 2)
    bounds[-1] = max(bounds[-1], n)
    tables = []
    for i in range(nimp):
        rows = T0["rows"][bounds[i]:min(bounds[i + 1], n)][:17]
        if len(rows) < 2:
            rows = T0["rows"][-2:]
        T = dict(T0, rows=rows, xnames=T0["header"])
        T["header"] = T0["header"] if rng.chance(0.6) else None
        if fam == "general":
            T["delim"] = rng.choice(DELIMS)
            T["qprob"] = rng.choice([0.0, 0.0, 0.2, 1.0])
            T["dmode"], T["hmode"] = "explicit", "explicit"
        else:
            T["delim"] = rng.choice(DELIMS[:5])
            T["dmode"] = rng.choice(["explicit", "sniffed"])
            T["hmode"] = rng.choice(["explicit", "explicit", "sniffed"]) if fam.startswith("unamb") else "explicit"
        if fam == "unambq":
            T.pop("qprob_first", None)
            if T["header"] is None:
                T["qprob_first"] = 0.0
        T["trim"] = rng.chance(0.3)
        T["eol"] = rng.choice([b"\n", b"\n", b"\r\n"])
        T["final_eol"] = rng.chance(0.8)
        tables.append(T)
    via = "prob" if rng.chance(0.35) and T0["ncols"] >= 2 else "df"      # (a problem needs an input column)
    steps = []
    xr_ok = blankcol is None
    for i, T in enumerate(tables):
        if i > 0 and rng.chance(0.3):
            steps.append({"k": "clear"})
        if via == "prob" and i == 1 and rng.chance(0.5):
            steps.append({"k": "clone"})
        k = rng.below(10)
        if k < 6:
            steps.append({"k": "csv", "t": i})
        elif k < 8:
            steps.append({"k": "file", "t": i, "ext": rng.choice(CSV_EXTS), "fmt": "csv"})
        elif k == 8 and xr_ok:
            steps.append({"k": "xrff", "t": i})
        elif xr_ok:
            steps.append({"k": "file", "t": i, "ext": rng.choice(XRFF_EXTS), "fmt": "xrff"})
        else:
            steps.append({"k": "csv", "t": i})
    if rng.chance(0.1):
        steps.append({"k": "clear"})
    return {"family": fam, "via": via, "typing": rng.below(2), "tables": tables, "steps": steps,
            "blankcol": blankcol}


def dump_state(e):
    """the part of an expected / parsed dump that the next import starts from"""
    return {"cols": e["cols"], "classes": e["classes"]}


def history_lines(H, seed=None, rng=None):
    """-> (request line for the harness, steps with their bytes, expectations per step).
    An expectation is a dump (dict), "exc", "empty" (clear / clone: no examples) or None (outside the
    oracle's class: from there on the history is compared with the model only)."""
    r = rng if rng is not None else C.SplitMix(seed)
    toks, rendered, exps = [], [], []
    state = None                    # dump of the object so far (None = fresh); False = unknown
    train_state = None
    for st in H["steps"]:
        k = st["k"]
        if k in ("clear", "clone"):
            toks.append(k)
            rendered.append({"k": k})
            if k == "clone":
                state = train_state
            exps.append("empty")
            continue
        T = H["tables"][st["t"]]
        xr = k == "xrff" or st.get("fmt") == "xrff"
        if xr:
            data, exp = render_xrff(r, T, prior=state if state else None)
            if state is False:
                exp = None
        else:
            data = render_csv(r, T)
            exp = None
            if state is not False and oracle_applies(T):
                exp = expected_csv(T, prior=state)
        if k == "csv":
            toks.append("csv %s %s" % (params_tokens(T), hx(data)))
        elif k == "xrff":
            toks.append("xrff %s %s" % (T["filter"], hx(data)))
        else:
            toks.append("file %s %s %s" % (hx(st["ext"]), params_tokens(T), hx(data)))
        rendered.append({"k": k, "data": data, "xrff": xr, "ext": st.get("ext"), "T": T})
        exps.append(exp)
        if isinstance(exp, dict):
            state = dump_state(exp)
            if H["via"] == "prob" and not any(x["k"] == "clone" for x in rendered):
                train_state = state
        else:
            state = False           # an exception ends the history; an unknown state ends the oracle
    line = "hist %s %d %d %s" % (H["via"], H["typing"], len(toks), " ".join(toks))
    return line, rendered, exps


def parse_hist_line(line):
    """`hist <via> <typing> <n> steps...` -> (via, typing, [(kind, tokens)])"""
    t = line.split()
    via, typing, n = t[1], int(t[2]), int(t[3])
    at, steps = 4, []
    for _ in range(n):
        k = t[at]
        w = {"csv": 8, "xrff": 3, "file": 9}.get(k, 1)
        steps.append((k, t[at + 1:at + w]))
        at += w
    return via, typing, steps


def hist_xml_payloads(line):
    """the byte strings (hex) of a history whose tinyxml2 document the model needs"""
    return [tk[-1] for k, tk in parse_hist_line(line)[2] if k in ("xrff", "file")]


def history_model_line(line, docs):
    """the request for the Lean driver: XRFF documents travel as the token list of the harness' `xdoc`
    (docs: hex payload -> answer of `xdoc`)"""
    via, typing, steps = parse_hist_line(line)
    toks = []
    for k, tk in steps:
        if k in ("xrff", "file"):
            d = docs.get(tk[-1], "").split()
            if not d or d[0] != "doc":
                return None
            keep = tk if k == "file" else tk[:-1]      # (the model's read_xrff starts from the document)
            toks.append("%s %s %d %s" % (k, " ".join(keep), len(d) - 1, " ".join(d[1:])))
        else:
            toks.append(" ".join([k] + tk))
    return "hist %s %d %d %s" % (via, typing, len(steps), " ".join(toks))


def hist_parts(a):
    """`hist | p1 | p2 ...` -> [p1, p2, ...] (None when the answer is not a history answer)"""
    if not a.startswith("hist"):
        return None
    return [x.strip() for x in a.split(" | ")[1:]]


def hist_oracle(line, exps, a):
    """The property's own statement about a history, read off vita's answer: every import yields exactly
    the data rows of ITS table (the examples of earlier imports are gone, none is added), under the columns
    the object had, with the class map continued; clear() leaves no example; the variables set up after
    the first import still ask for the input their column is stored in.  -> None or a description."""
    parts = hist_parts(a)
    if parts is None:
        return "no history answer: " + a[:200]
    via, typing, steps = parse_hist_line(line)
    nimp = 0
    for i, ((k, _), exp) in enumerate(zip(steps, exps)):
        if i >= len(parts):
            return "step %d (%s) has no answer: the history stopped after %r" % (i + 1, k, parts[-1][:80] if parts else "")
        pa = parts[i]
        what = "step %d (%s%s)" % (i + 1, k, "" if k in ("clear", "clone") else
                                   ", import no. %d into the same object" % (nimp + 1))
        if k not in ("clear", "clone"):
            nimp += 1
        if exp is None:
            return None             # from here on: model only
        if exp == "empty":
            d = parse_dump(pa) if pa.startswith("ok") else None
            if d is None or d["examples"]:
                return what + ": examples left / error: " + pa[:160]
            continue
        d = oracle_diff(exp, pa)
        if d:
            return what + ": " + d
        if exp == "exc":
            return None
    if via == "prob" and len(parts) > len(steps):
        sy = parts[len(steps)]
        first = [parse_dump(x) for x in parts[:len(steps)] if x.startswith("ok ret=") and not x.startswith("ok ret=0 ")]
        # the variables were made for the columns of the first import: they must fit the examples of the last
        # one when the domains of the columns are still the same (the table oracle above says whether they
        # have to be)
        if sy.startswith("ok S") and first and first[0] is not None and \
                [c[1] for c in first[0]["cols"]] == [c[1] for c in parse_syms(sy, 3)[3]]:
            bad = check_symbols(sy, typing == 1, history=True)
            if bad:
                return "variables set up after the first import, evaluated on the examples of the last one: " + bad
    return None


def hist_same(m, a):
    """model answer vs code answer of a `hist` request"""
    pm, pc = hist_parts(m), hist_parts(a)
    if pm is None or pc is None or len(pm) != len(pc):
        return False
    for x, y in zip(pm, pc):
        if x.startswith("ok ret") and y.startswith("ok ret"):
            dx, dy = parse_dump(x), parse_dump(y)
            if dx is None or dy is None or first_diff(dx, dy) is not None:
                return False
        elif x.startswith("ok S") and y.startswith("ok S"):
            gm, lm, Pm, cm = parse_syms(x, 2)
            gc, lc, Pc, cc = parse_syms(y, 3)
            strip = lambda gs: [(n, c, [(r[0], r[1]) for r in rows], ks) for n, c, rows, ks in gs]
            if not (strip(gm) == strip(gc) and lm == lc and Pm == Pc and cm == cc):
                return False
        elif x.startswith("ok") or y.startswith("ok"):
            return False
        elif outcome_class(x) != outcome_class(y) and x != y:
            return False
    return True


def shrink_history(S, H, budget=90):
    """Greedy reduction of a history on which vita and the history oracle disagree: fewer steps, then fewer
    rows per table, then fewer columns, as long as the disagreement stays.  -> (H, line, answer, rendered, exps, diff) or None"""
    def attempt(H2):
        ln, rend, exps = history_lines(H2, seed=4242)
        ans, _ = S.cpp([ln])
        a = ans[0] if ans else "died"
        d = "aborts under the sanitizers" if a.startswith("died") else hist_oracle(ln, exps, a)
        return d, ln, a, rend, exps
    d, ln, a, rend, exps = attempt(H)
    if not d:
        return None
    best = H
    used = 1
    changed = True
    while changed and used < budget:
        changed = False
        for i in range(len(best["steps"]) - 1, -1, -1):          # drop a step
            if len([s for s in best["steps"] if s["k"] not in ("clear", "clone")]) <= 1 and \
                    best["steps"][i]["k"] not in ("clear", "clone"):
                continue
            cand = dict(best, steps=best["steps"][:i] + best["steps"][i + 1:])
            d2, l2, a2, r2, e2 = attempt(cand)
            used += 1
            if d2:
                best, d, ln, a, rend, exps, changed = cand, d2, l2, a2, r2, e2, True
            if used >= budget:
                break
        for ti in range(len(best["tables"])):                    # fewer rows
            T = best["tables"][ti]
            lo = 2 if T.get("hmode", "explicit") != "explicit" else 1
            n = len(T["rows"])
            for chunk in (n // 2, 1):
                i = 0
                while chunk >= 1 and i < len(best["tables"][ti]["rows"]) and used < budget:
                    rows = best["tables"][ti]["rows"]
                    nr = rows[:i] + rows[i + chunk:]
                    if len(nr) < lo:
                        break
                    tabs = list(best["tables"])
                    tabs[ti] = dict(tabs[ti], rows=nr)
                    cand = dict(best, tables=tabs)
                    d2, l2, a2, r2, e2 = attempt(cand)
                    used += 1
                    if d2:
                        best, d, ln, a, rend, exps, changed = cand, d2, l2, a2, r2, e2, True
                    else:
                        i += chunk
        j = 0                                                     # fewer columns (the same one in every table)
        while best["tables"] and j < best["tables"][0]["ncols"] and best["tables"][0]["ncols"] > 2 and used < budget:
            T0 = best["tables"][0]
            if j == T0["out"] or any(op in "cUX" for T in best["tables"] for op, _ in parse_hook(T["filter"])):
                j += 1
                continue
            cut = lambda xs: None if xs is None else xs[:j] + xs[j + 1:]
            tabs = [dict(T, ncols=T["ncols"] - 1, kinds=cut(T["kinds"]), rows=[cut(r) for r in T["rows"]],
                         header=cut(T["header"]), xnames=cut(T.get("xnames")),
                         out=(T["out"] - 1 if T["out"] is not None and T["out"] > j else T["out"]))
                    for T in best["tables"]]
            bc = best.get("blankcol")
            cand = dict(best, tables=tabs, blankcol=None if bc == j else bc - 1 if bc is not None and bc > j else bc)
            d2, l2, a2, r2, e2 = attempt(cand)
            used += 1
            if d2:
                best, d, ln, a, rend, exps, changed = cand, d2, l2, a2, r2, e2, True
            else:
                j += 1
    return best, ln, a, rend, exps, d


def describe_history(rendered):
    out = []
    for st in rendered:
        if st["k"] in ("clear", "clone"):
            out.append({"call": "clear()" if st["k"] == "clear" else "validation.clone_schema(training)"})
        else:
            T = st["T"]
            out.append({"call": {"csv": "read_csv(stream)", "xrff": "read_xrff(stream)"}.get(st["k"], "read(path%s)" % (st.get("ext") or b"").decode()),
                        "params": "delimiter %s, header %s, trim_ws %d, output_index %s, hook %s"
                                  % (T.get("dmode", "explicit"), ("yes" if T["header"] is not None else "no")
                                     if T.get("hmode", "explicit") == "explicit" else "guessed", T["trim"], T["out"], T["filter"]),
                        "file": st["data"].decode("latin1")})
    return out


def count_history(chk, H, rendered, exps, a):
    """the distribution of the histories (evidence)"""
    f = "hist:"
    seq = ">".join(("xrff" if st.get("xrff") else "csv") + {"csv": "", "xrff": "", "file": "(path)"}[st["k"]]
                   if st["k"] not in ("clear", "clone") else st["k"] for st in rendered)
    chk.count(f + "calls=" + seq)
    chk.count(f + "via=" + H["via"] + ("+clone_schema" if any(st["k"] == "clone" for st in rendered) else ""))
    chk.count(f + "family=" + H["family"])
    imps = [st for st in rendered if st["k"] not in ("clear", "clone")]
    chk.count(f + "imports=%d" % len(imps))
    chk.count(f + "header_lines=" + ">".join("yes" if st["T"]["header"] is not None else "no" for st in imps))
    for st in imps[1:]:
        T = st["T"]
        if not st.get("xrff"):
            chk.count(f + "later_csv_import:delimiter=%s,header=%s" % (
                T.get("dmode", "explicit"), ("yes" if T["header"] is not None else "no")
                if T.get("hmode", "explicit") == "explicit" else "guessed"))
    if H["blankcol"] is not None:
        chk.count(f + "column_without_domain")
    if any(st["T"]["filter"] != "0" for st in imps):
        chk.count(f + "hook")
    ps = hist_parts(a) or []
    chk.count(f + "imports_succeeded=%d" % sum(1 for x in ps if x.startswith("ok ret=") and not x.startswith("ok ret=0 ")))
    if any(isinstance(e, dict) and len(e["classes"]) > 1 for e in exps):
        chk.count(f + "classification")


def hook_ops(spec):
    return "none" if spec == "0" else "+".join(sorted({op for op, _ in parse_hook(spec)}))


def position(k, n):
    return "none" if k is None else "only" if n == 1 else "first" if k == 0 else "last" if k == n - 1 else "middle"


def count_params(chk, kind, T, exp, sniffed):
    """the distribution of the reading parameters (evidence): one count per request"""
    f = kind + ":"
    chk.count(f + "family=" + T["family"])
    chk.count(f + "hook=" + hook_ops(T["filter"]))
    chk.count(f + "oracle=" + ("either-reading" if isinstance(exp, dict) and "either" in exp else
                               "table" if isinstance(exp, dict) else "exception" if exp == "exc" else "model-only"))
    if kind == "xrff":
        x = T["xinfo"]
        chk.count(f + "class_attribute=" + x["class"])
        chk.count(f + "class_type=" + x["class_type"])
        for t in x["types"]:
            chk.count(f + "attribute_type=" + t)
        if hook_ops(T["filter"]) != "none":
            chk.count(f + "hook_x_class_attribute=" + x["class"])
        return
    dm = T.get("dmode", "explicit")
    hm = ("explicit-yes" if T["header"] is not None else "explicit-no") if T.get("hmode", "explicit") == "explicit" \
        else "guessed"
    chk.count(f + "delimiter=%s,header=%s" % (dm, hm))
    chk.count(f + "delimiter_char=%d" % T["delim"][0])
    chk.count(f + "trim_ws=%d" % T["trim"])
    chk.count(f + "quoting=" + ("keep" if T.get("keep") else "remove"))
    chk.count(f + "output_index=" + position(T["out"], T["ncols"]))
    if hook_ops(T["filter"]) != "none":
        chk.count(f + "hook_x_output_index=" + position(T["out"], T["ncols"]))
    if sniffed is not None:         # the sniffer's opinion about this file against the truth
        t = sniffed.split()
        if len(t) == 3 and t[0] == "ok":
            truth_h = 1 if T["header"] is not None else 0
            vote = "right" if int(t[2]) == truth_h else "wrong"
            chk.count(f + "sniffer_header_vote=%s|header=%s" % (vote, hm))
            chk.count(f + "sniffer_delimiter=%s|delimiter=%s" % ("right" if int(t[1]) == T["delim"][0] else "wrong", dm))
            if vote == "wrong" and hm != "guessed" and isinstance(exp, dict):
                chk.count(f + "explicit_header_against_sniffer_vote_with_oracle|delimiter=" + dm)


def nontrivial(kind, ln, answer):
    """csv / xrff / var: the import succeeded with at least one example and two columns;
    parse: the text has a quote; sniff: the file has at least two lines."""
    t = ln.split()
    if kind in ("csv", "xrff", "file"):
        d = parse_dump(answer) if answer.startswith("ok") else None
        return d is not None and len(d["examples"]) >= 1 and len(d["cols"]) >= 2
    if kind == "var":
        return answer.startswith(("ok V", "ok S")) and answer.split()[2] != "0"
    if kind == "hist":          # at least two imports that succeeded with examples
        ps = hist_parts(answer) or []
        return sum(1 for x in ps if x.startswith("ok ret=") and not x.startswith("ok ret=0 ")) >= 2
    if kind == "parse":
        return "22" in [t[4][i:i + 2] for i in range(0, len(t[4]), 2)] if t[4] != "-" else False
    if kind == "sniff":
        return unhx(t[1]).count(b"\n") >= 2
    return True


def run(chk, replay=None):
    rng = C.SplitMix(chk.seed)
    quick = chk.tier == "quick"
    broken = []
    ok, msg = chk.prove("Vita.C09.Props", ["Vita.C09.Props", "c09_driver"])
    if not ok:
        broken.append("theorems of Vita.C09.Props no longer check: " + msg)
    drv_ok = os.path.exists(C.driver_path("c09_driver"))
    if not drv_ok:
        broken.append("the model driver does not build")
    exe = C.build_harness("c09_read", "asan")
    S = Session(exe, "c09_driver")

    # ---- inputs ------------------------------------------------------------
    cases = []      # (kind, request line for C++, request line for the model or None, expected, info)
    rp = json.load(open(replay)).get("replay", {}) if replay else {}
    if "line" in rp:          # a concrete failing input: run exactly this request again
        k = rp.get("kind", rp["line"].split()[0].rstrip("2"))
        exp = rp.get("expected")
        def thaw(e):                    # the table oracle's expectation travels with the replay
            if isinstance(e, dict) and "either" in e:
                return {"either": [thaw(x) for x in e["either"]]}
            if isinstance(e, dict) and "hist" in e:
                return {"hist": [thaw(x) for x in e["hist"]]}
            if isinstance(e, dict):
                return dict(e, cols=[(c[0], c[1], tuple(c[2])) for c in e["cols"]],
                            examples=[(x[0], tuple(x[1])) for x in e["examples"]])
            return e
        exp = thaw(exp)
        cases.append((k, rp["line"], None if k in ("xrff", "file", "hist") or rp["line"].startswith("var2 xrff")
                      else rp["line"], exp, {"replay": True}))
    else:
        cdir = os.path.join(C.ROOT, "corpus", "C09")
        if os.path.isdir(cdir):
            for f in sorted(os.listdir(cdir)):
                for ln in open(os.path.join(cdir, f)):
                    ln = ln.strip()
                    if ln and not ln.startswith("#"):
                        k = ln.split()[0]       # (a history's model line needs the XRFF documents: built below)
                        cases.append((k, ln, None if k == "hist" else ln, None, {"corpus": f}))
        ncsv = 1800 if quick else 14000
        fams = ["general"] * 10 + ["clear"] * 3 + ["years"] * 2 + ["capsrow"] * 2 + ["unamb"] * 3 + ["unambq"] * 5
        for i in range(ncsv):
            T = gen_table(rng, chk.tier, rng.choice(fams))
            # {explicit, sniffed} delimiter x {explicit header / no-header, guessed}
            if T["family"] == "general":
                m = rng.below(20)
                T["dmode"] = "sniffed" if m in (0, 1) else "explicit"
                T["hmode"] = "sniffed" if m in (1, 2) else "explicit"
            else:
                T["dmode"] = rng.choice(["explicit", "sniffed", "sniffed"])
                T["hmode"] = rng.choice(["explicit", "explicit", "sniffed"])
            if T["hmode"] == "sniffed":
                # the number of lines the sniffer inspects (20) is a parameter of the model that no
                # theorem depends on; on inputs that fit in the window the tie does not depend on it either
                T["rows"] = T["rows"][:17]
            data = render_csv(rng, T)
            exp = expected_for(T)
            ln = csv_line(T, data)
            info = {"T": T}
            if T["dmode"] != "explicit" or T["hmode"] != "explicit" or T["family"] != "general":
                info["sniff_at"] = len(cases) + 1       # what does the sniffer say about this file?
                cases.append(("csv", ln, ln, exp, info))
                sl = "sniff " + hx(data)
                # on an unambiguous table the sniffer has to find the dialect the table was written with
                sexp = "ok %d %d" % (T["delim"][0], 1 if T["header"] is not None else 0) \
                    if T["family"] in ("unamb", "unambq") and len(T["rows"]) >= 2 else None
                cases.append(("sniff", sl, sl, sexp, {"aux": True, "T": T}))
            else:
                cases.append(("csv", ln, ln, exp, info))
            if i % 4 == 0 and T["ncols"] >= 2:
                # read + setup_terminals: variables, state constants, categories
                T2 = dict(T)
                T2["typing"] = rng.below(2)
                T2["dmode"], T2["hmode"] = "explicit", "explicit"
                via = "data"
                if rng.chance(0.3) and T2["ncols"] >= 3:   # a column without any value has no domain
                    jb = rng.below(T2["ncols"])
                    if jb != T2["out"]:
                        T2["rows"] = [r[:jb] + [rng.choice([b"", b" "])] + r[jb + 1:] for r in T2["rows"]]
                if rng.chance(0.12):      # src_problem(std::istream &, typing): default parameters
                    via = "ctor"
                    T2.update(dmode="sniffed", hmode="sniffed", out=0, filter="0", trim=False, keep=False,
                              rows=T2["rows"][:17])
                if i % 8 == 0:
                    xd, _ = render_xrff(rng, T2)
                    ln = "var2 xrff %s %d data %s" % (xrff_line(rng, T2, xd).split(" ", 1)[1].rsplit(" ", 1)[0],
                                                      T2["typing"], hx(xd))
                    cases.append(("var", ln, None, None, {"T": T2, "fmt": "xrff", "via": "data"}))
                else:
                    d2 = render_csv(rng, T2)
                    ln = "var2 csv %s %d %s %s" % (csv_line(T2, d2).split(" ", 1)[1].rsplit(" ", 1)[0], T2["typing"],
                                                   via, hx(d2))
                    cases.append(("var", ln, ln, None, {"T": T2, "fmt": "csv", "via": via}))
            if i % 3 == 0:
                xd, xexp = render_xrff(rng, T)
                cases.append(("xrff", xrff_line(rng, T, xd), None, xexp, {"T": T, "xml": xd}))
                if i % 6 == 0:
                    # dataframe::read(path, params): the extension of the file name chooses the format
                    ext = rng.choice(EXTS)
                    as_x = rng.chance(0.5)
                    isx = ext.lower() in (b".xrff", b".xml")
                    content = xd if as_x else data
                    fexp = (xexp if as_x else exp) if isx == as_x else None
                    ln = "file %s %s %s" % (hx(ext), csv_line(T, data).split(" ", 1)[1].rsplit(" ", 1)[0], hx(content))
                    cases.append(("file", ln, None, fexp, {"T": T, "ext": ext, "content": "xrff" if as_x else "csv"}))
        for _ in range(1000 if quick else 6000):
            H = gen_history(rng, chk.tier)
            ln, rend, exps = history_lines(H, rng=rng)
            cases.append(("hist", ln, None, {"hist": exps}, {"H": H, "rendered": rend}))
        for _ in range(1000 if quick else 12000):
            data, d, h = gen_unambiguous(rng)
            ln = "sniff " + hx(data)
            cases.append(("sniff", ln, ln, "ok %d %d" % (d, h), {}))
        # sniffing general tables: model vs code only (at most 17 data rows, see above)
        for _ in range(500 if quick else 6000):
            T = gen_table(rng, chk.tier)
            T["rows"] = T["rows"][:17]
            ln = "sniff " + hx(render_csv(rng, T))
            cases.append(("sniff", ln, ln, None, {}))
        for _ in range(10000 if quick else 100000):
            text = b"\n".join(gen_parse_line(rng) for _ in range(rng.between(1, 4)))
            ln = "parse %d %d %d %s" % (rng.choice(b",,,; \t"), rng.below(2), rng.below(2), hx(text))
            cases.append(("parse", ln, ln, None, {}))

    # ---- run ---------------------------------------------------------------
    cpp, deaths = S.cpp([c[1] for c in cases])
    # XRFF: the model starts from the document tinyxml2 produced
    xi = [i for i, c in enumerate(cases) if (c[0] in ("xrff", "file") or c[1].startswith("var2 xrff")) and c[2] is None]
    if xi:
        docs, _ = S.cpp(["xdoc " + cases[i][1].split()[-1] for i in xi])
        for i, dline in zip(xi, docs):
            c = cases[i]
            toks = dline.split()
            # the model's read_xrff has no dialect / output_index: only the hook travels
            t = c[1].split()
            if t[0] == "var2":       # var2 xrff <hook> <typing> <doc tokens>
                ml = "var2 xrff %s %s %s" % (t[7], t[8], " ".join(toks[1:])) if toks and toks[0] == "doc" else None
            elif t[0] == "file":     # the model decides the format: it gets the bytes and the document
                ml = "%s X %s" % (c[1], " ".join(toks[1:])) if toks and toks[0] == "doc" else None
            else:
                ml = "%s %s %s" % (t[0], t[-2], " ".join(toks[1:])) if toks and toks[0] == "doc" else None
            cases[i] = (c[0], c[1], ml, c[3], c[4])
    hi = [i for i, c in enumerate(cases) if c[0] == "hist" and c[2] is None]
    if hi:
        pay = sorted({x for i in hi for x in hist_xml_payloads(cases[i][1])})
        docs = dict(zip(pay, S.cpp(["xdoc " + x for x in pay])[0])) if pay else {}
        for i in hi:
            c = cases[i]
            cases[i] = (c[0], c[1], history_model_line(c[1], docs), c[3], c[4])
    mi = [i for i, c in enumerate(cases) if c[2] is not None]
    model = {}
    if drv_ok:
        for i, a in zip(mi, S.model([cases[i][2] for i in mi])):
            model[i] = a

    ndis = 0
    nshrunk = 0
    for i, (kind, ln, mln, exp, info) in enumerate(cases):
        a = cpp[i] if i < len(cpp) else "skipped"
        chk.seen(ln, nontrivial=nontrivial(kind, ln, a))
        chk.count("kind:" + kind)
        chk.count("cpp:" + (a.split()[0] if a.split() else "empty"))
        tags = {"kind": kind}
        if kind == "file" and "ext" in info:
            chk.count("file:extension=%s,content=%s" % (info["ext"].decode() or "none", info["content"]))
        if kind in ("csv", "xrff") and "T" in info:
            sn = cpp[info["sniff_at"]] if "sniff_at" in info and info["sniff_at"] < len(cpp) else None
            count_params(chk, kind, info["T"], exp, sn)
        rep = {"kind": kind, "line": ln, "cpp": a[:2000]}
        if mln is not None and mln != ln:
            rep["model_line"] = mln
        if a.startswith("died") or a == "skipped":
            se = [d for d in deaths if d[0] == i]
            chk.violation("%s aborts under the sanitizers: %s\n%s"
                          % ("evaluating a variable of setup_terminals on an example" if kind == "var"
                             else "import of a well-formed table", ln[:200], se[0][2][-1500:] if se else ""),
                          rep, tags=tags)
            continue
        # 1. the table oracle (independent of Lean)
        if kind == "hist":
            exps = exp["hist"] if isinstance(exp, dict) else []
            known = sum(1 for e in exps if e is not None)
            chk.count("oracle:history-" + ("table" if exps and known == len(exps) else "partial" if known else "none"))
            if "H" in info:
                count_history(chk, info["H"], info["rendered"], exps, a)
            d = hist_oracle(ln, exps, a) if exps else None
            if d and "H" in info and nshrunk < 3:
                nshrunk += 1
                sh = shrink_history(S, info["H"])
                if sh is not None:
                    H2, ln2, a2, rend2, exps2, d = sh
                    rep = {"kind": kind, "line": ln2, "cpp": a2[:3000], "shrunk_from": ln[:400],
                           "history": describe_history(rend2)}
                    exp = {"hist": exps2}
                    a = a2
                    chk.count("shrunk")
            rep["expected"] = exp
            if d:
                chk.violation("history on one dataframe object: " + d, rep, tags=tags)
        elif isinstance(exp, dict) or exp == "exc":
            chk.count("oracle:either" if isinstance(exp, dict) and "either" in exp else
                      "oracle:table" if isinstance(exp, dict) else "oracle:exc")
            d = oracle_diff(exp, a)
            if d and kind in ("csv", "xrff") and "T" in info and nshrunk < 3:
                nshrunk += 1
                sh = shrink_table(S, info["T"], kind)
                if sh is not None:                      # report the reduced table instead
                    T2, ln2, a2, exp = sh
                    a = a2
                    d = oracle_diff(exp, a)
                    rep = {"kind": kind, "line": ln2, "cpp": a[:2000], "shrunk_from": ln[:400],
                           "file": unhx(ln2.split()[-1]).decode("latin1"),
                           "params": "delimiter %s, header %s, trim_ws %d, quoting %s, output_index %s, hook %s"
                                     % (T2.get("dmode", "explicit"), T2.get("hmode", "explicit"), T2["trim"],
                                        "keep" if T2.get("keep") else "remove", T2["out"], T2["filter"])}
                    chk.count("shrunk")
            rep["expected"] = exp
            if d:
                chk.violation(d, rep, tags=tags)
        elif isinstance(exp, str):
            chk.count("oracle:sniff")
            if a != exp:
                rep["expected"] = exp
                chk.violation("sniffer disagrees with the explicit dialect on an unambiguous table: "
                              "expected %r got %r" % (exp, a), rep, tags=tags)
        else:
            chk.count("oracle:none")
        if kind == "var" and a.startswith("ok V"):
            # each variable j (0-based) must ask for input j, and a real interpreter must return that cell
            bad = None
            for j, (name, cat, rows) in enumerate(parse_vars(a, 3)):
                for asked, direct, interp in rows:
                    if int(asked) != j:
                        bad = "variable %d reads input %s" % (j, asked)
                    if direct == "s" + hx(b"<out-of-range>"):
                        bad = "variable %d reads input %s, the example has fewer inputs" % (j, asked)
                    if interp != "-" and interp != direct:
                        bad = "variable %d: interpreter returns %s, the example holds %s" % (j, interp, direct)
                    chk.count("var:evaluations")
            if bad:
                chk.violation("variable binding broken: " + bad, rep, tags=tags)
        if kind == "var" and ln.startswith("var2"):
            t = ln.split()
            strong = t[8] == "1"
            chk.count("var:format=%s,typing=%s,via=%s" % (t[1], "strong" if strong else "weak", t[9]))
            chk.count("var:hook=" + hook_ops(t[7]))
            if a.startswith("ok S"):
                groups, _, P, cols = parse_syms(a, 3)
                chk.count("var:evaluations", sum(len(g[2]) for g in groups))
                chk.count("var:state_constants", sum(len(g[3]) for g in groups))
                chk.count("var:categories=%s" % (P[0] if int(P[0]) < 4 else "4+"))
                chk.count("var:columns_without_domain", sum(1 for c in cols[1:] if c[1] == 0))
                for c in cols[1:]:
                    chk.count("var:column_domain=%d" % c[1])
                bad = check_symbols(a, strong)
                if bad:
                    chk.violation("setup_terminals / variable binding broken: " + bad, rep, tags=tags)
        # 2. model vs code
        if i in model:
            m = model[i]
            same = False
            if kind in ("csv", "xrff", "file"):
                pm, pc = parse_dump(m) if m.startswith("ok") else None, parse_dump(a) if a.startswith("ok") else None
                if pm is not None and pc is not None:
                    same = first_diff(pm, pc) is None
                else:
                    same = pm is None and pc is None and outcome_class(m) == outcome_class(a)
            elif kind == "var" and ln.startswith("var2"):
                if m.startswith("ok") and a.startswith("ok"):
                    gm, lm, Pm, cm = parse_syms(m, 2)
                    gc, lc, Pc, cc = parse_syms(a, 3)
                    strip = lambda gs: [(n, c, [(r[0], r[1]) for r in rows], ks) for n, c, rows, ks in gs]
                    same = strip(gm) == strip(gc) and lm == lc and Pm == Pc and cm == cc
                else:
                    same = outcome_class(m) == outcome_class(a) and not m.startswith("ok")
            elif kind == "hist":
                same = hist_same(m, a)
            elif kind == "var":
                if m.startswith("ok") and a.startswith("ok"):
                    vm = [(n, [(r[0], r[1]) for r in rows]) for n, _, rows in parse_vars(m, 2)]
                    vc = [(n, [(r[0], r[1]) for r in rows]) for n, _, rows in parse_vars(a, 3)]
                    same = vm == vc
                else:
                    same = outcome_class(m) == outcome_class(a) and not m.startswith("ok")
            else:
                same = m == a
            if not same:
                ndis += 1
                chk.count("model_vs_code_disagree")
                if ndis <= 3:
                    broken.append("model and code disagree on `%s`: model %r, code %r" % (ln[:300], m[:400], a[:400]))
        if i % 97 == 0:
            chk.sample({"line": ln[:160], "cpp": a[:160]})
    chk.cov["model_vs_code_disagreements"] = ndis
    chk.cov["dictionary_rounds"] = S.rounds
    chk.cov["number_strings"] = len(S.numcache)

    if broken and not [v for v in chk.violations if not v[2]]:
        for b in broken:
            chk.violation(b, {"broken": b, "searched": "%d generated inputs against the table oracle: no failing input"
                              % len(cases)}, no_input=True)
    elif broken:
        chk.notes += broken
    return chk.finish(
        level="proof",
        checker_cmd="lake build Vita.C09.Props c09_driver && lake env lean <#print axioms for every theorem>",
        rule="generated rectangular tables (1-60 rows, 1-12 columns, numeric/text/mixed columns; families general / "
             "delimiter-clear / numeric column names / capitalised first row / unambiguous) read with every combination of "
             "{explicit, sniffed} delimiter x {header(), no_header(), guessed}, trim_ws, quoting keep/remove, every output "
             "index and none, row hooks (content, position-weighted, one cell, upper-case a cell, swap two cells), random "
             "quoting, CR LF, blank lines - as CSV, as XRFF (handled and unhandled attribute types, class attribute "
             "first/middle/last/default, junk dialect/output_index) and through dataframe::read by extension; sniffer "
             "inputs, raw parser lines, setup_terminals on CSV/XRFF data (variables, state constants, categories, both "
             "typings); each is compared with the table (oracle) and with the Lean model; distinct_nontrivial = distinct "
             "request lines whose import succeeded with >= 1 example and >= 2 columns (csv/xrff/file/var), whose text has a "
             "quote (parse), whose file has >= 2 lines (sniff)",
        trusted=["Lean 4.33 kernel", "hand-written model Vita/C09/{Csv,Model}.lean (tied by the differential run)",
                 "harness/c09_read.cc + checks/c09.py (generator, table oracle, canonical dumps)",
                 "strtod/std::stod/std::stoi (uninterpreted in the model, values supplied by the harness)",
                 "tinyxml2 (the model starts from the document it delivers)", "g++ 12 ASan/UBSan"])
