"""C10 — dataset import is memory-safe on malformed input.

Lean: the model of C09 (Vita/C09/{Csv,Model}.lean) writes every container access whose index is not
evidently in range as a checked access (`Err.fault`) and std::stod / std::stoi / std::get as partial
functions (`Err.exc`); Vita/C10/Props.lean proves that the model of the code *after the fix: commits*
never faults and that an `ok` dataframe is valid with equally long inputs, and exhibits byte strings
on which the model of the code as found faults.

Tie (differential of the outcome class, every run): well-formed tables mutated (cells dropped /
duplicated, quotes unbalanced, binary bytes incl. NUL, huge numbers, truncation, blank lines, ragged
rows, rows shorter than the output index), random bytes and damaged XRFF documents are read by
vita::dataframe under ASan+UBSan+LSan (NDEBUG: asserts off) and by the model; the classes
ok / exc / fault must agree (a sanitizer abort is a fault), and when both are ok the whole dump must
agree.  Own oracle: sanitizer abort, non-standard exception, `ok` with is_valid() false or unequal
input counts.
"""
import json
import math
import os
import re
import resource
import signal
import subprocess
import sys
import threading
import time

from vlib import common as C
from checks import c09 as L

sys.path.insert(0, os.path.join(C.ROOT, "tools"))
import translate_reader  # noqa: E402


def mutate_csv(rng, T, data):
    """One malformed variant of a rendered table."""
    d = T["delim"]
    lines = data.split(b"\n")
    k = rng.below(14)
    what = "none"
    if k == 0 and lines:                      # drop a cell
        i = rng.below(len(lines))
        parts = lines[i].split(d)
        if len(parts) > 1:
            del parts[rng.below(len(parts))]
            lines[i] = d.join(parts)
        what = "drop-cell"
    elif k == 1 and lines:                    # duplicate a cell / widen a row
        i = rng.below(len(lines))
        parts = lines[i].split(d)
        j = rng.below(len(parts))
        parts[j:j] = [parts[j]] * rng.between(1, 4)
        lines[i] = d.join(parts)
        what = "dup-cell"
    elif k == 2:                              # unbalance quotes
        data = b"\n".join(lines)
        p = rng.below(len(data) + 1)
        data = data[:p] + b'"' + data[p:]
        return data, "quote"
    elif k == 3:                              # binary bytes incl. NUL
        data = bytearray(b"\n".join(lines))
        for _ in range(rng.between(1, 6)):
            p = rng.below(len(data) + 1)
            data[p:p] = bytes([rng.choice([0, 0, 1, 0x7f, 0x80, 0xff, 0xc3, 10, 13, 34])])
        return bytes(data), "binary"
    elif k == 4 and lines:                    # huge / odd numbers
        i = rng.below(len(lines))
        parts = lines[i].split(d)
        parts[rng.below(len(parts))] = rng.choice([b"1e999", b"-1e999", b"1e-999", b"9" * 400, b"99999999999",
                                                   b"0x1p-1080", b"nan", b"inf", b"-inf", b"1e", b"--1", b"1.2.3",
                                                   b"", b" ", b"1 2"])
        lines[i] = d.join(parts)
        what = "number"
    elif k == 5:                              # truncation
        data = b"\n".join(lines)
        return data[:rng.below(len(data) + 1)], "truncate"
    elif k == 6:                              # empty file / blank lines only
        return rng.choice([b"", b"\n", b"\n\n\n", b"  \n\t\n", b"\r\n", b"\x00", b'"']), "empty"
    elif k == 7 and lines:                    # ragged: a much wider row
        i = rng.below(len(lines))
        lines[i] = lines[i] + d + d.join(rng.choice([b"x", b"1", b"", b" "]) for _ in range(rng.between(1, 40)))
        what = "wider"
    elif k == 8 and lines:                    # a short row
        i = rng.below(len(lines))
        parts = lines[i].split(d)
        lines[i] = d.join(parts[:rng.below(len(parts)) + 1][:rng.between(1, 3)])
        what = "shorter"
    elif k == 9 and lines:                    # delete / duplicate / swap lines
        i = rng.below(len(lines))
        if rng.chance(0.5):
            del lines[i]
        else:
            lines.insert(i, lines[rng.below(len(lines))])
        what = "lines"
    elif k == 10 and lines:                   # another delimiter on some line
        i = rng.below(len(lines))
        lines[i] = lines[i].replace(d, rng.choice(L.DELIMS))
        what = "delimiter"
    elif k == 11 and lines:                   # first line wider or narrower than the rest
        parts = lines[0].split(d)
        lines[0] = d.join(parts[:1] if rng.chance(0.5) else parts + [b"z"] * rng.between(1, 5))
        what = "first-line"
    elif k == 12:
        what = "well-formed"
    else:                                     # mixed kinds in a column
        if lines:
            i = rng.below(len(lines))
            parts = lines[i].split(d)
            j = rng.below(len(parts))
            parts[j] = rng.choice([b"abc", b"1.5", b"", b'"x"'])
            lines[i] = d.join(parts)
        what = "kind"
    return b"\n".join(lines), what


def mutate_csv2(rng, T, data):
    """Grammar-aware damage: the places where the parser's state machine can go wrong (quotes, escapes,
    end of input inside quotes, line ends, NUL, byte order mark, very long fields, runs of blank lines)."""
    d = T["delim"]
    k = rng.below(16)
    lines = data.split(b"\n")
    i = rng.below(len(lines)) if lines else 0
    parts = lines[i].split(d) if lines else [b""]
    j = rng.below(len(parts))
    if k == 0:                                # a quoted field with doubled quotes / delimiters / quotes at its edges
        parts[j] = rng.choice([b'"a""b"', b'""""', b'"' + d + b'"', b'"a' + d + b'b"', b'""', b'" "', b' "x"', b'"x" ',
                               b'x"y', b'"x"y', b'"x""', b'""x', b'"\r"', b'"' + b'""' * rng.between(1, 40) + b'"'])
        what = "quote-grammar"
    elif k == 1:                              # the input ends inside quotes
        data2 = b"\n".join(lines[:i + 1])
        q = data2.rfind(d) + 1 if d in data2 else 0
        return data2[:q] + b'"' + data2[q:q + rng.below(6)], "eof-in-quotes"
    elif k == 2:                              # CR / CRLF / LF mixes, lone CR inside a line
        eols = [b"\n", b"\r\n", b"\r", b"\n\r", b"\r\r\n"]
        return b"".join(l + rng.choice(eols) for l in lines), "eol-mix"
    elif k == 3:                              # byte order mark(s)
        return rng.choice([b"\xef\xbb\xbf", b"\xff\xfe", b"\xfe\xff", b"\xef\xbb\xbf\xef\xbb\xbf"]) + data, "bom"
    elif k == 4:                              # NUL inside a field / at the start of a line / before the delimiter
        parts[j] = rng.choice([b"\x00", b"a\x00b", parts[j] + b"\x00", b"\x00" + parts[j], b'"\x00"'])
        what = "nul"
    elif k == 5:                              # bytes >= 0x80 (isspace / isupper / isalpha get a negative char)
        parts[j] = bytes(rng.choice([0x80, 0x85, 0xa0, 0xc3, 0xe9, 0xff, 0xfe]) for _ in range(rng.between(1, 6)))
        what = "high-bytes"
    elif k == 6:                              # a very long field / a very long line
        # (the model appends to a list: quadratic – fields of 10^4 .. 10^6 bytes are read by the scaling stream)
        parts[j] = rng.choice([b"a", b"7", b" ", b'"q"', b"ab ", b"\xc3\xa9"]) * rng.between(100, 500)
        what = "long-field"
    elif k == 7:                              # runs of blank lines between the rows
        blank = rng.choice([b"", b" ", b"\t", b"\r", b" \t \x0b\x0c"])
        lines[i:i] = [blank] * rng.between(5, 60)
        what = "blank-run"
    elif k == 8:                              # trailing / leading / doubled delimiter, a line of delimiters only
        lines[i] = rng.choice([lines[i] + d, d + lines[i], lines[i].replace(d, d + d, 1), d * rng.between(1, 8)])
        return b"\n".join(lines), "delimiter-grammar"
    elif k == 9:                              # header only / header twice / a data row first
        if rng.chance(0.5):
            return lines[0] + b"\n", "header-only"
        return lines[0] + b"\n" + data, "header-twice"
    elif k == 10:                             # a very wide record
        lines[i] = d.join(rng.choice([b"1", b"x", b""]) for _ in range(rng.between(100, 400)))
        return b"\n".join(lines), "very-wide"
    elif k == 11:                             # white space around fields and quotes
        parts[j] = rng.choice([b"  " + parts[j], parts[j] + b"\t", b" " + parts[j] + b" ", b'  "' + parts[j] + b'"  ',
                               b"\x0b" + parts[j], b"\x0c"])
        what = "blanks"
    elif k == 12:                             # numbers that strtod / stod / stoi treat differently
        parts[j] = rng.choice([b"0x10", b"1e309", b"4.9e-324", b"2147483648", b"-2147483649", b"1_000", b"1,5", b"\xef\xbc\x91",
                               b"+", b"-", b".", b"e5", b"1e+", b"0x", b"infinity", b"nan(1)", b" 1", b"1 ", b"1\t", b"00",
                               b"1" * 400, b"0." + b"0" * 400 + b"1"])
        what = "number-grammar"
    elif k == 13:                             # the whole file once more / reversed line order
        return (data + data if rng.chance(0.5) else b"\n".join(reversed(lines))), "reorder"
    elif k == 14:                             # no line end at all / only line ends
        return rng.choice([data.replace(b"\n", b""), data.replace(b"\n", b"\r"), b"\n" * rng.between(1, 40) + data]), "eol-grammar"
    else:                                     # a label column that mixes text and numbers
        if T["out"] is not None and T["out"] < len(parts):
            parts[T["out"]] = rng.choice([b"3", b"1.5", b"", b"abc", b"-0", b"1e2"])
        what = "label-kind"
    if lines:
        lines[i] = d.join(parts)
    return b"\n".join(lines), what


def mutate_xml2(rng, xml):
    """Grammar-aware damage of an XRFF text: entities, CDATA, comments, BOM, nesting, attribute syntax."""
    k = rng.below(14)
    vals = [m for m in re.finditer(rb"<value>([^<]*)</value>", xml)]
    m = vals[rng.below(len(vals))] if vals else None

    def put(txt):
        return xml[:m.start()] + b"<value>" + txt + b"</value>" + xml[m.end():] if m else xml
    if k == 0:
        return put(rng.choice([b"&amp;", b"&lt;&gt;", b"&#65;", b"&#x41;", b"&bogus;", b"&#0;", b"&#xFFFFFFFF;", b"&", b"&#;",
                               b"&amp", b"&quot;&apos;", b"1&#32;", b"&#x31;", b"&amp;" * rng.between(2, 300)])), "entity"
    if k == 1:
        return put(rng.choice([b"<![CDATA[7]]>", b"<![CDATA[<&>]]>", b"<![CDATA[]]>", b"<![CDATA[ ]] ]]>", b"<![CDATA[x",
                               b"a<![CDATA[b]]>c", b"<![CDATA[" + b"ab" * rng.between(10, 2000) + b"]]>"])), "cdata"
    if k == 2:
        return put(rng.choice([b"<!-- c -->5", b"5<!---->", b"<!-- -- -->", b"<!--", b"<?pi x?>5", b"<!DOCTYPE x>"])), "comment"
    if k == 3:
        return rng.choice([b"\xef\xbb\xbf", b"\xff\xfe", b"\xef\xbb\xbf\n\n", b"\x00"]) + xml, "bom"
    if k == 4:                               # nesting inside a value / around the instances
        dpt = rng.choice([1, 2, 5, 40, 98, 99, 100, 101, 150, 400])
        if rng.chance(0.5):
            return put(b"<v>" * dpt + b"7" + b"</v>" * dpt), "nesting"
        return xml.replace(b"<instances>", b"<g>" * dpt + b"<instances>", 1).replace(b"</instances>", b"</instances>" + b"</g>" * dpt, 1), \
            "nesting"
    if k == 5:                               # attribute syntax
        a = rng.choice([(b'name="', b"name='"), (b'type="numeric"', b"type=numeric"), (b'type="', b'type = "'),
                        (b'class="yes"', b'class="YES"'), (b'class="yes"', b'class="yes" class="yes"'), (b' name="', b' name="&quot;'),
                        (b'type="nominal"', b'type="nominal" type="string"'), (b"/>", b" / >"), (b'name="', b'Name="')])
        return xml.replace(a[0], a[1], rng.between(1, 3)), "attribute-syntax"
    if k == 6:                               # closing tags dropped / crossed
        t = rng.choice([b"</value>", b"</instance>", b"</attributes>", b"</header>", b"</body>", b"</dataset>", b"</label>"])
        return xml.replace(t, rng.choice([b"", b"</x>", t + t]), rng.between(1, 2)), "tags"
    if k == 7:                               # self-closing and white-space-only values
        return put(rng.choice([b"", b" ", b"\n\t", b"\r\n"])) if rng.chance(0.6) else \
            (xml[:m.start()] + b"<value/>" + xml[m.end():] if m else xml), "empty-value"
    if k == 8:                               # a very long value / name / very many values
        if rng.chance(0.5):
            return put(rng.choice([b"9", b"ab", b" "]) * rng.between(200, 1500)), "long-value"
        return xml.replace(b"</instance>", b"<value>1</value>" * rng.between(50, 400) + b"</instance>", 1), "many-values"
    if k == 9:                               # sections twice / in another order
        hdr = re.search(rb"<header>.*?</header>", xml, re.S)
        body = re.search(rb"<body>.*?</body>", xml, re.S)
        if hdr and body:
            if rng.chance(0.5):
                return xml.replace(hdr.group(0), hdr.group(0) + hdr.group(0), 1), "header-twice"
            return xml.replace(hdr.group(0), b"@@", 1).replace(body.group(0), hdr.group(0), 1).replace(b"@@", body.group(0), 1), \
                "body-first"
        return xml, "well-formed"
    if k == 10:                              # labels: many, empty, nested, on a non-nominal attribute
        return xml.replace(b"/>", b"><label>a</label><label/><label> </label><label><b>x</b></label></attribute>", 1), "labels"
    if k == 11:                              # NUL / high bytes / CR inside the text
        xs = bytearray(xml)
        for _ in range(rng.between(1, 4)):
            xs[rng.below(len(xs))] = rng.choice([0, 0x80, 0xff, 13, 9, 0xc3])
        return bytes(xs), "bytes"
    if k == 12:                              # very many attributes / instances
        at = re.search(rb"<attribute [^>]*/>", xml)
        if at and rng.chance(0.5):
            return xml.replace(at.group(0), at.group(0) * rng.between(20, 200), 1), "many-attributes"
        ins = re.search(rb"<instance>.*?</instance>", xml, re.S)
        return (xml.replace(ins.group(0), ins.group(0) * rng.between(20, 200), 1) if ins else xml), "many-instances"
    return re.sub(rb">\s*<", lambda _m: rng.choice([b"><", b">\n<", b">\r\n  <", b"> <"]), xml), "whitespace"


def mutate_xml(rng, xml):
    k = rng.below(10)
    if k == 0:
        return xml[:rng.below(len(xml) + 1)], "truncate"
    if k == 1:                               # drop some <value> elements
        vals = [m for m in re.finditer(rb"<value>[^<]*</value>", xml)]
        if vals:
            for m in sorted({vals[rng.below(len(vals))] for _ in range(rng.between(1, 4))}, key=lambda m: -m.start()):
                xml = xml[:m.start()] + xml[m.end():]
        return xml, "drop-value"
    if k == 2:                               # duplicate values
        vals = [m for m in re.finditer(rb"<value>[^<]*</value>", xml)]
        if vals:
            m = vals[rng.below(len(vals))]
            xml = xml[:m.end()] + m.group(0) * rng.between(1, 5) + xml[m.end():]
        return xml, "dup-value"
    if k == 3:                               # empty instances
        return xml.replace(b"<instance>", b"<instance></instance><instance>", rng.between(1, 3)), "empty-instance"
    if k == 4:                               # several / no class attributes
        return xml.replace(b"<attribute ", b'<attribute class="yes" ', rng.between(1, 3)), "class-attr"
    if k == 5:
        xs = bytearray(xml)
        for _ in range(rng.between(1, 5)):
            p = rng.below(len(xs))
            xs[p] = rng.choice([0, 60, 62, 38, 34, 0xff, 32])
        return bytes(xs), "bytes"
    if k == 6:
        a = rng.choice([b"<instances>", b"<attributes>", b"<body>", b"<header>", b"</instances>", b"type=\"numeric\"",
                        b"type=\"string\"", b"name="])
        return xml.replace(a, rng.choice([b"", b"<x>", b"type=\"date\"", b"type=\"integer\"", b"nam="]), 1), "structure"
    if k == 7:                               # numbers that do not convert
        vals = [m for m in re.finditer(rb"<value>[^<]*</value>", xml)]
        if vals:
            m = vals[rng.below(len(vals))]
            xml = xml[:m.start()] + b"<value>" + rng.choice([b"1e999", b"abc", b"", b"99999999999", b"1.5", b" 7 "]) \
                + b"</value>" + xml[m.end():]
        return xml, "number"
    if k == 8:                               # remove all attributes / all instances
        if rng.chance(0.5):
            return re.sub(rb"<attribute [^>]*/>", b"", xml), "no-attribute"
        return re.sub(rb"<instance>.*?</instance>", b"", xml, flags=re.S), "no-instance"
    return xml, "well-formed"


# ---------------------------------------------------------------------------
# resource-scaling inputs (harness/c10_scale.cc): reduced stack, CPU watchdog
# ---------------------------------------------------------------------------

STACK_KB = 256          # stack of the reading thread (the default is 8 MiB: recursion per item shows 32x earlier)
CPU_S = 20              # CPU-time watchdog of one reading (the slowest reading of the unchanged tree takes < 1 s)
# bytes: high-water(4n) - high-water(n).  A frame per item is >= 32 bytes x 3n items (>= 144 kB at n = 1500); the
# sort inside symbol_set::insert adds ~5 kB per factor 4 (depth O(log n)), everything else is flat.
STACK_GROWTH_TOL = 16384


def chunk(b, n=1):
    return "%s*%d" % (b.hex(), n) if n != 1 else b.hex()


def recipe(*parts):
    """parts: bytes or (bytes, count)"""
    items = []
    for p in parts:
        if isinstance(p, tuple):
            if p[1] > 0 and p[0]:
                items.append(chunk(p[0], p[1]))
        elif p:
            items.append(chunk(p))
    return "+".join(items) or "-"


def expand_recipe(r):
    if r == "-":
        return b""
    out = []
    for it in r.split("+"):
        h, _, n = it.partition("*")
        out.append(bytes.fromhex(h) * (int(n) if n else 1))
    return b"".join(out)


XHEAD = b'<?xml version="1.0"?>\n<dataset name="s">\n<header>\n<attributes>\n'
XMID = b"</attributes>\n</header>\n<body>\n<instances>\n"
XTAIL = b"</instances>\n</body>\n</dataset>\n"
XATTR2 = b'<attribute name="a" type="numeric"/>\n<attribute class="yes" name="y" type="numeric"/>\n'
XINST = b"<instance><value>1</value><value>2</value></instance>\n"


def scale_families(rng, n):
    """Every family at size `n`: (name, request without the recipe, recipe parts, expectation, flags).
    expectation: None or a dict of `key=value` tokens the `ok` answer must carry / {"class": "exc"};
    flags: "bounded-depth" = the stack may grow with n up to a fixed bound (XML nesting: tinyxml2 stops
    at depth 100), so the growth of the high-water mark is not judged."""
    csv = "scale csv %d %d" % (STACK_KB, CPU_S)
    row, row2 = b"1,2\n", b"3,4\n"
    blank = rng.choice([b"\n", b"\r\n", b" \n", b"\t \r\n", b" \t\x0b\x0c\n"])
    fam = []

    def ok(examples, cols=None, **kw):
        d = {"examples": examples}
        if cols is not None:
            d["cols"] = cols
        d.update(kw)
        return d

    # runs of skipped lines: empty, white space only, at the start / in the middle / at the end
    fam.append(("csv:empty-lines-middle", csv + " 44 0 0 0 0 0", [(row, 3), (b"\n", n), (row2, 2)], ok(5, 2), ""))
    fam.append(("csv:blank-lines-middle", csv + " 44 0 0 0 0 0", [(row, 3), (blank, n), (row2, 2)], ok(5, 2), ""))
    fam.append(("csv:blank-lines-start", csv + " 44 0 0 0 0 0", [(blank, n), (row, 3)], ok(3, 2), ""))
    fam.append(("csv:blank-lines-end", csv + " 44 0 0 0 0 0", [(row, 3), (blank, n)], ok(3, 2), ""))
    fam.append(("csv:blank-lines-only", csv + " 44 0 0 0 0 0", [(blank, n)], {"class": "exc"}, ""))
    fam.append(("csv:blank-lines-start-sniffed", csv + " 0 -1 0 0 0 0", [(blank, n), (b"a,b\n", 1), (row, 4)], ok(4, 2), ""))
    fam.append(("csv:blank-lines-interleaved", csv + " 44 0 0 0 0 0", [(row + blank * 3, n // 4)], ok(n // 4, 2), ""))
    # runs of records the filter rejects / read_record skips / the output index does not reach
    fam.append(("csv:filter-rejected-run", csv + " 44 0 0 0 0 p78", [(row, 3), (b"x,1\n", n), (row2, 2)], ok(5, 2), ""))
    fam.append(("csv:filter-rejects-all", csv + " 44 0 0 0 0 p78", [(b"x,1\n", n)], {"class": "exc"}, ""))
    fam.append(("csv:filter-rejected-and-blank", csv + " 44 0 0 0 0 p78", [(row, 2), (b"x,1\n\n \n", n // 2), (row2, 2)],
                ok(4, 2), ""))
    fam.append(("csv:ragged-run", csv + " 44 0 0 0 0 0", [(row, 3), (b"1,2,3\n", n // 2), (b"7\n", n // 2), (row2, 2)],
                ok(5, 2), ""))
    fam.append(("csv:short-of-output-index", csv + " 44 0 0 0 1 0", [(row, 3), (b"7\n", n), (row2, 2)], ok(5, 2), ""))
    # many records, many columns, long fields and lines
    fam.append(("csv:many-rows", csv + " 44 0 0 0 0 0", [(row, n)], ok(n, 2), ""))
    fam.append(("csv:many-classes", csv + " 44 0 0 0 0 0", [(b"a,1\nb,2\n", n // 2)], ok(2 * (n // 2), 2, classes=2), ""))
    m = max(n // 4, 8)
    fam.append(("csv:many-columns", csv + " 44 0 0 0 0 0", [(b"1,", m), b"1\n", (b"2,", m), b"2\n"], ok(2, m + 1), ""))
    fam.append(("csv:many-columns-sniffed", csv + " 0 -1 0 0 0 0", [(b"h,", m), b"h\n", (b"1,", m), b"1\n", (b"2,", m), b"2\n"],
                None, ""))
    fam.append(("csv:many-empty-columns", csv + " 44 0 0 0 0 0", [b"1", (b",", m), b"\n", b"2", (b",", m), b"\n"],
                ok(2, m + 1), ""))
    fam.append(("csv:long-quoted-field", csv + " 44 0 0 0 0 0", [b'1,"', (b"ab", 20 * n), b'"\n2,"c"\n'], ok(2, 2), ""))
    # outside quotes `parse_line` trims a copy of the field for every character: quadratic (96 kB of blanks: 16 s under
    # ASan) – these three families stay below the sizes at which that cost comes near the watchdog
    fam.append(("csv:long-unquoted-field", csv + " 44 0 0 0 0 0", [b"1,", (b"ab", min(n, 24000)), b"\n2,c\n"], ok(2, 2), ""))
    fam.append(("csv:doubled-quotes-run", csv + " 44 0 0 0 0 0", [b'1,"', (b'""', 2 * n), b'"\n2,"c"\n'], ok(2, 2), ""))
    fam.append(("csv:unbalanced-quote-long", csv + " 44 0 0 0 0 0", [b'1,"', (b"a,", 2 * n), b"\n2,c\n"], ok(2, 2), ""))
    fam.append(("csv:quote-chars-run", csv + " 44 0 0 0 0 0", [b"1,", (b'"', 2 * n + 1), b"\n2,c\n"], None, ""))
    fam.append(("csv:long-blank-field-trim", csv + " 44 0 1 0 0 0", [b"1,", (b" ", 2 * min(n, 8000)), b"x\n2,c\n"], ok(2, 2), ""))
    fam.append(("csv:nul-run", csv + " 44 0 0 0 0 0", [(row, 2), (b"\x00", n), b"\n", (row2, 2)], None, ""))
    fam.append(("csv:cr-run", csv + " 44 0 0 0 0 0", [(row, 2), (b"\r", n), b"\n", (row2, 2)], ok(4, 2), ""))
    fam.append(("csv:high-bytes-run", csv + " 44 0 0 0 0 0", [b"1,", (b"\xff\xc3\x80", min(n, 12000)), b"\n2,c\n"], ok(2, 2), ""))
    fam.append(("csv:no-newline-at-all", csv + " 0 -1 0 0 0 0", [(b"ab;", 2 * n)], None, ""))
    # the parser alone and the sniffer
    fam.append(("parse:blank-run", "scale parse %d %d 44 0 0 0" % (STACK_KB, CPU_S), [(row, 1), (blank, n), (row2, 1)],
                {"records": 2}, ""))
    fam.append(("parse:filtered-run", "scale parse %d %d 44 0 1 e3" % (STACK_KB, CPU_S), [(row, 1), (b"1,2,3\n", n), (row2, 1)],
                {"records": 2}, ""))
    fam.append(("sniff:many-lines", "scale sniff %d %d" % (STACK_KB, CPU_S), [(b"a;b;c\n", 1), (b"1;2;3\n", n)],
                {"delim": 59}, ""))
    fam.append(("sniff:blank-run", "scale sniff %d %d" % (STACK_KB, CPU_S), [(blank, n), (b"a;b;c\n", 1), (b"1;2;3\n", 30)],
                {"delim": 59}, ""))
    fam.append(("sniff:irregular-run", "scale sniff %d %d" % (STACK_KB, CPU_S), [(b"a;b;c\n", 1), (b"1;2\n", n), (b"1;2;3\n", 5)],
                None, ""))
    # src_problem(std::istream &) and dataframe::read(path)
    fam.append(("prob:many-rows", "scale prob %d %d %d" % (STACK_KB, CPU_S, rng.below(2)), [b"y,a\n", (b"1,2\n", n)],
                ok(n, 2, variables=1), ""))
    fam.append(("prob:blank-run", "scale prob %d %d 0" % (STACK_KB, CPU_S), [b"y,a\n", (row, 2), (blank, n), (row2, 2)],
                ok(4, 2, variables=1), ""))
    mp = min(m, 3000)     # symbol_set::insert is quadratic in the number of symbols (6400 columns: 4 s, 25600: > 60 s)
    fam.append(("prob:many-columns", "scale prob %d %d %d" % (STACK_KB, CPU_S, rng.below(2)),
                [(b"1,", mp), b"1\n", (b"2,", mp), b"2\n"], ok(2, mp + 1, variables=mp), ""))
    fam.append(("file:csv-blank-run", "scale file %d %d %s" % (STACK_KB, CPU_S, rng.choice([b".csv", b".txt", b""]).hex() or "-"),
                [b"y,a\n", (row, 2), (blank, n), (row2, 2)], ok(4, 2), ""))
    fam.append(("file:xrff-many-instances", "scale file %d %d %s" % (STACK_KB, CPU_S, rng.choice([b".xrff", b".XML"]).hex()),
                [XHEAD, XATTR2, XMID, (XINST, n), XTAIL], ok(n, 2), ""))
    # XRFF
    xr = "scale xrff %d %d" % (STACK_KB, CPU_S)
    fam.append(("xrff:many-instances", xr + " 0", [XHEAD, XATTR2, XMID, (XINST, n), XTAIL], ok(n, 2), ""))
    fam.append(("xrff:many-empty-instances", xr + " 0", [XHEAD, XATTR2, XMID, (XINST, 2), (b"<instance></instance>\n<instance/>", n),
                                                         XTAIL], ok(2, 2), ""))
    fam.append(("xrff:short-instances", xr + " 0", [XHEAD, XATTR2, XMID, (XINST, 2), (b"<instance><value>1</value></instance>\n", n),
                                                    XTAIL], ok(2, 2), ""))
    fam.append(("xrff:filter-rejected-run", xr + " p39", [XHEAD, XATTR2, XMID, (XINST, 2),
                                                         (b"<instance><value>9</value><value>2</value></instance>\n", n), XTAIL],
                ok(2, 2), ""))
    fam.append(("xrff:many-attributes", xr + " 0", [XHEAD, (b'<attribute name="a" type="numeric"/>\n', m), XMID,
                                                    b"<instance>", (b"<value>1</value>", m), b"</instance>\n",
                                                    b"<instance>", (b"<value>2</value>", m), b"</instance>\n", XTAIL],
                ok(2, m), ""))
    fam.append(("xrff:many-values-in-instance", xr + " 0", [XHEAD, XATTR2, XMID, (XINST, 2), b"<instance>", (b"<value>1</value>", n),
                                                            b"</instance>\n", XTAIL], ok(2, 2), ""))
    fam.append(("xrff:many-labels", xr + " 0", [XHEAD, b'<attribute name="c" type="nominal">', (b"<label>l</label>", n),
                                                b"</attribute>\n", b'<attribute class="yes" name="y" type="numeric"/>\n', XMID,
                                                b"<instance><value>l</value><value>2</value></instance>\n" * 2, XTAIL], ok(2, 2), ""))
    fam.append(("xrff:many-class-attributes", xr + " 0", [XHEAD, (b'<attribute class="yes" name="y" type="numeric"/>\n', n), XMID,
                                                          XTAIL], {"class": "exc"}, ""))
    fam.append(("xrff:long-value", xr + " 0", [XHEAD, b'<attribute name="a" type="string"/>\n<attribute class="yes" name="y" '
                                               b'type="numeric"/>\n', XMID, b"<instance><value>", (b"ab", 20 * n),
                                               b"</value><value>2</value></instance>\n", XINST.replace(b">1<", b">z<"), XTAIL],
                ok(2, 2), ""))
    fam.append(("xrff:entities-run", xr + " 0", [XHEAD, b'<attribute name="a" type="string"/>\n<attribute class="yes" name="y" '
                                                 b'type="numeric"/>\n', XMID, b"<instance><value>",
                                                 (rng.choice([b"&amp;", b"&lt;", b"&#65;", b"&#x41;", b"&quot;"]), n),
                                                 b"</value><value>2</value></instance>\n", XINST.replace(b">1<", b">z<"), XTAIL],
                ok(2, 2), ""))
    fam.append(("xrff:cdata-long", xr + " 0", [XHEAD, b'<attribute name="a" type="string"/>\n<attribute class="yes" name="y" '
                                               b'type="numeric"/>\n', XMID, b"<instance><value><![CDATA[", (b"<&>", 4 * n),
                                               b"]]></value><value>2</value></instance>\n", XINST.replace(b">1<", b">z<"), XTAIL],
                ok(2, 2), ""))
    fam.append(("xrff:comment-long", xr + " 0", [XHEAD, XATTR2, b"<!--", (b"- ", 4 * n), b"-->", XMID, (XINST, 2), XTAIL], ok(2, 2), ""))
    fam.append(("xrff:many-xml-attributes", xr + " 0", [XHEAD, b'<attribute name="a" type="numeric" ', (b'z="1" ', min(n, 4000)), b"/>\n",
                                                        b'<attribute class="yes" name="y" type="numeric"/>\n', XMID, (XINST, 2), XTAIL],
                None, ""))
    fam.append(("xrff:bom-and-blank-run", xr + " 0", [b"\xef\xbb\xbf", XHEAD, XATTR2, (b" \n", n), XMID, (XINST, 2), XTAIL], ok(2, 2), ""))
    depth = min(n // 64 + 10, 90)      # inside tinyxml2's limit (100 nested elements)
    fam.append(("xrff:deep-nesting-inside-limit", xr + " 0", [XHEAD, XATTR2, XMID, (XINST, 2), b"<instance><value>1",
                                                              (b"<v>", depth), (b"</v>", depth), b"</value><value>2</value></instance>\n",
                                                              XTAIL], None, "bounded-depth"))
    fam.append(("xrff:deep-nesting-beyond-limit", xr + " 0", [XHEAD, XATTR2, XMID, (b"<v>", n), (b"</v>", n), XTAIL],
                {"class": "exc"}, "bounded-depth"))
    fam.append(("xrff:unclosed-run", xr + " 0", [XHEAD, XATTR2, XMID, (b"<instance>", n)], {"class": "exc"}, "bounded-depth"))
    fam.append(("xrff:siblings-unclosed-values", xr + " 0", [XHEAD, XATTR2, XMID, b"<instance>", (b"<value/>", n)], {"class": "exc"}, ""))
    return [(nm, req, recipe(*parts), exp, fl) for nm, req, parts, exp, fl in fam]


def scale_tokens(a):
    d = {}
    for w in a.split():
        k, eq, v = w.partition("=")
        if eq:
            d[k] = v
    return d


def run_scale(chk, exe, rng, quick, only=None):
    """The resource-scaling stream.  Every family is read at size n and 4n on a 256 kB stack under a CPU
    watchdog.  Violations (own oracle, concrete input = the request line): the stack is exhausted; the
    watchdog fires; any other fault; the high-water mark of the stack grows with n; the outcome is not
    the expected one.  Returns the number of requests."""
    sizes = [(1500, 6000)] if quick else [(1500, 6000), (12000, 48000)]
    reqs = []
    if only is not None:
        reqs.append(("replay", only, None, "", None))
    else:
        for n1, n2 in sizes:
            for (nm, req, rc1, exp1, fl), (_, _, rc2, exp2, _) in zip(scale_families(C.SplitMix(chk.seed + 77), n1),
                                                                      scale_families(C.SplitMix(chk.seed + 77), n2)):
                reqs.append((nm, req + " " + rc1, exp1, fl, len(reqs) + 1))
                reqs.append((nm, req + " " + rc2, exp2, fl, None))
    env = {"ASAN_OPTIONS": C.SAN_ENV["ASAN_OPTIONS"] + ":hard_rss_limit_mb=6000"}
    ans = []
    at = 0
    while at < len(reqs):          # in batches: a tree on which everything hangs must not take hours
        step = 1 if any(a.startswith("timeout") for a in ans) else 8
        part, _ = C.run_lines(exe, [r[1] for r in reqs[at:at + step]], env=env, timeout=3600)
        at += step
        ans += part
        if sum(1 for a in ans if a.startswith("timeout")) >= 3:
            chk.notes.append("scaling stream stopped after 3 watchdog timeouts (%d of %d requests run)" % (len(ans), len(reqs)))
            reqs = reqs[:len(ans)]
            break
    growth = {}
    for i, (nm, ln, exp, fl, pair) in enumerate(reqs):
        a = ans[i] if i < len(ans) else "skipped"
        tk = scale_tokens(a)
        fam = nm.split(":")[0]
        chk.seen(ln, nontrivial=True)
        chk.count("scale:" + nm)
        cls = a.split()[0] if a else "?"
        chk.count("scale-outcome:" + (" ".join(a.split()[:2]) if cls in ("exc", "fault", "timeout") else cls))
        rep = {"kind": "scale", "line": ln, "cpp": a[:600], "family": nm, "stack_kB": STACK_KB, "cpu_limit_s": CPU_S,
               "input_bytes": tk.get("in"), "note": "recipe = `+`-joined <hexbytes>*<count>; the default stack is 8 MiB = "
               "%d x the stack of this run" % (8192 // STACK_KB)}
        if a.startswith("fault stack"):
            if "confirmed" not in growth:       # once per run: the same shape, 32 x larger, on the default 8 MiB stack
                toks = ln.split()
                toks[2] = "8192"
                toks[-1] = "+".join(("%s*%d" % (it.split("*")[0], int(it.split("*")[1]) * (8192 // STACK_KB))
                                     if "*" in it and int(it.split("*")[1]) >= 500 else it) for it in toks[-1].split("+"))
                big, _ = C.run_lines(exe, [" ".join(toks)], env=env, timeout=3600)
                growth["confirmed"] = 0
                rep["default_stack_8MiB"] = {"line": " ".join(toks), "cpp": (big[0] if big else "")[:300]}
            chk.violation("reading exhausts a %d kB stack (stack depth grows with the input; neither a dataframe nor an "
                          "exception): %s -> %s" % (STACK_KB, nm, a[:120]), rep,
                          tags={"kind": "scale", "site": "stack", "family": nm})
            continue
        if a.startswith("timeout"):
            SUSPECT[0] = True
            chk.violation("reading does not terminate within the CPU watchdog (%s): %s" % (a, nm), rep,
                          tags={"kind": "scale", "site": "timeout", "family": nm})
            continue
        if cls not in ("ok", "exc"):
            chk.violation("reading a scaled input ends in %s: %s" % (a[:160], nm), rep,
                          tags={"kind": "scale", "site": "fault", "family": nm})
            continue
        if cls == "ok" and "valid" in tk and (tk.get("valid") != "1" or tk.get("eqin") != "1"):
            chk.violation("reading returns normally but the dataframe fails its consistency check: " + a[:120], rep,
                          tags={"kind": "scale", "site": "invalid-result", "family": nm})
            continue
        if exp is not None:
            good = (cls == "exc") if exp.get("class") == "exc" else \
                (cls == "ok" and all(tk.get(k) == str(v) for k, v in exp.items()))
            if not good:
                chk.violation("a scaled input is not read as expected (%s): expected %s, got %s" % (nm, exp, a[:160]),
                              rep, tags={"kind": "scale", "site": "unexpected", "family": nm})
                continue
        if pair is not None and i + 1 < len(reqs):
            b = ans[i + 1] if i + 1 < len(ans) else ""
            tb = scale_tokens(b)
            if "stack" in tk and "stack" in tb:
                g = int(tb["stack"]) - int(tk["stack"])
                growth[nm] = max(growth.get(nm, 0), g)
                if g > STACK_GROWTH_TOL and "bounded-depth" not in fl:
                    rep2 = dict(rep, line=reqs[i + 1][1], cpp=b[:600], smaller={"line": ln, "cpp": a[:300]})
                    chk.violation("the stack depth of reading grows with the input (%s: high-water %s bytes at size n, "
                                  "%s at 4n): a larger input of the same shape exhausts the stack" % (nm, tk["stack"], tb["stack"]),
                                  rep2, tags={"kind": "scale", "site": "stack-growth", "family": nm})
            # CPU growth exponent (evidence only: quadratic work terminates)
            try:
                t1, t2 = int(tk["cpu_ms"]), int(tb["cpu_ms"])
                s1, s2 = int(tk["in"]), int(tb["in"])
                if t1 >= 20 and s2 > s1:
                    chk.cov.setdefault("scale_cpu_exponent", {})[nm] = round(math.log(max(t2, 1) / t1) / math.log(s2 / s1), 2)
            except (KeyError, ValueError):
                pass
    growth.pop("confirmed", None)
    chk.cov["scale_stack_growth_bytes"] = {k: v for k, v in sorted(growth.items()) if v > 256}
    chk.cov["scale_stack_kB"] = STACK_KB
    return len(reqs)


# ---------------------------------------------------------------------------
# running the differential harness under a watchdog: a reading that does not return is a result
# ---------------------------------------------------------------------------

STALL_S = 150       # wall seconds without a single answer before the current request is suspected
STALL_AGAIN_S = 25  # the same once a non-terminating request has been confirmed
MAX_TIMEOUTS = 3    # confirmed non-terminating requests after which the rest of the stream is skipped
CONFIRM_CPU_S = 20   # CPU seconds the suspected request gets on its own (a normal one takes milliseconds)


def _limit_cpu():
    resource.setrlimit(resource.RLIMIT_CPU, (CONFIRM_CPU_S, CONFIRM_CPU_S + 2))


SUSPECT = [False]     # a reading has already been seen not to terminate: do not wait long for the next ones


def run_lines_wd(exe, lines, env=None, max_restarts=25):
    """`C.run_lines` with a watchdog.  When the harness stops answering for STALL_S seconds the request it is
    working on is run again on its own under RLIMIT_CPU: killed by SIGXCPU -> answer `timeout cpu=<s>`
    (non-termination, load independent); otherwise its answer is taken (the machine was just busy).
    Returns (answers, deaths) like C.run_lines."""
    e = dict(os.environ)
    e.update(C.SAN_ENV)
    if env:
        e.update(env)
    answers, deaths, start = [], [], 0
    errf = os.path.join(C.BUILD, "c10_wd_stderr.%d.txt" % os.getpid())
    while start < len(lines):
        with open(errf, "wb") as ef:
            p = subprocess.Popen([exe], stdin=subprocess.PIPE, stdout=subprocess.PIPE, stderr=ef, env=e)
            got = []

            def feed():
                try:
                    p.stdin.write(("\n".join(lines[start:]) + "\n").encode())
                    p.stdin.close()
                except (BrokenPipeError, OSError):
                    pass

            def read():
                for ln in p.stdout:
                    got.append(ln.decode("utf-8", "replace").rstrip("\n"))
            tf, tr = threading.Thread(target=feed, daemon=True), threading.Thread(target=read, daemon=True)
            tf.start()
            tr.start()
            last, last_t, hung = 0, time.time(), False
            while True:
                tr.join(0.5)
                if not tr.is_alive():
                    break
                if len(got) != last:
                    last, last_t = len(got), time.time()
                elif time.time() - last_t > (STALL_AGAIN_S if SUSPECT[0] else STALL_S):
                    hung = True
                    p.kill()
                    tr.join(10)
                    break
            rc = p.wait()
        want = len(lines) - start
        got = got[:want]
        answers += got
        if not hung and rc == 0 and len(got) >= want:
            break
        idx = start + len(got)
        if idx >= len(lines):
            break
        if hung:
            # confirm on its own, under a CPU limit
            q = subprocess.run([exe], input=(lines[idx] + "\n").encode(), stdout=subprocess.PIPE, stderr=subprocess.PIPE,
                               env=e, preexec_fn=_limit_cpu)
            out = q.stdout.decode("utf-8", "replace").splitlines()
            if q.returncode in (-signal.SIGXCPU, -signal.SIGKILL):
                answers.append("timeout cpu=%d" % CONFIRM_CPU_S)
                SUSPECT[0] = True
            elif q.returncode == 0 and out:
                answers.append(out[0])
            else:
                deaths.append((idx, q.returncode, q.stderr.decode("utf-8", "replace")[-16000:]))
                answers.append("died rc=%d" % q.returncode)
        else:
            try:
                tail = open(errf, "rb").read().decode("utf-8", "replace")[-16000:]
            except OSError:
                tail = ""
            deaths.append((idx, rc, tail))
            answers.append("died rc=%d" % rc)
        start = idx + 1
        if len(deaths) >= max_restarts or sum(1 for a in answers if a.startswith("timeout")) >= (1 if SUSPECT[0] else MAX_TIMEOUTS):
            answers += ["skipped"] * (len(lines) - start)
            break
    try:
        os.remove(errf)
    except OSError:
        pass
    return answers, deaths


def site_of(stderr_tail):
    """Where the sanitizer fired: the function of vita nearest to the top of the stack of the access itself (the
    stacks of the allocation / deallocation that follow in the report are not looked at)."""
    at = max(stderr_tail.rfind("ERROR: AddressSanitizer"), stderr_tail.rfind("runtime error:"))
    if at >= 0:
        stderr_tail = stderr_tail[at:]
        for stop in ("allocated by", "freed by", "is located", "previously allocated", "\n\n"):
            cut = stderr_tail.find(stop)
            if cut > 0:
                stderr_tail = stderr_tail[:cut]
    first = [(stderr_tail.find(fn), fn) for fn in
             ("columns_info::build", "dataframe::read_csv", "dataframe::read_xrff", "dataframe::to_example",
              "dataframe::read_record", "dataframe::is_valid", "vita::label", "parse_line", "get_input", "has_header",
              "guess_delimiter", "setup_terminals", "category_set")]
    first = sorted(x for x in first if x[0] >= 0)
    return first[0][1] if first else "?"


READER_SOURCES = ["src/kernel/gp/src/dataframe.cc", "src/kernel/gp/src/dataframe.h", "src/utility/pocket_csv.h",
                  "src/utility/utility.cc", "src/utility/utility.h", "src/kernel/gp/src/problem.cc",
                  "src/kernel/gp/src/problem.h", "src/kernel/gp/src/category_set.cc", "src/kernel/gp/src/category_set.h"]


def cached_sites(gen):
    """translate_reader.emit, skipped when neither the sources it reads (the whole tree hash: headers are
    included transitively) nor the translator nor the generated file changed since the last run"""
    import hashlib
    h = hashlib.sha256()
    h.update(C.repo_tree_hash("c10-sites").encode())
    for f in (os.path.join(C.ROOT, "tools", "translate_reader.py"), os.path.join(C.ROOT, "tools", "cxx2lean.py"),
              os.path.join(C.ROOT, "tools", "tu", "reader_tu.cc")):
        h.update(open(f, "rb").read())
    if os.path.exists(gen):
        h.update(open(gen, "rb").read())
    key = h.hexdigest()
    stamp = os.path.join(C.BUILD, "c10_sites.json")
    if os.path.exists(stamp):
        try:
            st = json.load(open(stamp))
            if st.get("key") == key:
                return st["res"], False
        except (ValueError, KeyError):
            pass
    res, changed = translate_reader.emit(gen)
    slim = {"sites": [{"kind": s_["kind"]} for s_ in res["sites"]], "functions": res["functions"], "edges": res["edges"],
            "recursive": res["recursive"]}
    h2 = hashlib.sha256()
    h2.update(C.repo_tree_hash("c10-sites").encode())
    for f in (os.path.join(C.ROOT, "tools", "translate_reader.py"), os.path.join(C.ROOT, "tools", "cxx2lean.py"),
              os.path.join(C.ROOT, "tools", "tu", "reader_tu.cc")):
        h2.update(open(f, "rb").read())
    h2.update(open(gen, "rb").read())
    os.makedirs(C.BUILD, exist_ok=True)
    json.dump({"key": h2.hexdigest(), "res": slim}, open(stamp, "w"))
    return slim, changed


def valid_requests(rng, n):
    """hand-built dataframes for `dataframe::is_valid()` (harness/c10_scale.cc `valid`, driver `valid`): any number of
    classes, outputs of every alternative, equal and unequal numbers of inputs, a column without a domain with states"""
    out = []
    for _ in range(n):
        ncl = rng.choice([0, 0, 0, 1, 2, 2, 3, 5])
        nvoid = 1 if rng.chance(0.1) else 0
        m = rng.choice([0, 1, 2, 3, 3, 4, 6, 9])
        k0 = rng.below(4)
        ragged = rng.chance(0.35)
        toks = []
        for i in range(m):
            if ncl and rng.chance(0.8):
                o = "i%d" % rng.choice(list(range(ncl)) * 3 + [ncl, ncl + 1, -1, 7])
            else:
                o = rng.choice(["d", "d", "d", "v", "s", "i0", "i1"])
            k = k0
            if ragged and i > 0 and rng.chance(0.4):
                k = rng.choice([0, 1, 2, 3, 5, k0 + 1])
            toks += [o, str(k)]
        out.append("valid %d %d %d %s" % (ncl, nvoid, m, " ".join(toks)))
    return [ln.strip() for ln in out]


def run(chk, replay=None):
    rng = C.SplitMix(chk.seed)
    quick = chk.tier == "quick"
    broken = []
    t_phase = [time.time()]

    def phase(name):
        now = time.time()
        chk.cov.setdefault("phase_seconds", {})[name] = round(now - t_phase[0], 1)
        C.log("[C10] %-28s %6.1f s" % (name, now - t_phase[0]))
        t_phase[0] = now
    # ---- tie 1: the access sites and the call graph, from the clang AST of the working tree -----------------
    gen = os.path.join(C.LEAN, "Vita", "C10", "GenSites.lean")
    try:
        res, changed = cached_sites(gen)
        kinds = {}
        for st in res["sites"]:
            kinds[st["kind"]] = kinds.get(st["kind"], 0) + 1
        chk.cov["sites"] = {"total": len(res["sites"]), "by_kind": kinds, "functions": len(res["functions"]),
                            "call_edges": len(res["edges"]), "cycle_closing_calls": len(res["recursive"]),
                            "regenerated_differs_from_committed": bool(changed)}
        for k, v in kinds.items():
            chk.count("site:" + k, v)
    except translate_reader.Refuse as e:
        broken.append("tools/translate_reader.py refuses the current sources (GenSites.lean left as it was): %s" % (e,))
    phase("translate_reader")
    ok, msg = chk.prove("Vita.C10.Props", ["Vita.C10.Props", "c10_driver"])
    phase("lake build + audit")
    if not ok:
        broken.append("theorems of Vita.C10.Props no longer check: " + msg)
    drv_ok = os.path.exists(C.driver_path("c10_driver"))
    if not drv_ok:
        broken.append("the model driver does not build")
    exe = C.build_harness("c09_read", "asan")
    S = L.Session(exe, "c10_driver")
    scale_exe = C.build_harness("c10_scale", "asan")
    phase("libvita + harnesses")

    cases = []      # (kind, cpp line, model line or None, what)
    extra = []      # requests of harness/c10_scale.cc answered by the model as they are (`valid`) or not at all (`path`)
    rp = json.load(open(replay)).get("replay", {}) if replay else {}
    if rp.get("kind") == "scale":          # a resource-scaling request
        run_scale(chk, scale_exe, rng, quick, only=rp["line"])
    elif rp.get("kind") in ("valid", "path"):
        extra.append(rp["line"])
    elif "line" in rp:          # a concrete failing input: run exactly this request again
        k = rp.get("kind", rp["line"].split()[0])
        cases.append((k, rp["line"], None if k == "xrff" else rp["line"], "replay"))
    else:
        run_scale(chk, scale_exe, rng, quick)
        phase("scaling stream")
        extra += valid_requests(rng, 400 if quick else 4000)
        extra += ["path missing " + e.hex() for e in (b".csv", b".xrff", b".XML", b".txt")] + ["path missing -", "path empty"]
        cdir = os.path.join(C.ROOT, "corpus", "C10")
        if os.path.isdir(cdir):
            for f in sorted(os.listdir(cdir)):
                for ln in open(os.path.join(cdir, f)):
                    ln = ln.strip()
                    if ln and not ln.startswith("#"):
                        k = ln.split()[0]
                        if k == "scale":              # regression inputs of the resource stream
                            run_scale(chk, scale_exe, rng, quick, only=ln)
                            continue
                        if k in ("valid", "path"):
                            extra.append(ln)
                            continue
                        cases.append((k, ln, None if k == "xrff" else ln, "corpus:" + f))
        n = 5000 if quick else 40000
        for i in range(n):
            T = L.gen_table(rng, chk.tier)
            if T["ncols"] * len(T["rows"]) > 200 and rng.chance(0.7):
                T["rows"] = T["rows"][:rng.between(1, 12)]
            if i % 4 == 3:
                xml, _ = L.render_xrff(rng, T)
                xml, what = mutate_xml2(rng, xml) if rng.chance(0.5) else mutate_xml(rng, xml)
                if rng.chance(0.15):
                    xml, w2 = mutate_xml2(rng, xml)
                    what += "+" + w2
                filt = "0" if rng.chance(0.8) else "%d_%d" % (rng.between(2, 5), rng.below(2))
                cases.append(("xrff", "xrff %s %s" % (filt, L.hx(xml)), None, "xml:" + what))
                continue
            delim = rng.choice([T["delim"][0]] * 5 + [0, 0, 44, 59, 9, 32, 34, 10, 255])
            hdr = rng.choice([-1, 0, 1, 1 if T["header"] is not None else 0])
            if delim == 0 or hdr == -1:
                # the sniffer's window (20 lines) is a parameter of the model: keep the input inside it
                T["rows"] = T["rows"][:14]
            data = L.render_csv(rng, T)
            data, what = mutate_csv2(rng, T, data) if rng.chance(0.45) else mutate_csv(rng, T, data)
            for _ in range(rng.below(2)):
                data, w2 = mutate_csv2(rng, T, data) if rng.chance(0.5) else mutate_csv(rng, T, data)
                what += "+" + w2
            if (delim == 0 or hdr == -1) and (data.count(b"\n") + data.count(b"\r")) > 17:
                delim = delim or T["delim"][0]          # outside the window: explicit dialect
                hdr = max(hdr, 0)
            o = rng.choice([-1, 0, 0, 1, T["ncols"] - 1, rng.below(T["ncols"]), rng.below(T["ncols"]),
                            -1 if T["out"] is None else T["out"], -1 if T["out"] is None else T["out"],
                            T["ncols"], T["ncols"] + 3, 100])
            filt = "0" if rng.chance(0.8) else "%d_%d" % (rng.between(2, 5), rng.below(2))
            ln = "csv %d %d %d %d %s %s" % (delim, hdr, rng.below(2), o, filt, L.hx(data))
            cases.append(("csv", ln, ln, "csv:" + what))
        for _ in range(2000 if quick else 20000):          # random bytes
            m = rng.between(0, 60)
            alphabet = b',;\t "\n\r\x00ab1.-e\xff'
            data = bytes(alphabet[rng.below(len(alphabet))] if rng.chance(0.8) else rng.below(256) for _ in range(m))
            o = rng.choice([-1, 0, 1, 2, 5])
            sniffing = data.count(b"\n") <= 17
            ln = "csv %d %d %d %d 0 %s" % (rng.choice([0, 44, 59, 9] if sniffing else [44, 59, 9]),
                                          rng.choice([-1, 0, 1] if sniffing else [0, 1]), rng.below(2), o, L.hx(data))
            cases.append(("csv", ln, ln, "csv:random-bytes"))
            if rng.chance(0.3):
                cases.append(("xrff", "xrff 0 " + L.hx(data), None, "xml:random-bytes"))

    def check_extra():
        # ---- `is_valid` on hand-built dataframes and `read` on missing files ---------------------------------------
        if extra:
            xa, xdeaths = run_lines_wd(scale_exe, extra)
            vi = [i for i, ln in enumerate(extra) if ln.startswith("valid")]
            xm = dict(zip(vi, C.run_driver("c10_driver", [extra[i] for i in vi]))) if drv_ok and vi else {}
            for i, ln in enumerate(extra):
                a = xa[i] if i < len(xa) else "skipped"
                kind = ln.split()[0]
                chk.seen(ln, nontrivial=True)
                chk.count("%s:%s" % (kind, " ".join(a.split()[:3]) if kind == "valid" else a))
                rep = {"kind": kind, "line": ln, "cpp": a[:300]}
                if a == "skipped":
                    continue
                if a.startswith(("died", "timeout", "nonstd", "bad-op")):
                    chk.violation("%s: %s -> %s" % ("is_valid() on a hand-built dataframe" if kind == "valid" else
                                                     "dataframe::read on a missing file", ln[:120], a[:120]), rep,
                                  tags={"kind": kind, "site": "fault"})
                    continue
                if kind == "valid":
                    if "valid=1" in a and "eqin=0" in a:
                        chk.violation("is_valid() accepts a dataframe whose examples have different numbers of inputs: " + ln,
                                      rep, tags={"kind": "valid", "site": "is_valid-unequal-inputs"})
                        continue
                    if i in xm and xm[i] != a:
                        rep["model"] = xm[i]
                        # the model of is_valid is characterised by `is_valid_spec`: a disagreement is a wrong answer of the code
                        chk.violation("is_valid() answers `%s` where its specification (is_valid_spec) says `%s`: %s"
                                      % (a, xm[i], ln), rep, tags={"kind": "valid", "site": "is_valid-spec"})
                elif not a.startswith("exc"):
                    chk.violation("dataframe::read of a missing file does not raise a standard exception: " + a[:100], rep,
                                  tags={"kind": "path", "site": "missing-file"})

    phase("generation")
    cpp, deaths = run_lines_wd(exe, [c[1] for c in cases])
    phase("vita on the malformed stream")
    xi = [i for i, c in enumerate(cases) if c[0] == "xrff"]
    if xi:
        docs, ddeaths = run_lines_wd(exe, ["xdoc " + cases[i][1].split()[2] for i in xi])
        for i, dline in zip(xi, docs):
            c = cases[i]
            toks = dline.split()
            ml = "xrff %s %s" % (c[1].split()[1], " ".join(toks[1:])) if toks and toks[0] == "doc" else None
            cases[i] = (c[0], c[1], ml, c[3])
    mi = [i for i, c in enumerate(cases) if c[2] is not None]
    model, old = {}, {}
    if drv_ok:
        for i, a in zip(mi, S.model([cases[i][2] for i in mi])):
            model[i] = a
        # the model of the code as found, on the same inputs: how often do they reach the three defects?
        for i, a in zip(mi, S.model(["old " + cases[i][2] for i in mi])):
            old[i] = a

    phase("model on the malformed stream")
    ndis = 0
    for i, (kind, ln, mln, what) in enumerate(cases):
        a = cpp[i] if i < len(cpp) else "skipped"
        # non-trivial: a malformed (mutated / random) input that is not empty or blank
        payload = L.unhx(ln.split()[-1])
        chk.seen(ln, nontrivial=bool(L.trim(payload)) and "well-formed" not in what)
        chk.count("input:" + what.split("+")[0])
        oc = L.outcome_class(a)
        chk.count("cpp:" + (a.split()[1] if a.startswith("exc") else oc))
        rep = {"kind": kind, "line": ln, "cpp": a[:1500], "mutation": what}
        if mln is not None and mln != ln:
            rep["model_line"] = mln
        # own oracle ---------------------------------------------------------
        if a.startswith("timeout"):
            chk.violation("reading this input does not terminate (%s; a normal reading takes milliseconds): %s"
                          % (a, ln[:160]), rep, tags={"kind": kind, "site": "timeout"})
            continue
        if a == "skipped":          # the stream was cut short after several faults / timeouts (reported above)
            chk.count("cpp-skipped")
            continue
        if a.startswith("died"):
            se = [d for d in deaths if d[0] == i]
            tail = se[0][2] if se else ""
            site = site_of(tail)
            at = max(tail.rfind("ERROR: AddressSanitizer"), tail.rfind("runtime error:"), 0)
            rep["sanitizer"] = tail[at:at + 2500] if at else tail[-2500:]
            chk.violation("reading this input executes undefined behaviour (sanitizer abort in %s): %s"
                          % (site, ln[:160]), rep, tags={"kind": kind, "site": site})
            continue
        if oc.startswith("other"):
            chk.violation("reading ends with something that is neither a result nor a std::exception: " + a[:100],
                          rep, tags={"kind": kind, "site": "nonstd"})
            continue
        if oc == "ok":
            t = a.split()
            if t[2] != "valid=1" or t[3] != "eqin=1":
                chk.violation("reading returns normally but the dataframe fails its consistency check (%s %s %s)"
                              % (t[1], t[2], t[3]), rep, tags={"kind": kind, "site": "invalid-result"})
        # model vs code ------------------------------------------------------
        if i in old:
            o = old[i]
            if o.startswith("fault"):
                chk.count("old-model:" + o.replace(" ", "-"))
            elif o.startswith("ok") and "valid=0" in o:
                chk.count("old-model:ok-invalid")
        if i in model:
            m = model[i]
            mc = L.outcome_class(m)
            chk.count("model:" + mc)
            same = mc == oc
            if same and oc == "ok":
                same = L.first_diff(L.parse_dump(m), L.parse_dump(a)) is None
            if not same:
                ndis += 1
                chk.count("model_vs_code_disagree")
                if ndis <= 3:
                    broken.append("model and code disagree on `%s`: model %r, code %r" % (ln[:300], m[:300], a[:300]))
        if i % 131 == 0:
            chk.sample({"line": ln[:140], "cpp": a[:100], "mutation": what})
    chk.cov["model_vs_code_disagreements"] = ndis
    check_extra()          # after the readings: a violation shown by a reading is reported first
    phase("is_valid / missing files")
    hist = sorted(((k[4:], v) for k, v in chk.cov["input_distribution"].items() if k.startswith("cpp:")), key=lambda kv: -kv[1])
    chk.cov["outcome_histogram"] = dict(hist)
    C.log("[C10] outcomes of the %d readings: %s" % (len(cases), ", ".join("%s %d" % kv for kv in hist)))
    byk = {}
    for k, v in chk.cov["input_distribution"].items():
        if k.startswith("input:"):
            byk[k[6:]] = v
    C.log("[C10] inputs by mutation: " + ", ".join("%s %d" % kv for kv in sorted(byk.items(), key=lambda kv: -kv[1])))

    if broken and not [v for v in chk.violations if not v[2]]:
        for b in broken:
            chk.violation(b, {"broken": b, "searched": "%d malformed inputs under ASan+UBSan+LSan: no undefined "
                              "behaviour, no invalid result" % len(cases)}, no_input=True)
    elif broken:
        chk.notes += broken
    return chk.finish(
        level="proof",
        checker_cmd="python3 tools/translate_reader.py > lean/Vita/C10/GenSites.lean && lake build Vita.C10.Props c10_driver && "
                    "lake env lean <#print axioms for every theorem>",
        rule="(1) tools/translate_reader.py regenerates the access sites and the call graph of the readers from the clang AST; "
             "sites_safe / no_reachable_recursion are re-proved for them.  (2) differential of the outcome class (and of the "
             "whole dataframe when both sides succeed) under ASan+UBSan+LSan with NDEBUG, under a watchdog: mutated well-formed "
             "tables (14 + 16 CSV mutations incl. quote grammar, EOF inside quotes, EOL mixes, BOM, NUL, high bytes, long "
             "fields, blank runs; 10 + 14 XML mutations incl. entities, CDATA, comments, nesting up to and beyond tinyxml2's "
             "depth limit, attribute syntax; up to 3 stacked), random byte strings, random reading parameters.  (3) "
             "resource-scaling inputs (harness/c10_scale.cc) read on a 256 kB stack under a CPU watchdog, at sizes n and 4n, "
             "with an expected outcome each; the stack's high-water mark must not grow with n.  (4) is_valid() on hand-built "
             "dataframes against its specification; dataframe::read on missing files.  distinct_nontrivial = distinct request "
             "lines whose input is mutated / random / scaled and not blank",
        trusted=["Lean 4.33 kernel", "hand-written model Vita/C09/{Csv,Model}.lean, Vita/C10/{Model,Loops}.lean (tied by the "
                 "differential run)", "tools/translate_reader.py + cxx2lean.py (clang-14 JSON AST -> sites with dominating guards; "
                 "its guard-invalidation rules and the library contracts it assumes are listed in design/C10.md)",
                 "lean/Vita/C10/Reviewed.lean: ten sites argued on the model instead of by arithmetic",
                 "harness/c09_read.cc, harness/c10_scale.cc + checks/c10.py", "g++ 12 ASan/UBSan/LSan as the detector of "
                 "out-of-bounds accesses, leaks, stack exhaustion and UB inside libstdc++/tinyxml2 (not modelled)",
                 "strtod/std::stod/std::stoi (uninterpreted in the model)"])
