"""C10 — dataset import is memory-safe on malformed input.

Lean: the model of C09 (Vita/C09/{Csv,Model}.lean) writes every container access whose index is not
evidently in range as a checked access (`Err.fault`) and std::stod / std::stoi / std::get as partial
functions (`Err.exc`); Vita/C10/Props.lean proves that the model of the code *after the fix: commits*
never faults and that an `ok` dataframe is valid with equally long inputs, and exhibits byte strings
on which the model of the code as found faults.

Tie (differential of the outcome class, every run): well-formed tables mutated (cells dropped /
duplicated, quotes unbalanced, binary bytes incl. NUL, huge numbers, truncation, blank lines, ragged
rows, rows shorter than the output index), random bytes and damaged XRFF documents are read by
vita::dataframe under ASan+UBSan+LSan (NDEBUG: asserts off) and by the model; the classes
ok / exc / fault must agree (a sanitizer abort is a fault), and when both are ok the whole dump must
agree.  Own oracle: sanitizer abort, non-standard exception, `ok` with is_valid() false or unequal
input counts.
"""
import json
import os
import re

from vlib import common as C
from checks import c09 as L


def mutate_csv(rng, T, data):
    """One malformed variant of a rendered table."""
    d = T["delim"]
    lines = data.split(b"\n")
    k = rng.below(14)
    what = "none"
    if k == 0 and lines:                      # drop a cell
        i = rng.below(len(lines))
        parts = lines[i].split(d)
        if len(parts) > 1:
            del parts[rng.below(len(parts))]
            lines[i] = d.join(parts)
        what = "drop-cell"
    elif k == 1 and lines:                    # duplicate a cell / widen a row
        i = rng.below(len(lines))
        parts = lines[i].split(d)
        j = rng.below(len(parts))
        parts[j:j] = [parts[j]] * rng.between(1, 4)
        lines[i] = d.join(parts)
        what = "dup-cell"
    elif k == 2:                              # unbalance quotes
        data = b"\n".join(lines)
        p = rng.below(len(data) + 1)
        data = data[:p] + b'"' + data[p:]
        return data, "quote"
    elif k == 3:                              # binary bytes incl. NUL
        data = bytearray(b"\n".join(lines))
        for _ in range(rng.between(1, 6)):
            p = rng.below(len(data) + 1)
            data[p:p] = bytes([rng.choice([0, 0, 1, 0x7f, 0x80, 0xff, 0xc3, 10, 13, 34])])
        return bytes(data), "binary"
    elif k == 4 and lines:                    # huge / odd numbers
        i = rng.below(len(lines))
        parts = lines[i].split(d)
        parts[rng.below(len(parts))] = rng.choice([b"1e999", b"-1e999", b"1e-999", b"9" * 400, b"99999999999",
                                                   b"0x1p-1080", b"nan", b"inf", b"-inf", b"1e", b"--1", b"1.2.3",
                                                   b"", b" ", b"1 2"])
        lines[i] = d.join(parts)
        what = "number"
    elif k == 5:                              # truncation
        data = b"\n".join(lines)
        return data[:rng.below(len(data) + 1)], "truncate"
    elif k == 6:                              # empty file / blank lines only
        return rng.choice([b"", b"\n", b"\n\n\n", b"  \n\t\n", b"\r\n", b"\x00", b'"']), "empty"
    elif k == 7 and lines:                    # ragged: a much wider row
        i = rng.below(len(lines))
        lines[i] = lines[i] + d + d.join(rng.choice([b"x", b"1", b"", b" "]) for _ in range(rng.between(1, 40)))
        what = "wider"
    elif k == 8 and lines:                    # a short row
        i = rng.below(len(lines))
        parts = lines[i].split(d)
        lines[i] = d.join(parts[:rng.below(len(parts)) + 1][:rng.between(1, 3)])
        what = "shorter"
    elif k == 9 and lines:                    # delete / duplicate / swap lines
        i = rng.below(len(lines))
        if rng.chance(0.5):
            del lines[i]
        else:
            lines.insert(i, lines[rng.below(len(lines))])
        what = "lines"
    elif k == 10 and lines:                   # another delimiter on some line
        i = rng.below(len(lines))
        lines[i] = lines[i].replace(d, rng.choice(L.DELIMS))
        what = "delimiter"
    elif k == 11 and lines:                   # first line wider or narrower than the rest
        parts = lines[0].split(d)
        lines[0] = d.join(parts[:1] if rng.chance(0.5) else parts + [b"z"] * rng.between(1, 5))
        what = "first-line"
    elif k == 12:
        what = "well-formed"
    else:                                     # mixed kinds in a column
        if lines:
            i = rng.below(len(lines))
            parts = lines[i].split(d)
            j = rng.below(len(parts))
            parts[j] = rng.choice([b"abc", b"1.5", b"", b'"x"'])
            lines[i] = d.join(parts)
        what = "kind"
    return b"\n".join(lines), what


def mutate_xml(rng, xml):
    k = rng.below(10)
    if k == 0:
        return xml[:rng.below(len(xml) + 1)], "truncate"
    if k == 1:                               # drop some <value> elements
        vals = [m for m in re.finditer(rb"<value>[^<]*</value>", xml)]
        if vals:
            for m in sorted({vals[rng.below(len(vals))] for _ in range(rng.between(1, 4))}, key=lambda m: -m.start()):
                xml = xml[:m.start()] + xml[m.end():]
        return xml, "drop-value"
    if k == 2:                               # duplicate values
        vals = [m for m in re.finditer(rb"<value>[^<]*</value>", xml)]
        if vals:
            m = vals[rng.below(len(vals))]
            xml = xml[:m.end()] + m.group(0) * rng.between(1, 5) + xml[m.end():]
        return xml, "dup-value"
    if k == 3:                               # empty instances
        return xml.replace(b"<instance>", b"<instance></instance><instance>", rng.between(1, 3)), "empty-instance"
    if k == 4:                               # several / no class attributes
        return xml.replace(b"<attribute ", b'<attribute class="yes" ', rng.between(1, 3)), "class-attr"
    if k == 5:
        xs = bytearray(xml)
        for _ in range(rng.between(1, 5)):
            p = rng.below(len(xs))
            xs[p] = rng.choice([0, 60, 62, 38, 34, 0xff, 32])
        return bytes(xs), "bytes"
    if k == 6:
        a = rng.choice([b"<instances>", b"<attributes>", b"<body>", b"<header>", b"</instances>", b"type=\"numeric\"",
                        b"type=\"string\"", b"name="])
        return xml.replace(a, rng.choice([b"", b"<x>", b"type=\"date\"", b"type=\"integer\"", b"nam="]), 1), "structure"
    if k == 7:                               # numbers that do not convert
        vals = [m for m in re.finditer(rb"<value>[^<]*</value>", xml)]
        if vals:
            m = vals[rng.below(len(vals))]
            xml = xml[:m.start()] + b"<value>" + rng.choice([b"1e999", b"abc", b"", b"99999999999", b"1.5", b" 7 "]) \
                + b"</value>" + xml[m.end():]
        return xml, "number"
    if k == 8:                               # remove all attributes / all instances
        if rng.chance(0.5):
            return re.sub(rb"<attribute [^>]*/>", b"", xml), "no-attribute"
        return re.sub(rb"<instance>.*?</instance>", b"", xml, flags=re.S), "no-instance"
    return xml, "well-formed"


def site_of(stderr_tail):
    """Where the sanitizer fired (function of vita nearest to the top of the stack)."""
    for fn in ("columns_info::build", "dataframe::read_csv", "dataframe::read_xrff", "dataframe::to_example",
               "parse_line", "has_header", "guess_delimiter"):
        if fn in stderr_tail:
            return fn
    return "?"


def run(chk, replay=None):
    rng = C.SplitMix(chk.seed)
    quick = chk.tier == "quick"
    broken = []
    ok, msg = chk.prove("Vita.C10.Props", ["Vita.C10.Props", "c10_driver"])
    if not ok:
        broken.append("theorems of Vita.C10.Props no longer check: " + msg)
    drv_ok = os.path.exists(C.driver_path("c10_driver"))
    if not drv_ok:
        broken.append("the model driver does not build")
    exe = C.build_harness("c09_read", "asan")
    S = L.Session(exe, "c10_driver")

    cases = []      # (kind, cpp line, model line or None, what)
    rp = json.load(open(replay)).get("replay", {}) if replay else {}
    if "line" in rp:          # a concrete failing input: run exactly this request again
        k = rp.get("kind", rp["line"].split()[0])
        cases.append((k, rp["line"], None if k == "xrff" else rp["line"], "replay"))
    else:
        cdir = os.path.join(C.ROOT, "corpus", "C10")
        if os.path.isdir(cdir):
            for f in sorted(os.listdir(cdir)):
                for ln in open(os.path.join(cdir, f)):
                    ln = ln.strip()
                    if ln and not ln.startswith("#"):
                        k = ln.split()[0]
                        cases.append((k, ln, None if k == "xrff" else ln, "corpus:" + f))
        n = 5000 if quick else 40000
        for i in range(n):
            T = L.gen_table(rng, chk.tier)
            if T["ncols"] * len(T["rows"]) > 200 and rng.chance(0.7):
                T["rows"] = T["rows"][:rng.between(1, 12)]
            if i % 4 == 3:
                xml, _ = L.render_xrff(rng, T)
                xml, what = mutate_xml(rng, xml)
                filt = "0" if rng.chance(0.8) else "%d_%d" % (rng.between(2, 5), rng.below(2))
                cases.append(("xrff", "xrff %s %s" % (filt, L.hx(xml)), None, "xml:" + what))
                continue
            delim = rng.choice([T["delim"][0]] * 5 + [0, 0, 44, 59, 9, 32, 34, 10, 255])
            hdr = rng.choice([-1, 0, 1, 1 if T["header"] is not None else 0])
            if delim == 0 or hdr == -1:
                # the sniffer's window (20 lines) is a parameter of the model: keep the input inside it
                T["rows"] = T["rows"][:14]
            data = L.render_csv(rng, T)
            data, what = mutate_csv(rng, T, data)
            for _ in range(rng.below(2)):
                data, w2 = mutate_csv(rng, T, data)
                what += "+" + w2
            o = rng.choice([-1, 0, 0, 1, T["ncols"] - 1, rng.below(T["ncols"]), rng.below(T["ncols"]),
                            -1 if T["out"] is None else T["out"], -1 if T["out"] is None else T["out"],
                            T["ncols"], T["ncols"] + 3, 100])
            filt = "0" if rng.chance(0.8) else "%d_%d" % (rng.between(2, 5), rng.below(2))
            ln = "csv %d %d %d %d %s %s" % (delim, hdr, rng.below(2), o, filt, L.hx(data))
            cases.append(("csv", ln, ln, "csv:" + what))
        for _ in range(2000 if quick else 20000):          # random bytes
            m = rng.between(0, 60)
            alphabet = b',;\t "\n\r\x00ab1.-e\xff'
            data = bytes(alphabet[rng.below(len(alphabet))] if rng.chance(0.8) else rng.below(256) for _ in range(m))
            o = rng.choice([-1, 0, 1, 2, 5])
            sniffing = data.count(b"\n") <= 17
            ln = "csv %d %d %d %d 0 %s" % (rng.choice([0, 44, 59, 9] if sniffing else [44, 59, 9]),
                                          rng.choice([-1, 0, 1] if sniffing else [0, 1]), rng.below(2), o, L.hx(data))
            cases.append(("csv", ln, ln, "csv:random-bytes"))
            if rng.chance(0.3):
                cases.append(("xrff", "xrff 0 " + L.hx(data), None, "xml:random-bytes"))

    cpp, deaths = S.cpp([c[1] for c in cases])
    xi = [i for i, c in enumerate(cases) if c[0] == "xrff"]
    if xi:
        docs, ddeaths = S.cpp(["xdoc " + cases[i][1].split()[2] for i in xi])
        for i, dline in zip(xi, docs):
            c = cases[i]
            toks = dline.split()
            ml = "xrff %s %s" % (c[1].split()[1], " ".join(toks[1:])) if toks and toks[0] == "doc" else None
            cases[i] = (c[0], c[1], ml, c[3])
    mi = [i for i, c in enumerate(cases) if c[2] is not None]
    model, old = {}, {}
    if drv_ok:
        for i, a in zip(mi, S.model([cases[i][2] for i in mi])):
            model[i] = a
        # the model of the code as found, on the same inputs: how often do they reach the three defects?
        for i, a in zip(mi, S.model(["old " + cases[i][2] for i in mi])):
            old[i] = a

    ndis = 0
    for i, (kind, ln, mln, what) in enumerate(cases):
        a = cpp[i] if i < len(cpp) else "skipped"
        # non-trivial: a malformed (mutated / random) input that is not empty or blank
        payload = L.unhx(ln.split()[-1])
        chk.seen(ln, nontrivial=bool(L.trim(payload)) and "well-formed" not in what)
        chk.count("input:" + what.split("+")[0])
        oc = L.outcome_class(a)
        chk.count("cpp:" + (a.split()[1] if a.startswith("exc") else oc))
        rep = {"kind": kind, "line": ln, "cpp": a[:1500], "mutation": what}
        if mln is not None and mln != ln:
            rep["model_line"] = mln
        # own oracle ---------------------------------------------------------
        if a.startswith("died") or a == "skipped":
            se = [d for d in deaths if d[0] == i]
            tail = se[0][2] if se else ""
            site = site_of(tail)
            rep["sanitizer"] = tail[-2500:]
            chk.violation("reading this input executes undefined behaviour (sanitizer abort in %s): %s"
                          % (site, ln[:160]), rep, tags={"kind": kind, "site": site})
            continue
        if oc.startswith("other"):
            chk.violation("reading ends with something that is neither a result nor a std::exception: " + a[:100],
                          rep, tags={"kind": kind, "site": "nonstd"})
            continue
        if oc == "ok":
            t = a.split()
            if t[2] != "valid=1" or t[3] != "eqin=1":
                chk.violation("reading returns normally but the dataframe fails its consistency check (%s %s %s)"
                              % (t[1], t[2], t[3]), rep, tags={"kind": kind, "site": "invalid-result"})
        # model vs code ------------------------------------------------------
        if i in old:
            o = old[i]
            if o.startswith("fault"):
                chk.count("old-model:" + o.replace(" ", "-"))
            elif o.startswith("ok") and "valid=0" in o:
                chk.count("old-model:ok-invalid")
        if i in model:
            m = model[i]
            mc = L.outcome_class(m)
            chk.count("model:" + mc)
            same = mc == oc
            if same and oc == "ok":
                same = L.first_diff(L.parse_dump(m), L.parse_dump(a)) is None
            if not same:
                ndis += 1
                chk.count("model_vs_code_disagree")
                if ndis <= 3:
                    broken.append("model and code disagree on `%s`: model %r, code %r" % (ln[:300], m[:300], a[:300]))
        if i % 131 == 0:
            chk.sample({"line": ln[:140], "cpp": a[:100], "mutation": what})
    chk.cov["model_vs_code_disagreements"] = ndis

    if broken and not [v for v in chk.violations if not v[2]]:
        for b in broken:
            chk.violation(b, {"broken": b, "searched": "%d malformed inputs under ASan+UBSan+LSan: no undefined "
                              "behaviour, no invalid result" % len(cases)}, no_input=True)
    elif broken:
        chk.notes += broken
    return chk.finish(
        level="proof",
        checker_cmd="lake build Vita.C10.Props c10_driver && lake env lean <#print axioms for every theorem>",
        rule="mutated well-formed tables (14 CSV mutations, 10 XML mutations, up to 3 stacked), random byte strings, "
             "random reading parameters (delimiter incl. sniffing and odd bytes, header -1/0/1, output index in and "
             "out of range, trim, filter); each is run under ASan+UBSan+LSan with NDEBUG and compared with the "
             "model's outcome class and, when ok, the whole dataframe; distinct_nontrivial = distinct request "
             "lines whose input is mutated / random and not blank",
        trusted=["Lean 4.33 kernel", "hand-written model Vita/C09/{Csv,Model}.lean (tied by the differential run)",
                 "harness/c09_read.cc + checks/c10.py", "g++ 12 ASan/UBSan/LSan as the detector of out-of-bounds "
                 "accesses, leaks and UB inside libstdc++/tinyxml2 (not modelled)",
                 "strtod/std::stod/std::stoi (uninterpreted in the model)"])
