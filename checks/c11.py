"""C11 — save followed by load reproduces the object.

Lean: Vita/C11/{Text,Model,Big,...}.lean model every `save` as the exact byte string the C++
writes and every `load` as the sequence of iostream extractions the C++ performs;
Vita/C11/Props.lean proves `load (save x) = x` (+ the unread rest) and `save (load (save x)) =
save x` for every object satisfying the type's invariant, with the printf/strtod round trip of
finite doubles as an explicit hypothesis (`FloatLaw`).

Tie (every run): harness/c11_ser.cc builds objects by histories with the real library, saves
them; for each object the compiled Lean driver must (1) produce byte-identical output from the
object's description and (2) parse vita's bytes back to the same description, leaving exactly
the expected unread rest.  Independently of Lean the harness reloads each object with the real
`load` into a fresh object, compares all observables and the re-saved bytes (own oracle).
"""
import concurrent.futures as cf
import json
import os
import re
import sys

from vlib import common as C

sys.path.insert(0, os.path.join(C.ROOT, "tools"))

SIMPLE = ["hash", "fit", "iga", "ide", "mati", "matu", "dist"]
BIG = ["imep", "team", "pop", "summ", "cache", "lam"]
# round 3: the other integral element types of matrix<T>, the containers over i_ga / i_de, evaluator_proxy,
# search::save/load through env.misc.serialization_file, histories of load<T> calls against the factory,
# boundary doubles through save_float_to_stream / load_float_from_stream
MORE = ["matl", "matul", "mats", "matus", "matc", "matsc", "matuc", "teamga", "popga", "popde", "summga", "summde",
        "proxy", "search", "lamfac", "flt"]
REST = {"fit": "-", "lam": None}          # unread rest after load (hex); default "0a" (the final newline)

COUNTS = {   # objects per type: (quick, thorough)
    "hash": (1000, 20000), "fit": (12000, 300000), "iga": (6000, 150000), "ide": (6000, 150000),
    "mati": (3000, 60000), "matu": (3000, 60000), "dist": (4000, 80000),
    "imep": (9000, 200000), "team": (1500, 30000), "pop": (1500, 30000), "summ": (3000, 60000),
    "cache": (3000, 60000), "lam": (1200, 24000),
    "matl": (600, 12000), "matul": (600, 12000), "mats": (600, 12000), "matus": (600, 12000),
    "matc": (800, 16000), "matsc": (800, 16000), "matuc": (800, 16000),
    "teamga": (1000, 20000), "popga": (800, 16000), "popde": (800, 16000), "summga": (800, 16000),
    "summde": (800, 16000), "proxy": (600, 12000), "search": (300, 5000), "lamfac": (300, 5000),
    "flt": (20000, 20000),          # the whole boundary list, every run
}
NEEDS_CTX = {"imep", "team", "pop", "summ"}


def unhex(h):
    return "" if h in ("-", "") else bytes.fromhex(h).decode("latin1")


def inc_hash():
    import hashlib
    h = hashlib.sha256()
    hd = os.path.join(C.ROOT, "harness")
    for f in sorted(os.listdir(hd)):
        if (f.startswith("c11_") or f.startswith("c12_")) and f.endswith(".h"):
            h.update(open(os.path.join(hd, f), "rb").read())
    return h.hexdigest()[:16]


def build_harness():
    return C.build_harness("c11_ser", "asan", extra_flags=["-DVERIF_INC=" + inc_hash()])


def parse_obj(line):
    """obj <type> <ints> | <hex> | <verdict> | <tags>"""
    parts = [p.strip() for p in line.split("|")]
    head = parts[0].split()
    tags = {}
    if len(parts) > 3 and parts[3] != "-":
        for kv in parts[3].split(","):
            k, v = kv.split("=")
            tags[k] = int(v) if v.lstrip("-").isdigit() and k != "out" else v
    return {"type": head[1], "ints": " ".join(head[2:]), "hex": parts[1], "verdict": parts[2], "tags": tags,
            "own_ctx": parts[4] if len(parts) > 4 else None}


def parse_tags(txt):
    tags = {}
    if txt and txt != "-":
        for kv in txt.split(","):
            k, v = kv.split("=")
            tags[k] = int(v) if v.lstrip("-").isdigit() else v
    return tags


def gen_objects(exe, seed, n, typ, want_pending=False):
    """Run the generator for one type.  Returns (rc, objects, stderr); every object carries the
    symbol-table context.  If the process died while reloading an object, `pending` (the tags of
    the object it died on, from the flushed `pre` line) is returned as a 4th element on request."""
    rc, so, se = C.run_harness(exe, [seed, n, typ], timeout=3000)
    ctx, objs, pending = "", [], None
    for l in so.splitlines():
        if l.startswith("symtab "):
            ctx = l[7:].strip()
        elif l.startswith("pre "):
            t = l.split()
            pending = {"index": int(t[2]), "tags": parse_tags(t[3] if len(t) > 3 else "-")}
        elif l.startswith("obj "):
            o = parse_obj(l)
            o["ctx"] = ctx if o["type"] in NEEDS_CTX else ""
            if o.get("own_ctx"):
                o["ctx"] = o["own_ctx"]
            if o["type"] == "cache":
                o["ctx"] = o["ints"].split()[0]          # the fresh target has the same number of bits
            if o["type"] == "lamfac":
                o["ctx"] = ""
            objs.append(o)
            pending = None
    return (rc, objs, se, pending) if want_pending else (rc, objs, se)


def model_answers(objs):
    lines = []
    for o in objs:
        if o["type"] == "lamfac":          # a history of load<T> calls: the model predicts the outcome of each call
            lines.append(f"factory {o['ints']}")
            lines.append("noop")
            continue
        lines.append(f"save {o['type']} {o['ints']}")
        lines.append(f"load {o['type']} {o['hex']} {o['ctx']}")
    out = C.run_driver("c11_driver", lines)
    return [(out[2 * i], out[2 * i + 1]) for i in range(len(objs))]


def regen_formats(chk, broken):
    """lean/Vita/C11/GenFormats.lean from the clang AST of the current tree (cached by source hash)."""
    import translate_formats
    from cxx2lean import Refuse
    gen = os.path.join(C.LEAN, "Vita", "C11", "GenFormats.lean")
    stamp = os.path.join(C.BUILD, "c11_formats.stamp")
    key = C.repo_tree_hash(open(translate_formats.__file__).read() +
                           open(os.path.join(C.ROOT, "tools", "tu", translate_formats.TU)).read())
    os.makedirs(C.BUILD, exist_ok=True)
    try:
        if os.path.exists(stamp) and os.path.exists(gen):
            old = open(stamp).read().split("\n", 1)
            if old[0] == key and len(old) > 1 and old[1] == open(gen).read():
                chk.cov["formats_translated"] = len(re.findall(r"^def e\d+ : Entry", old[1], re.M))
                chk.cov["formats_cached"] = True
                return True
        names, changed = translate_formats.emit(gen, jobs=4)
        chk.cov["formats_translated"] = len(names)
        chk.cov["formats_changed_vs_committed"] = bool(changed)
        with open(stamp, "w") as f:
            f.write(key + "\n" + open(gen).read())
        return True
    except Refuse as e:
        broken.append("translator tools/translate_formats.py refuses the current save / load functions: %s" % e)
        return False


def run(chk, replay=None):
    types = SIMPLE + BIG + MORE
    broken = []
    os.environ["VERIF_C11_TMP"] = C.BUILD            # search::save / load write one small file there
    regen_formats(chk, broken)
    ok, msg = chk.prove("Vita.C11.Props", ["Vita.C11.Props", "c11_driver"])
    drv_ok = os.path.exists(C.driver_path("c11_driver"))
    if not ok:
        broken.append("theorems of Vita.C11.Props no longer check: " + msg)
        okd, out = C.lake_build(["c11_driver"])
        drv_ok = okd
        if not okd:
            broken.append("c11_driver does not build: " + C.lean_errors(out))

    exe = build_harness()
    tier_i = 0 if chk.tier == "quick" else 1
    jobs = []
    if replay:
        r = json.load(open(replay))["replay"]
        jobs.append((r["gen"][0], r["gen"][1], r["gen"][2], r.get("index")))
    else:
        cdir = os.path.join(C.ROOT, "corpus", "C11")
        if os.path.isdir(cdir):
            for f in sorted(os.listdir(cdir)):
                if f.endswith(".json"):
                    r = json.load(open(os.path.join(cdir, f)))
                    jobs.append((r["gen"][0], r["gen"][1], r["gen"][2], r.get("index")))
        # independent sub-jobs of at most PER objects (own generator seed each): bounded memory, and a
        # replay regenerates at most PER objects
        PER = 5000
        for t in types:
            n, j = COUNTS[t][tier_i], 0
            while n > 0:
                jobs.append((chk.seed * 1000 + j, min(PER, n), t, None))
                n -= PER
                j += 1

    def work(job):
        seed, n, typ, index = job
        rc, objs, se, pending = gen_objects(exe, seed, n, typ, want_pending=True)
        if index is not None:
            objs = [(i, o) for i, o in enumerate(objs) if i == index]
        else:
            objs = list(enumerate(objs))
        ans = model_answers([o for _, o in objs]) if drv_ok else None
        return job, rc, se, objs, ans, pending

    ex = cf.ThreadPoolExecutor(min(8, C.NPROC))
    results = ex.map(work, jobs)          # consumed (and dropped) one job at a time

    ndis = 0
    cross = []
    for (seed, n, typ, index), rc, se, objs, ans, pending in results:
        gen = [seed, n, typ]
        if rc != 0:
            tags = dict(pending["tags"]) if pending else {}
            tags.update({"type": typ, "died": 1})
            chk.count("died:" + typ)
            chk.violation(f"{typ}: the real load() of the bytes just written by save() was stopped by the "
                          f"sanitizer / crashed (rc={rc}), object tags {tags}: {se[-1500:]}",
                          {"gen": gen, "index": pending["index"] if pending else len(objs), "type": typ,
                           "stderr": se[-3000:]}, tags=tags)
        for k, (i, o) in enumerate(objs):
            chk.seen((typ, o["hex"]), nontrivial=len(o["hex"]) > 8)
            chk.count("type:" + typ)
            for tk, tv in o["tags"].items():
                if tk in ("kind", "bits", "layers", "members"):
                    chk.count(f"{typ}.{tk}:{tv}")
                elif isinstance(tv, int):
                    b = "0" if tv == 0 else "1" if tv == 1 else "2-9" if tv < 10 else "10-99" if tv < 100 else "100+"
                    chk.count(f"{typ}.{tk}:{b}")
            rep = {"gen": gen, "index": i, "type": typ, "object": o["ints"][:2000], "bytes_hex": o["hex"][:4000]}
            tags = dict(o["tags"])
            tags["type"] = typ
            if o["verdict"] != "ok":
                chk.count("oracle:" + o["verdict"])
                tags["oracle"] = o["verdict"]
                chk.violation(f"{typ}: save followed by load into a fresh object does not reproduce the object "
                              f"({o['verdict']}); object = {o['ints'][:300]}", rep, tags=tags)
            if ans is not None and typ == "lamfac":
                pred = ans[k][0]
                if pred != "ok " + str(o["tags"].get("out", "")):
                    ndis += 1
                    if ndis <= 3:
                        broken.append(f"the model of the lambda factory disagrees with the code on the history of "
                                      f"load<T> calls `{o['ints']}` (gen {gen}, index {i}): code outcomes "
                                      f"{o['tags'].get('out')}, model {pred}")
            elif ans is not None:
                msave, mload = ans[k]
                # (A) the model parses vita's bytes to the same object, leaving only white space unread
                if o["verdict"] == "ok":
                    mo, _, mrest = mload.partition(" | ")
                    a_ok = mo == "ok " + o["ints"] and all(c in " \n\t\r" for c in unhex(mrest.strip()))
                elif o["verdict"] == "bad:load-failed":
                    a_ok = mload == "fail"
                else:
                    a_ok = True
                # (B) vita parses the model's bytes to the same object: trivially so when the bytes are
                #     identical; otherwise checked below with the real load (format drift such as an extra
                #     newline is harmless, a different token order is not)
                if msave != o["hex"] and o["verdict"] == "ok":
                    cross.append((typ, gen, i, o, msave))
                    chk.count("bytes_differ:" + typ)
                if not a_ok:
                    ndis += 1
                    if ndis <= 3:
                        broken.append(f"the model's load disagrees with the code on the bytes vita wrote for a {typ} "
                                      f"object (gen {gen}, index {i}): model load {mload[:300]} expected ok "
                                      f"{o['ints'][:300]}; the code's own round trip says {o['verdict']}")
            if i % 211 == 0:
                chk.sample({"type": typ, "object": o["ints"][:200], "bytes": bytes.fromhex(o["hex"]).decode("latin1")[:200]
                            if o["hex"] != "-" else "", "oracle": o["verdict"]}, limit=12)
    ex.shutdown()
    cross = [c for c in cross if c[0] not in ("search", "lamfac")]
    if cross:
        ld = C.build_harness("c12_load", "asan", extra_flags=["-DVERIF_INC=" + inc_hash()]) \
            if [c for c in cross if c[0] not in MORE] else None
        def second(typ, o):          # cache: bits of the fresh target; models: problem id; else a target seed
            return o["ints"].split()[0] if typ == "cache" else o["tags"].get("prob", 0) if typ == "lam" else 1
        reqs = [f"ld {typ} {o['ctx'] if typ in MORE and o['ctx'] else second(typ, o)} {msave}"
                for typ, _, _, o, msave in cross]
        # the round-3 types are loaded back by the `ld` mode of c11_ser itself
        idx_more = [j for j, c in enumerate(cross) if c[0] in MORE]
        idx_old = [j for j, c in enumerate(cross) if c[0] not in MORE]
        outs = [""] * len(cross)
        if idx_old:
            o1, _ = C.run_lines(ld, [reqs[j] for j in idx_old], timeout=3000)
            for j, a in zip(idx_old, o1):
                outs[j] = a
        if idx_more:
            o2, _ = C.run_lines(exe, [reqs[j] for j in idx_more], args=["ld"], timeout=3000)
            for j, a in zip(idx_more, o2):
                outs[j] = a
        for (typ, gen, i, o, msave), a in zip(cross, outs):
            t = a.split()
            got = " ".join(t[2:]) if len(t) > 2 else ""
            # models have no description on the C++ side of this entry: the reloaded model is saved again
            # and must give the bytes vita wrote for the original
            same = (got == o["hex"]) if typ == "lam" else (got == o["ints"])
            if not (t and t[0] == "ok" and same):
                ndis += 1
                if ndis <= 3:
                    broken.append(f"model and code disagree on save of a {typ} object (gen {gen}, index {i}): the real "
                                  f"load does not read the model's bytes back to the object: model save {msave[:300]} "
                                  f"code save {o['hex'][:300]} real load of the model's bytes: {a[:300]}")
    chk.cov["model_vs_code_disagreements"] = ndis

    if broken and not [v for v in chk.violations if not v[2]]:
        for b in broken:
            chk.violation(b, {"broken": b, "searched": f"{chk.evaluations} objects reloaded by the real load() with "
                              "observables and re-saved bytes compared: no failing object"}, no_input=True)
    elif broken:
        chk.notes += broken
    return chk.finish(
        level="proof",
        checker_cmd="lake build Vita.C11.Props c11_driver && lake env lean <#print axioms for every theorem>",
        rule="objects built by histories with the real library (random creation, operators, arithmetic, ageing, "
             "extreme finite doubles/ints, previous loads); distinct = distinct (type, saved bytes); each is checked "
             "three ways: model save == vita bytes, model load(vita bytes) == object with the expected unread rest, "
             "and vita's own load into a fresh object reproduces observables and re-saves to identical bytes",
        trusted=["Lean 4.33 kernel", "hand-written model of libstdc++ extraction (Vita/C11/Text.lean) and of each "
                 "save/load (Model.lean), validated byte-for-byte by the differential run",
                 "FloatLaw hypothesis: reading the 17-significant-digit scientific text of a finite double gives it "
                 "back (tested on every double seen through an exact-arithmetic printf/strtod in the driver)",
                 "harness/c11_ser.* (descriptions, own oracle), g++ 12 ASan/UBSan"])
