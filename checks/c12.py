"""C12 — a failed load leaves the target untouched.

(a) tools/translate_flow.py abstracts every load function named by the property, the stream constructors of the
    models, serialize::lambda::load and (documented "could be changed") cache::load / evaluator_proxy::load, from the
    clang AST of the current tree, to data-flow programs (`Vita.C12.Flow.Stmt`, lean/Vita/C12/GenFlow.lean): which
    locals each extraction writes, which members each statement assigns, which nested loads run on which object,
    which check guards what, how failure is reported.  Lean proves the frame / clean / kinds invariants once
    (Flow.lean) and closes the regenerated table by `decide` (`flow_commit_last`, `flow_all_checked`,
    `flow_kinds_ok`; `loads_fail_untouched`, `failed_read_is_reported`, `failure_is_documented`).
(b) Vita/C12/Model.lean models each load as a transformer of the target (writes where the C++ writes), sharing
    the parsers of C11; `X_fail_untouched`, `X_ok_iff`.

Tie (every run): valid serializations produced by the C11 generator are truncated at every byte offset and
damaged token by token (see "the damage model" below); each damaged stream is fed to the REAL load under
ASan/UBSan on a target built by a history that populates every member (harness/c12_targets.h).  Own oracle: a
snapshot of EVERY data member of the target before / after (member list generated from the clang AST by
tools/c12_members.py; a member that is not snapshotted, or that no target of the run populates, is a failure of
the check) + the observers (description, raw cached signatures, is_valid()).  Damaged model files go through
serialize::lambda::load (stream constructors): the only documented outcomes are a model, nullptr and
exception::data_format; a loaded model is saved again and compared with the Lean model's load-then-save.  The
success/failure verdict and, on success, the loaded object are compared with the model's.

(c) "A load of a damaged stream reports failure": whether a damaged stream is still a serialization is decided by the
    byte-level model of the extractors (Vita/C11/Text.lean; theorems of Props.lean (c): which spellings every numeric
    extraction rejects, a failed element fails the counted loop, the load then reports failure).  Model `fail` and real
    load `true` = VIOLATION "load succeeded on a stream the format rejects" with the stream as replay, for every type -
    unless the object loaded is what the tokens of the stream say under the most liberal numeric reading (then vita
    reads a spelling the model does not: tie broken, no failing input).  Every int / float field gets the damaged
    spellings nonnumeric / partial (`12x`) / empty / sign only / hex / inf-nan / overlong; a family never tried on a
    field type of a target type is a failure of the check.
"""
import concurrent.futures as cf
import json
import os
import re
import sys

from vlib import common as C
from checks import c11 as K11

sys.path.insert(0, os.path.join(C.ROOT, "tools"))
import translate_flow  # noqa: E402
import c12_members  # noqa: E402
import c12_ast  # noqa: E402
from cxx2lean import Refuse  # noqa: E402

TYPES = list(K11.SIMPLE) + ["imep", "team", "pop", "summ", "lam", "cachet"]
# `cachet`: cache::load on a populated cache.  Not in the property's list (evaluator_proxy::load documents "could be
# changed"): the flow analysis proves that a failing cache::load can only have modified `table_`
# (`weak_loads_dirty`), and that is what is checked here; verdicts are compared with the model's.
SOURCE_TYPE = {"cachet": "cache"}
WEAK_MAY_CHANGE = {"cachet": "vita::cache::table_"}
# objects per type, max stream length for exhaustive prefixes, token mutations per object: (quick, thorough)
BUDGET = {
    "hash": ((80, 600, 120), (570, 6000, 400)),
    "fit": ((160, 600, 120), (1150, 6000, 400)),
    "iga": ((120, 600, 120), (860, 6000, 400)),
    "ide": ((120, 600, 120), (860, 6000, 400)),
    "mati": ((80, 600, 120), (570, 6000, 400)),
    "matu": ((80, 600, 120), (570, 6000, 400)),
    "dist": ((80, 600, 160), (570, 6000, 400)),
    "imep": ((120, 600, 160), (860, 6000, 400)),
    "team": ((40, 600, 160), (210, 6000, 400)),
    "pop": ((40, 600, 200), (210, 6000, 470)),
    "summ": ((80, 600, 160), (430, 6000, 400)),
    "lam": ((60, 600, 200), (340, 6000, 470)),
    "cachet": ((60, 400, 120), (340, 4000, 400)),
}
FAILISH = ("fail", "exc:bad_alloc", "exc:length_error", "null", "exc:data_format")


def tools_key():
    """everything the generated files depend on beside the vita sources"""
    txt = ""
    for f in ("translate_flow.py", "translate_loads.py", "c12_members.py", "c12_ast.py", "cxx2lean.py",
              os.path.join("tu", c12_ast.TU)):
        txt += open(os.path.join(C.ROOT, "tools", f)).read()
    return C.repo_tree_hash(txt)


def regen(chk, broken):
    """GenFlow.lean from the current tree (cached by source hash)."""
    gen = os.path.join(C.LEAN, "Vita", "C12", "GenFlow.lean")
    stamp = os.path.join(C.BUILD, "c12_gen.stamp")
    key = tools_key()
    os.makedirs(C.BUILD, exist_ok=True)
    try:
        if os.path.exists(stamp) and os.path.exists(gen):
            old = open(stamp).read().split("\n", 1)
            if old[0] == key and len(old) > 1 and old[1] == open(gen).read():
                chk.cov["translated"] = translate_loads_names(gen)
                chk.cov["gen_cached"] = True
                return True
        names, changed = translate_flow.emit(gen)
        chk.cov["translated"] = names
        chk.cov["gen_changed_vs_committed"] = bool(changed)
        with open(stamp, "w") as f:
            f.write(key + "\n" + open(gen).read())
        return True
    except Refuse as e:
        broken.append("translator tools/translate_flow.py refuses the current load functions / stream "
                      "constructors: %s" % e)
        return False


def regen_members(chk, broken):
    """harness/c12_members_gen.h + the member table from the current tree (cached by source hash)."""
    hdr = os.path.join(C.ROOT, "harness", "c12_members_gen.h")
    stamp = os.path.join(C.BUILD, "c12_members.stamp")
    key = tools_key()
    os.makedirs(C.BUILD, exist_ok=True)
    try:
        if os.path.exists(stamp) and os.path.exists(hdr):
            old = json.load(open(stamp))
            if old.get("key") == key and old.get("header") == open(hdr).read():
                return old["table"]
        table, changed = c12_members.emit(hdr)
        chk.cov["members_header_changed_vs_committed"] = bool(changed)
        with open(stamp, "w") as f:
            json.dump({"key": key, "header": open(hdr).read(), "table": table}, f)
        return table
    except Refuse as e:
        broken.append("tools/c12_members.py cannot enumerate the data members of the load targets: %s" % e)
        return None


def translate_loads_names(gen):
    return re.findall(r'^\s+"(vita::[^"]+)"', open(gen).read(), re.M)


# ---- the damage model ---------------------------------------------------------------------------------
# The property quantifies over every prefix and every single-token substitution / deletion that keeps numbers
# within their digit count.  Per valid serialization:
#   prefix            every byte offset (all up to the tier's bound, sampled beyond)
# and per token (all tokens of short streams; sampled otherwise, but the STRUCTURAL tokens of the record -
# counts, sizes, layer headers, ages, starting locus - are always damaged, and so is a sample of opcodes):
#   delete            the token is removed
#   word              replaced by a non-numeric word
#   digits            same digit count, 1-3 digits changed        zeros / nines   all digits 0 / 9 (count 0, huge)
#   sign / plus       a '-' added or removed / a '+' added
#   swap              exchanged with the NEXT token (adjacent fields, often of different type)
#   donor:same        replaced by another token of the same record (a float where an integer is expected …)
#   donor:other       replaced by a token of ANOTHER object of the same type
#   opcode:*          (streams of programs) the opcode of another VALID symbol: other arity (the rest of the
#                     record is misaligned), parametric / non parametric, other category, same shape, unknown


def tokens_of(data):
    return [(m.start(), m.end()) for m in re.finditer(rb"\S+", data)]


def parse_symtab(ctx):
    """'nsym (opcode hasPar arity)*' -> {opcode: (hasPar, arity)}"""
    t = [int(x) for x in ctx.split()] if ctx else []
    if not t:
        return {}
    return {t[1 + 3 * i]: (t[2 + 3 * i], t[3 + 3 * i]) for i in range(t[0])}


class Roles:
    """roles of the tokens of a valid serialization (best effort: anything that does not parse stays '?')"""

    def __init__(self, data, toks, symtab):
        self.data, self.toks, self.symtab = data, toks, symtab
        self.role = ["?"] * len(toks)
        self.i = 0

    def val(self, i):
        try:
            return int(self.data[self.toks[i][0]:self.toks[i][1]])
        except (ValueError, IndexError):
            return None

    def take(self, role):
        if self.i >= len(self.toks):
            raise IndexError
        self.role[self.i] = role
        v = self.val(self.i)
        self.i += 1
        return v

    def imep(self):
        self.take("age")
        rows = self.take("rows")
        cols = self.take("cols")
        for _ in range((rows or 0) * (cols or 0)):
            op = self.take("opcode")
            hp, ar = self.symtab.get(op, (0, 0))
            if hp:
                self.take("par")
            for _ in range(ar):
                self.take("arg")
        if rows:
            self.take("best_index")
            self.take("best_category")

    def team(self):
        n = self.take("count")
        for _ in range(n or 0):
            self.imep()

    def pop(self):
        nl = self.take("layers")
        for _ in range(nl or 0):
            self.take("allowed")
            ne = self.take("nelem")
            for _ in range(ne or 0):
                self.imep()

    def summ(self):
        known = self.take("known")
        if known:
            self.imep()
            # the fitness is the rest of a line, then the accuracy: recognised from the END of the record
        n = len(self.toks)
        for k, r in enumerate(("elapsed", "mutations", "crossovers", "gen", "last_imp")):
            if n - 5 + k >= self.i:
                self.role[n - 5 + k] = r
        if known and n - 6 >= self.i:
            self.role[n - 6] = "accuracy"
            for j in range(self.i, n - 6):
                self.role[j] = "fitness"


def roles_of(typ, data, toks, symtab):
    r = Roles(data, toks, symtab)
    try:
        {"imep": r.imep, "team": r.team, "pop": r.pop, "summ": r.summ}[typ]()
    except (IndexError, KeyError, TypeError):
        pass
    return r.role


STRUCTURAL = {"rows", "cols", "count", "layers", "allowed", "nelem", "best_index", "best_category", "known", "age",
              "accuracy", "elapsed", "mutations", "crossovers", "gen", "last_imp"}


def opcode_substitutes(op, symtab, cats):
    """[(kind, opcode)]: a VALID opcode of another symbol, by what differs"""
    out = {}
    hp, ar = symtab.get(op, (0, 0))
    for o, (h2, a2) in sorted(symtab.items()):
        if o == op:
            continue
        if a2 != ar:
            out.setdefault("opcode:other-arity", o)
        if h2 != hp:
            out.setdefault("opcode:other-parametric", o)
        if cats and cats.get(o) != cats.get(op):
            out.setdefault("opcode:other-category", o)
        if a2 == ar and h2 == hp:
            out.setdefault("opcode:same-shape", o)
    out["opcode:unknown"] = max(symtab) + 1 if symtab else 99
    return sorted(out.items())


INT_RE = re.compile(rb"^[+-]?\d+$")
FLOAT_RE = re.compile(rb"^[+-]?(\d+\.?\d*|\.\d+)([eE][+-]?\d+)?$|^[+-]?(inf|nan)$")


def shape_of(tok):
    """the field type a token of a VALID serialization stands for, by its spelling: `int` (every integer field),
    `float` (what save_float_to_stream writes: scientific, or inf / nan), `word` (names, kind ids)"""
    return "int" if INT_RE.match(tok) else "float" if FLOAT_RE.match(tok) else "word"


# the spellings a damaged NUMERIC field can take (beside the ones of `token_damage`): family -> variants
FORMAT_FAMILIES = ("nonnumeric", "partial", "signonly", "hex", "infnan", "overlong")


def format_damage(rng, tok, shape):
    """[(family:variant, token)]: what a damaged token of a numeric field can look like.  Whether the stream is
    still a serialization is decided by the byte-level model of the extractors, not here: some of these are
    other spellings of a number (leading zeros, a long mantissa, an exponent that underflows)."""
    sg = tok[:1] if tok[:1] in (b"-", b"+") else b""
    body = tok[len(sg):]
    dig = bytes(c for c in body if 48 <= c <= 57) or b"7"
    mid = max(1, len(tok) // 2)
    out = [("nonnumeric:word", b"abc"), ("nonnumeric:punct", b"#"), ("nonnumeric:comma", b","),
           ("partial:tail", tok + b"x"), ("partial:mid", tok[:mid] + b"x" + tok[mid:]),
           ("partial:head", b"x" + tok), ("partial:dots", sg + dig[:1] + b"." + dig[1:2] + b"." + dig[2:3]),
           ("partial:comma", tok[:mid] + b"," + tok[mid:]),
           ("signonly:minus", b"-"), ("signonly:plus", b"+"), ("signonly:double", b"--" + body),
           ("signonly:dot", b"."), ("signonly:e", b"e5"),
           ("hex:int", sg + b"0x" + (b"%x" % int(dig[:15]))), ("hex:float", sg + b"0x1.8p3"), ("hex:digits", b"1a"),
           ("infnan:inf", b"inf"), ("infnan:-inf", b"-inf"), ("infnan:nan", b"nan"), ("infnan:infinity", b"Infinity"),
           ("infnan:NAN", b"NAN"), ("infnan:nan()", b"nan(1)"),
           ("overlong:digits", sg + dig + bytes(48 + rng.below(10) for _ in range(25))),
           ("overlong:zeros", sg + b"0" * 40 + body),
           ("overlong:huge", sg + dig[:1] + bytes(48 + rng.below(10) for _ in range(700)))]
    if shape == "float":
        m = re.match(rb"^([+-]?[\d.]*)[eE]([+-]?)(\d+)$", tok)
        mant = m.group(1) if m else tok
        out += [("partial:exp", mant + b"e"), ("partial:expsign", mant + b"e+"), ("partial:exp2", tok + b"e1"),
                ("overlong:mantissa", mant + bytes(48 + rng.below(10) for _ in range(400)) +
                 (b"e" + m.group(2) + m.group(3) if m else b"")),
                ("overlong:exponent", mant + b"e+99999"), ("overlong:underflow", mant + b"e-99999"),
                ("overlong:expdigits", mant + b"e+" + b"0" * 30 + b"1")]
    else:
        out += [("partial:fraction", tok + b".5"), ("partial:exp", tok + b"e2"),
                ("overlong:max", sg + b"18446744073709551616"), ("overlong:i32", sg + b"2147483649")]
    return [(k, t) for k, t in out if t != tok]


def token_damage(rng, data, toks, ti, donor, n_format=None):
    """[(kind, bytes)]: every single-token damage of token `ti` (`n_format`: that many variants of each
    FORMAT family, None = all)"""
    out = []
    a, b = toks[ti]
    tok = data[a:b]

    def put(kind, new):
        if new != tok:
            out.append((kind, data[:a] + new + data[b:]))
    out.append(("delete", data[:a] + data[b:]))
    put("word", b"x")
    fam = {}
    for k, t in format_damage(rng, tok, shape_of(tok)):
        fam.setdefault(k.split(":")[0], []).append((k, t))
    for f in FORMAT_FAMILIES:
        v = fam.get(f, [])
        if n_format is not None and len(v) > n_format:
            k0 = rng.below(len(v))
            v = [v[(k0 + j) % len(v)] for j in range(n_format)]
        for k, t in v:
            put(k, t)
    t2 = bytearray(tok)
    dig = [i for i, c in enumerate(t2) if 48 <= c <= 57]
    if dig:
        for _ in range(1 + rng.below(3)):
            i = dig[rng.below(len(dig))]
            t2[i] = 48 + rng.below(10)
        put("digits", bytes(t2))
        put("zeros", bytes(48 if 48 <= c <= 57 else c for c in tok))
        put("nines", bytes(57 if 48 <= c <= 57 else c for c in tok))      # the largest value with this digit count
    if tok[:1] == b"-":
        put("sign", tok[1:])
    elif tok[:1].isdigit():
        put("sign", b"-" + tok)
        put("plus", b"+" + tok)
    if ti + 1 < len(toks):
        c, d = toks[ti + 1]
        if data[c:d] != tok:
            out.append(("swap", data[:a] + data[c:d] + data[b:c] + tok + data[d:]))
    if len(toks) > 1:
        c, d = toks[rng.below(len(toks))]
        put("donor:same", data[c:d])
    if donor:
        put("donor:other", donor[rng.below(len(donor))])
    return out


def mutations(rng, data, max_exh, n_tok, typ="", symtab=None, cats=None, donor=None):
    """[(kind, bytes, role, shape of the damaged token)] for one valid serialization."""
    out = []
    L = len(data)
    if L <= max_exh:
        offs = range(L)
    else:
        offs = sorted({rng.below(L) for _ in range(max_exh)} | {0, 1, L - 1, L - 2})
    for k in offs:
        out.append(("prefix", data[:k], "-", "-"))
    toks = tokens_of(data)
    if not toks:
        return out
    roles = roles_of(typ, data, toks, symtab or {}) if typ in ("imep", "team", "pop", "summ") else ["?"] * len(toks)
    per = 9                                     # about that many damaged streams per token
    if len(toks) * per <= 2 * n_tok:
        picks = list(range(len(toks)))
    else:
        structural = [i for i, r in enumerate(roles) if r in STRUCTURAL]
        top = structural[:6] + structural[-4:]                       # the record's own header and trailer
        rest = [i for i in structural if i not in top]
        nested = [rest[rng.below(len(rest))] for _ in range(min(len(rest), n_tok // (2 * per)))] if rest else []
        rnd = [rng.below(len(toks)) for _ in range(n_tok // per)]
        picks = sorted(set(top + nested + rnd))
    for ti in picks:
        # one variant of each format family per token, every variant on one token in eight
        nf = None if rng.below(8) == 0 else 1
        shape = shape_of(data[toks[ti][0]:toks[ti][1]])
        for kind, bts in token_damage(rng, data, toks, ti, donor, nf):
            out.append((kind, bts, roles[ti], shape))
    ops = [i for i, r in enumerate(roles) if r == "opcode"]
    if ops and symtab:
        for ti in sorted({ops[rng.below(len(ops))] for _ in range(max(1, n_tok // 40))}):
            a, b = toks[ti]
            try:
                op = int(data[a:b])
            except ValueError:
                continue
            for kind, o in opcode_substitutes(op, symtab, cats):
                out.append((kind, data[:a] + str(o).encode() + data[b:], "opcode", "int"))
    return out


FAMILY_OF = {"word": "nonnumeric", "nonnumeric": "nonnumeric", "partial": "partial", "delete": "empty",
             "signonly": "signonly", "hex": "hex", "infnan": "infnan", "overlong": "overlong"}

C_NUMERAL = re.compile(r"^[+-]?((\d+\.?\d*|\.\d+)([eE][+-]?\d+)?|0[xX]([0-9a-fA-F]+\.?[0-9a-fA-F]*|\.[0-9a-fA-F]+)"
                       r"([pP][+-]?\d+)?|inf(inity)?|nan(\([0-9A-Za-z_]*\))?)$", re.I)


def c_value(tok):
    """the number a whole token denotes for C's strtod (the most liberal reading); None if it is not a numeral"""
    t = tok.decode("latin1")
    if not C_NUMERAL.match(t):
        return None
    try:
        if re.match(r"^[+-]?0[xX]", t):
            return float.fromhex(t)
        return float(re.sub(r"\(.*\)$", "", t))
    except (ValueError, OverflowError):
        return float("-inf") if t.startswith("-") else float("inf")


def unexplained(stream, resaved):
    """None when the object the real load committed (`resaved` = its serialization) is what the tokens of `stream`
    say: token by token the same bytes, or two numerals (C strtod, whole token) of the same value.  Otherwise the
    first token for which that fails."""
    a = [stream[x:y] for x, y in tokens_of(stream)]
    b = [resaved[x:y] for x, y in tokens_of(resaved)]
    for i, tb in enumerate(b):
        if i >= len(a):
            return f"the stream ends after {len(a)} tokens, the loaded object has {len(b)}"
        ta = a[i]
        if ta == tb:
            continue
        va, vb = c_value(ta), c_value(tb)
        if va is None or vb is None:
            return f"token {i} of the stream is `{ta[:40].decode('latin1')}`, not a number; the object loaded holds " \
                   f"`{tb[:40].decode('latin1')}` there"
        if not (va == vb or (va != va and vb != vb)):
            return f"token {i} of the stream is `{ta[:40].decode('latin1')}`; the object loaded holds " \
                   f"`{tb[:40].decode('latin1')}` there"
    return None


def hexs(b):
    return b.hex() if b else "-"


def run(chk, replay=None):
    rng = C.SplitMix(chk.seed)
    broken = []
    import time
    phase = {}
    tp = [time.time()]

    def lap(name):
        now = time.time()
        phase[name] = round(phase.get(name, 0) + now - tp[0], 1)
        tp[0] = now
    chk.cov["phase_s"] = phase
    # the two generators share the clang dumps; libvita + the C11 generator harness build meanwhile
    pool = cf.ThreadPoolExecutor(4)
    f_gen = pool.submit(regen, chk, broken)
    f_mem = pool.submit(regen_members, chk, broken)
    C.build_vita("asan")
    lap("libvita")
    f_ser = pool.submit(K11.build_harness)
    table = f_mem.result()
    lap("member-table")

    def build_exe():
        try:
            return C.build_harness("c12_load", "asan", extra_flags=["-DVERIF_INC=" + K11.inc_hash()]), None
        except RuntimeError as e:
            return None, str(e)
    f_exe = pool.submit(build_exe)       # (needs the generated member header)
    gen_ok = f_gen.result()
    lap("flow-table")
    drv_ok = False
    if gen_ok:
        ok, msg = chk.prove("Vita.C12.Props", ["Vita.C12.Props", "c12_driver"])
        if not ok:
            broken.append("theorems of Vita.C12.Props no longer check against the regenerated table: " + msg)
    okd, out = C.lake_build(["c12_driver"])
    drv_ok = okd
    if not okd:
        broken.append("c12_driver does not build: " + C.lean_errors(out))
    elif gen_ok:
        # what the obligations say about each entry of the regenerated table (names the function and the members)
        rcf, sof, _ = C.sh([C.driver_path("c12_driver"), "flow"], timeout=120)
        bad_entries = []
        for ln in sof.splitlines():
            f = [x.strip() for x in ln.split("|")]
            if len(f) < 6:
                continue
            kind = f[2].rsplit(".", 1)[-1]
            dirty = f[3].split(":", 1)[1].strip()
            chk.count("flow_entry:" + kind)
            why = []
            if kind == "load" and dirty != "[]":
                why.append("may have modified " + dirty + " when it fails (not commit-last)")
            if f[4].endswith("false"):
                why.append("has an extraction from the stream or a nested load whose failure nobody checks")
            if f[5].endswith("false"):
                why.append("can report failure in an undocumented way")
            if why:
                bad_entries.append(f[1] + " " + "; ".join(why))
        chk.cov["flow_report"] = sof.splitlines()[:60]
        if bad_entries and broken:
            broken[-1] = "data-flow obligations of the regenerated table fail: " + " || ".join(bad_entries) + \
                " || " + broken[-1][:600]

    lap("lean")
    ser = f_ser.result()
    exe, exe_err = f_exe.result()
    pool.shutdown()
    lap("harnesses")
    if exe is None:
        # typically: a data member of a load target whose type has no snapshot rule
        msg = exe_err
        m = re.search(r"[^\n]*(no snapshot rule|not enumerated|hashed container)[^\n]*", msg)
        ty = re.findall(r"value\(const T&\) \[with T = ([^\]\n]+)\]", msg)
        chk.violation("harness c12_load does not compile against the current tree: the deep snapshot cannot cover "
                      "every data member of the load targets: " + (m.group(0).strip() if m else msg[-1500:]) +
                      (" — member type(s) on the way: " + " <- ".join(ty[:4]) if ty else ""),
                      {"broken": "deep snapshot (harness/c12_snap.h + generated c12_members_gen.h)",
                       "compiler": msg[-3000:]}, no_input=True)
        return chk.finish(level="proof", checker_cmd="g++ harness/c12_load.cc", rule="(harness does not build)",
                          trusted=[])
    try:
        a_, _d = C.run_lines(exe, ["symcats"], timeout=300)
        state_cats = {int(x.split(":")[0]): int(x.split(":")[1]) for x in a_[0].split()[1:]} if a_ else {}
    except (ValueError, IndexError):
        state_cats = {}
    member_stats = {}      # (tag, rec, fld) -> [visits, nonzero]
    features = {}
    tier_i = 0 if chk.tier == "quick" else 1

    # ---- requests, one batch per type (bounded memory in the thorough tier) ----------------------
    state = {"ndis": 0, "requests": 0, "cats": state_cats}
    batches = []       # lists of (type, kind, tseed, hex, source, ctx)
    if replay:
        r = json.load(open(replay))["replay"]
        t = r["line"].split()
        batches.append([(t[1], "replay", int(t[2]), t[3], None, None)])
    else:
        cdir = os.path.join(C.ROOT, "corpus", "C12")
        cb = []
        if os.path.isdir(cdir):
            for f in sorted(os.listdir(cdir)):
                if f.endswith(".json"):
                    t = json.load(open(os.path.join(cdir, f)))["line"].split()
                    cb.append((t[1], "corpus", int(t[2]), t[3], None, None))
        if cb:
            batches.append(cb)
        batches += [typ for typ in TYPES]

    CHUNK = 40000          # requests handled at a time (bounded memory: long streams x thousands of prefixes)

    def requests_for(typ):
        """yields lists of requests, about CHUNK at a time"""
        reqs = []
        nobj, max_exh, n_tok = BUDGET[typ][tier_i]
        state["donor"] = None
        rc, objs, se = K11.gen_objects(ser, chk.seed, nobj, SOURCE_TYPE.get(typ, typ))
        lap("gen_objects")
        for i, o in enumerate(objs):
            if o["verdict"] != "ok" or o["hex"] == "-":
                continue      # only *valid* serializations are damaged (C11 reports the others)
            data = bytes.fromhex(o["hex"])
            chk.count("source_objects:" + typ)
            symtab = parse_symtab(o.get("ctx", "")) if typ in K11.NEEDS_CTX else None
            for sh in {shape_of(data[a:b]) for a, b in tokens_of(data)}:
                shapes_present.add((typ, sh))
            # models: no target, the second field selects the problem (symbol set) of the model; otherwise the seed
            # of the target's history: a few targets per source object (the harness keeps the last ones built)
            tbase = rng.next() % 1000003
            tsf = (lambda: o["tags"].get("prob", 0)) if typ == "lam" else (lambda: tbase + rng.below(6))
            reqs.append((typ, "intact", tsf(), o["hex"], i, o.get("ctx", "")))
            for kind, b, role, shape in mutations(rng, data, max_exh, n_tok, typ, symtab, state.get("cats"),
                                                  state.get("donor")):
                reqs.append((typ, kind, tsf(), hexs(b), i, o.get("ctx", "")))
                if role not in ("-", "?"):
                    chk.count(f"role:{role}:{kind.split(':')[0] if kind.split(':')[0] in FORMAT_FAMILIES else kind}")
                fam = FAMILY_OF.get(kind.split(":")[0])
                if fam:
                    field_cover[(typ, shape, fam)] = field_cover.get((typ, shape, fam), 0) + 1
            state["donor"] = [data[a:b] for a, b in tokens_of(data)][:400] or state.get("donor")
            if len(reqs) >= CHUNK:
                yield reqs
                reqs = []
        if reqs:
            yield reqs

    tabs = {}
    shapes_present = set()  # (type, shape): the field types that occur in the valid streams of the run
    field_cover = {}       # (type, shape of the valid token, damage family) -> damaged streams generated
    acc_n = {}
    accepted = []          # (request, line, code answer): the code loaded a stream the model of the format rejects
    dis = {}               # (type, class) -> number of model/code disagreements

    def ctx_of(req):
        t, _, ts, _, _, c = req
        if c is not None:
            return c
        if t == "lam":
            if "lam" not in tabs:
                _, ol, _ = K11.gen_objects(ser, 1, 60, "lam")
                tabs["lam"] = {o["tags"].get("prob"): o["ctx"] for o in ol}
            return tabs["lam"].get(ts, "")
        if t == "cachet":
            return "4"          # bits of the model's fresh cache: the verdict does not depend on them
        if t in K11.NEEDS_CTX:
            if "sym" not in tabs:
                _, o1, _ = K11.gen_objects(ser, 1, 1, "imep")
                tabs["sym"] = o1[0]["ctx"] if o1 else ""
            return tabs["sym"]
        return ""

    def process(reqs):
        lines = [f"ld {t} {ts} {hx}" for t, _, ts, hx, _, _ in reqs]
        state["requests"] += len(lines)
        shards = max(1, min(8, len(lines) // 3000))
        mlines = [(f"resave lam {r[3]} {ctx_of(r)}" if r[0] == "lam" else
                   f"load {SOURCE_TYPE.get(r[0], r[0])} {r[3]} {ctx_of(r)}") for r in reqs]

        def cpp(idx):
            t0 = time.time()
            a, deaths = C.run_lines(exe, lines[idx::shards] + ["stats"], timeout=3000)
            phase["cpu:harness-shards"] = round(phase.get("cpu:harness-shards", 0) + time.time() - t0, 1)
            n = len(lines[idx::shards])
            st = a[n] if len(a) > n and a[n].startswith("stats ") else None
            # a death reported on the trailing `stats` line (e.g. a leak report at exit) belongs to the run
            return a[:n], [(min(j, n - 1), rcode, se) for j, rcode, se in deaths], st

        def model(idx):
            t0 = time.time()
            r = C.run_driver("c12_driver", mlines[idx::shards]) if drv_ok else None
            phase["cpu:driver-shards"] = round(phase.get("cpu:driver-shards", 0) + time.time() - t0, 1)
            return r

        with cf.ThreadPoolExecutor(2 * shards) as ex:
            fc = [ex.submit(cpp, i) for i in range(shards)]
            fm = [ex.submit(model, i) for i in range(shards)]
            rc_ = [f.result() for f in fc]
            lap("cpp(+model)")
            rm_ = [f.result() for f in fm]
            lap("model-tail")
        cpp_ans = [None] * len(lines)
        mod_ans = [None] * len(lines)
        for i in range(shards):
            a, deaths, st = rc_[i]
            absorb_stats(st)
            for j, v in enumerate(a):
                cpp_ans[i + j * shards] = v
            for j, rcode, se in deaths:
                cpp_ans[i + j * shards] = "died " + se[-1200:]
            if rm_[i] is not None:
                for j, v in enumerate(rm_[i]):
                    mod_ans[i + j * shards] = v
        compare(reqs, lines, cpp_ans, mod_ans)
        lap("compare")

    def absorb_stats(st):
        if not st or not st.startswith("stats "):
            return
        head, mem, feat = (st.split("|") + ["", ""])[:3]
        if table is not None and head.split()[1] != table["digest"]:
            if not any("member table" in b for b in broken):
                broken.append("the member table compiled into harness c12_load (%s) is not the one generated from "
                              "the current tree (%s)" % (head.split()[1], table["digest"]))
            return
        for kv in mem.split():
            k, v = kv.split("=")
            tag, rf = k.split(":")
            r, f = rf.split(".")
            a, b = v.split("/")
            e = member_stats.setdefault((tag, int(r), int(f)), [0, 0])
            e[0] += int(a)
            e[1] += int(b)
        for kv in feat.split():
            k, v = kv.rsplit("=", 1)
            features[k] = features.get(k, 0) + int(v)

    def compare(reqs, lines, cpp_ans, mod_ans):
        for g, (typ, kind, ts, hx, src, _c) in enumerate(reqs):
            ca = cpp_ans[g] or "skipped"
            chk.seen((typ, hx), nontrivial=True)
            chk.count(f"{typ}:{kind}")
            chk.count("damage:" + kind)
            rep = {"line": lines[g], "mutation": kind, "bytes": bytes.fromhex(hx).decode("latin1")[:600] if hx != "-" else ""}
            tags = {"type": typ, "mutation": kind}
            if ca.startswith("died"):
                chk.count("cpp:died")
                chk.violation(f"{typ}::load on a damaged stream ({kind}) crashed / was stopped by the sanitizer: {ca[5:]}",
                              rep, tags=dict(tags, outcome="died"))
                continue
            if ca == "skipped":
                continue
            where = ""
            if " ## " in ca:
                ca, where = ca.split(" ## ", 1)
                where = where.strip()
            c = ca.split()
            verdict, same, after = c[0], c[1], " ".join(c[2:])
            chk.count("cpp:" + verdict)
            if verdict != "ok" and same != "same" and typ in WEAK_MAY_CHANGE and \
                    where.split(" -> ")[0] == WEAK_MAY_CHANGE[typ]:
                # documented "could be changed", and only in the member the flow analysis allows
                chk.count(f"{typ}:failed-load-changed-{WEAK_MAY_CHANGE[typ]}")
            elif verdict != "ok" and same != "same":
                chk.violation(f"{typ}::load reported failure ({verdict}) on a damaged stream ({kind}) but the target "
                              f"changed (first difference of the member-by-member snapshot: {where or '?'}); "
                              f"target after = {after[:300]}", dict(rep, cpp=ca[:600], changed_member=where),
                              tags=dict(tags, outcome="changed"))
            if verdict.startswith("exc:") and verdict not in FAILISH:
                chk.violation(f"{typ}::load let an exception escape ({verdict}) on a damaged stream ({kind})",
                              dict(rep, cpp=ca[:600]), tags=dict(tags, outcome=verdict))
            ma = mod_ans[g]
            if verdict in ("exc:bad_alloc", "exc:length_error"):
                # a damaged element count made the real code ask for more memory than the harness grants
                # (64 MiB): a resource outcome the model has no notion of; only the own oracle applies
                ma = None
            if ma is not None and (ma == "fail" or ma.startswith("ok ")):
                m_ok = ma.startswith("ok ")
                c_ok = verdict == "ok"
                cls = None
                if c_ok and not m_ok:
                    # the property's other half: a damaged stream must be REPORTED.  The byte-level model of the
                    # extractors (written from the format, not from vita's load functions) rejects this stream and
                    # the real load returned true / a model: decided below (`explained`)
                    cls = "accepted-a-stream-the-format-rejects"
                    chk.count(f"accepted:{typ}:{kind.split(':')[0]}")
                    akey = (typ, kind.split(":")[0])        # a sample per type and kind of damage goes to `explained`
                    acc_n[akey] = acc_n.get(akey, 0) + 1
                    if acc_n[akey] <= 25:
                        accepted.append((reqs[g], lines[g], ca))
                elif m_ok and not c_ok:
                    cls = "rejected-a-stream-the-model-accepts"
                elif m_ok and typ not in WEAK_MAY_CHANGE and ma[3:].split(" | ")[0].strip() != after.strip():
                    # plain types: the loaded object; models: the bytes of the reloaded model saved again
                    cls = "loaded-another-object"
                if cls:
                    state["ndis"] += 1
                    chk.count("disagree:" + typ)
                    dis[(typ, cls)] = dis.get((typ, cls), 0) + 1
                    if cls != "accepted-a-stream-the-format-rejects" and dis[(typ, cls)] <= 2:
                        broken.append(f"model and code disagree ({typ}: {cls}) on `{lines[g][:300]}` ({kind}): "
                                      f"code `{ca[:200]}`, model `{ma[:200]}`")
            elif ma is not None:
                state["ndis"] += 1
                dis[(typ, "no-model-answer")] = dis.get((typ, "no-model-answer"), 0) + 1
                if dis[(typ, "no-model-answer")] <= 1:
                    broken.append(f"the model gives no verdict on `{lines[g][:300]}` ({kind}): `{ma[:100]}`")
            if g % 5003 == 0:
                chk.sample({"request": lines[g][:160], "mutation": kind, "code": ca[:120], "model": (ma or "")[:120]}, limit=10)

    for bt in batches:
        if isinstance(bt, str):
            for chunk in requests_for(bt):
                process(chunk)
        else:
            process(bt)
    # ---- a load that succeeded on a stream the format rejects ----------------------------------------------
    # Is the loaded object at least what the tokens of the stream SAY, read as numbers in the most liberal way (C
    # strtod on the whole token: inf / nan / hex / any exponent)?  Then vita reads a spelling the modelled
    # extractors do not (an extension of the format, or the model of the extractors is out of date): the tie is
    # broken, no input violates the property.  Otherwise a damaged field was passed over and the load reported
    # success with something else in its place: the property fails on this stream.
    if accepted and drv_ok:
        sv = C.run_driver("c12_driver", [f"save {SOURCE_TYPE.get(r[0], r[0])} {' '.join(ca.split()[2:])}"
                                         if r[0] != "lam" else "fmt 0" for r, _, ca in accepted])
        nrep = {}
        for (req, line, ca), saved in zip(accepted, sv):
            typ, kind, ts, hx, _src, _c = req
            loaded = " ".join(ca.split()[2:])
            resaved = loaded if typ == "lam" else saved
            try:
                why = unexplained(bytes.fromhex(hx) if hx != "-" else b"", bytes.fromhex(resaved) if resaved != "-" else b"")
            except ValueError:
                why = f"the loaded object cannot be saved by the model (`{resaved[:60]}`)"
            chk.count(f"accepted:{typ}:" + ("damaged-field-passed-over" if why else "another-spelling"))
            if why:
                rkey = (typ, kind == "corpus")          # the regression inputs and what the search itself found
                nrep[rkey] = nrep.get(rkey, 0) + 1
                if nrep[rkey] <= 2:
                    chk.violation(
                        f"{typ}::load succeeded on a stream the format rejects ({kind}): the byte-level model of the "
                        f"extractors fails on it, the real load returned {'a model' if typ == 'lam' else 'true'} and "
                        f"committed an object that is not what the stream says ({why}); "
                        f"{dis.get((typ, 'accepted-a-stream-the-format-rejects'), 0)} such streams for this type; "
                        f"loaded = {loaded[:300]}",
                        {"line": line, "mutation": kind, "bytes": bytes.fromhex(hx).decode("latin1")[:600] if hx != "-" else "",
                         "cpp": ca[:600], "model": "fail", "resaved": bytes.fromhex(resaved).decode("latin1")[:600]
                         if why and not why.startswith("the loaded") and resaved != "-" else ""},
                        tags={"type": typ, "mutation": kind, "outcome": "accepted"})
            elif not any(b.startswith(f"the real {typ}::load accepts") for b in broken):
                broken.append(f"the real {typ}::load accepts a spelling the model of the extractors rejects, and loads "
                              f"the value the token denotes: `{line[:300]}` ({kind}): code `{ca[:200]}`, model `fail` "
                              f"(format extended, or Vita/C11/Text.lean out of date)")
    elif accepted:
        broken.append("the real load accepted streams and the model gives no verdict (driver does not build)")
    chk.cov["accepted_rejected_streams"] = {f"{t}:{c}": n for (t, c), n in sorted(dis.items())}
    # every field type x every family of damaged spellings must have been tried on every type that has such fields
    if not replay:
        for typ in TYPES:
            shapes = {sh for (t, sh) in shapes_present if t == typ and sh in ("int", "float")}
            for sh in sorted(shapes):
                for fam in sorted(set(FAMILY_OF.values())):
                    n = field_cover.get((typ, sh, fam), 0)
                    chk.count(f"field:{typ}:{sh}:{fam}", n)
                    if not n:
                        broken.append(f"blind spot of the damage model: no `{fam}` spelling was tried on a {sh} field "
                                      f"of a `{typ}` stream in this run")
            if not shapes:
                broken.append(f"blind spot of the damage model: no numeric field of a `{typ}` stream was damaged")
    # ---- the snapshot must have covered, and some target populated, EVERY data member -----------------
    if table is not None and not replay:
        cover = {}
        for tag, recs in table["roots"].items():
            if tag not in TYPES:
                continue
            for r in recs:
                rec = table["records"][r]
                for f, fname in enumerate(rec["fields"]):
                    v, nz = member_stats.get((tag, r, f), [0, 0])
                    name = f"{rec['name']}::{fname}"
                    cover[f"{tag}: {name}"] = f"{v} visits, {nz} populated"
                    chk.count("member_visited" if v else "member_never_visited")
                    if not v:
                        broken.append(f"data member {name} of the `{tag}` targets was never reached by the before/after "
                                      f"snapshot (no target of this run holds an object of type {rec['name']}): a failed "
                                      f"load that changes it cannot be seen")
                    elif not nz:
                        broken.append(f"data member {name} of the `{tag}` targets never held anything but its zero / "
                                      f"empty value in this run ({v} snapshots): the histories that build the targets "
                                      f"do not populate it, a failed load that resets it cannot be seen")
        chk.cov["members"] = cover
        chk.cov["member_table_digest"] = table["digest"]
        chk.cov["target_features"] = dict(sorted(features.items()))
    ndis = state["ndis"]
    chk.cov["requests"] = state["requests"]
    chk.cov["model_vs_code_disagreements"] = ndis

    if broken and not [v for v in chk.violations if not v[2]]:
        for b in broken:
            chk.violation(b, {"broken": b, "searched": f"{state['requests']} truncated/damaged streams fed to the real load "
                              "functions under ASan with a before/after snapshot of the target: no failing input"},
                          no_input=True)
    elif broken:
        chk.notes += broken
    return chk.finish(
        level="proof",
        checker_cmd="tools/translate_flow.py > GenFlow.lean && tools/c12_members.py > harness/c12_members_gen.h && "
                    "lake build Vita.C12.Props c12_driver && "
                    "lake env lean <#print axioms for every theorem>",
        rule="for each valid serialization from the C11 generator: every byte prefix (all offsets up to the "
             "tier's length bound, sampled beyond), and per token (all tokens of short records, a sample otherwise, "
             "structural tokens always): deletion, non-numeric word, same-digit-count digits, all zeros, all nines, "
             "sign flip, '+' prefix, swap with the next token, donor token of the same record / of another object, "
             "for every int / float field one variant (one token in eight: all) of each damaged-spelling family: "
             "nonnumeric, partially numeric, sign only, hex, inf/nan words, overlong; "
             "and for program streams the opcode of another valid symbol (other arity / parametric / category, same "
             "shape, unknown); each on a target built by a populating history (a few targets per source object); "
             "distinct = distinct (type, bytes)",
        trusted=["Lean 4.33 kernel", "tools/translate_flow.py (+ translate_loads.py helpers, cxx2lean.py): clang-14 "
                 "JSON AST -> data-flow Stmt syntax; classification rules listed in its header",
                 "abstract data-flow semantics Vita/C12/Flow.lean (Exec)",
                 "tools/c12_members.py (clang-14 JSON AST -> member table) + value rules of harness/c12_snap.h",
                 "hand-written loadInto models (Vita/C12/Model.lean) over the C11 text layer (byte-level model of "
                 "libstdc++'s extractors = the format oracle of part (c)), validated by the differential run", "harness/c12_load.cc snapshots (raw cached signature via explicit-instantiation "
                 "access), g++ 12 ASan/UBSan"])
