"""C13 — real-valued primitives are closed over finite-or-undefined values.

translator (clang AST of real.h / string.h / utility.h -> Vita/C13/Gen.lean) + Lean proofs over
the generated interaction trees for every number type obeying the cited IEEE laws
(Vita/C13/Props.lean) + differential run of the generated terms on Lean's hardware Float against
the compiled primitives (result BITS and the argument positions requested) on the cross product
of a boundary table + an independent Python oracle of the property itself (non-finite result,
strictness, documented IEEE value, documented branch of the conditionals).
"""
import json
import math
import os
import struct
import sys

from vlib import common as C

sys.path.insert(0, os.path.join(C.ROOT, "tools"))
import translate_real  # noqa: E402
import mk_minifloat  # noqa: E402
from cxx2lean import Refuse  # noqa: E402

EPS = 2.0 ** -52
TOL = 2.0 * EPS
DMAX = sys.float_info.max
DMIN = sys.float_info.min
DENORM = 5e-324


def bits(x):
    return struct.unpack("<Q", struct.pack("<d", x))[0]


def fromb(b):
    return struct.unpack("<d", struct.pack("<Q", b))[0]


def nxt(x, k=1):
    """k-th representable neighbour of x (k may be negative)."""
    for _ in range(abs(k)):
        x = math.nextafter(x, math.inf if k > 0 else -math.inf)
    return x


def D(x):
    return "D%016x" % bits(x)


def boundary():
    """~60 finite doubles: zeros, denormals, extreme magnitudes, tolerance neighbourhood, ±1e±154,
    square-root-of-max neighbourhood, π multiples, exp/log edges, small integers and halves."""
    v = [0.0, -0.0, DENORM, -DENORM, nxt(DMIN, -1), DMIN, -DMIN, DMAX, -DMAX, nxt(DMAX, -1),
         TOL, -TOL, nxt(TOL, 1), nxt(TOL, -1), -nxt(TOL, 1), -nxt(TOL, -1), EPS, -EPS,
         1.0, -1.0, 1.0 + EPS, 1.0 - EPS / 2, 1.0 + TOL, nxt(1.0 + TOL, 1), 2.0, -2.0, 0.5, -0.5,
         3.0, -3.0, 2.5, -2.5, 7.0, 1e154, -1e154, 1e-154, -1e-154,
         1.3407807929942597e154, nxt(1.3407807929942597e154, 1), 1e308, -1e308, 1e-308,
         math.pi, -math.pi, math.pi / 2, 2 * math.pi, 1e22, 3 * math.pi / 2,
         709.782712893384, 709.7827128933841, 710.0, -745.1332191019411, -745.1332191019412, -746.0,
         36.7, -36.7, 1e16, 9007199254740993.0, 0.1, 123456.789]
    seen, out = set(), []
    for x in v:
        b = bits(x)
        if b not in seen:
            seen.add(b)
            out.append(x)
    return out


UNARY = ["abs", "cos", "sin", "sqrt", "ln", "sigmoid"]
BINARY = ["add", "sub", "mul", "div", "idiv", "mod", "max", "aq", "gt", "lt"]
KNOWN = set(UNARY + BINARY + ["real", "integer", "ifb", "ife", "ifl", "ifz", "length", "sife"])
# which FloatOps operations each primitive's result goes through (for the libm bit check)
USES = {"abs": ["fabs"], "cos": ["cos"], "sin": ["sin"], "sqrt": ["sqrt"], "ln": ["log"],
        "sigmoid": ["exp", "div", "add", "neg"], "add": ["add"], "sub": ["sub"], "mul": ["mul"],
        "div": ["div"], "idiv": ["div", "floor"], "mod": ["fmod"], "max": ["fmax"],
        "aq": ["div", "sqrt", "add", "mul"], "ifb": ["fmin", "fmax"], "ife": ["sub", "fabs"], "ifz": ["fabs"]}


def is_fin(x):
    return not (math.isinf(x) or math.isnan(x))


def guard(x):
    return ("D", bits(x)) if is_fin(x) else ("V",)


def pyop(op, a, b=0.0):
    """IEEE result of one operation computed by Python (C doubles), NaN/inf allowed."""
    try:
        if op == "add":
            return a + b
        if op == "sub":
            return a - b
        if op == "mul":
            return a * b
        if op == "div":
            if b == 0.0:
                if a == 0.0 or math.isnan(a):
                    return math.nan
                return math.copysign(math.inf, a) * math.copysign(1.0, b)
            return a / b
        if op == "floor":
            if not is_fin(a) or abs(a) >= 2.0 ** 53 or a == 0.0:
                return a
            return math.copysign(float(math.floor(a)), a)   # floor keeps the sign (0 < a < 1 -> +0)
        if op == "sqrt":
            return math.sqrt(a) if a >= 0 else math.nan
        if op == "log":
            return math.log(a) if a > 0 else (-math.inf if a == 0 else math.nan)
        if op == "exp":
            try:
                return math.exp(a)
            except OverflowError:
                return math.inf
        if op == "fmod":
            return math.fmod(a, b) if b != 0 and is_fin(a) else math.nan
    except (ValueError, OverflowError):
        return math.nan
    raise KeyError(op)


def documented(name, xs):
    """The documented outcome of a primitive on double arguments xs (independent of the model):
    ("D", bits) | ("V",) | ("ARG", i) | ("I", n) | None when this oracle does not cover it."""
    a = xs[0]
    b = xs[1] if len(xs) > 1 else 0.0
    if name == "abs":
        return ("D", bits(abs(a)))
    if name in ("add", "sub", "mul", "div"):
        return guard(pyop(name, a, b))
    if name == "idiv":
        q = pyop("div", a, b)
        return guard(pyop("floor", q)) if is_fin(q) else ("V",)
    if name == "mod":
        return guard(pyop("fmod", a, b))
    if name == "max":
        return ("D", bits(max(a, b))) if a != b else None   # fmax(+0,-0) may be either zero
    if name == "cos":
        return ("D", bits(math.cos(a)))
    if name == "sin":
        return ("D", bits(math.sin(a)))
    if name == "sqrt":
        return ("V",) if a < 0 else ("D", bits(math.sqrt(a)))
    if name == "ln":
        return guard(pyop("log", a))
    if name == "aq":
        return guard(pyop("div", a, math.sqrt(1.0 + b * b)))
    if name == "sigmoid":
        if a >= 0:
            return ("D", bits(1.0 / (1.0 + pyop("exp", -a))))
        e = pyop("exp", a)
        return ("D", bits(e / (1.0 + e)))
    if name == "gt":
        return ("I", 1 if a > b else 0)
    if name == "lt":
        return ("I", 1 if a < b else 0)
    if name == "ife":
        return ("ARG", 2 if abs(a - b) < 2 * sys.float_info.epsilon else 3)
    if name == "ifz":
        return ("ARG", 1 if abs(a) < 2 * sys.float_info.epsilon else 2)
    if name == "ifl":
        return ("ARG", 2 if a < b else 3)
    if name == "ifb":
        c = xs[2]
        return ("ARG", 3 if min(b, c) <= a <= max(b, c) else 4)
    return None


def parse_val(t):
    if t == "V":
        return ("V",)
    if t == "T":
        return ("T",)
    if t[0] == "D":
        return ("D", int(t[1:], 16))
    if t[0] == "I":
        return ("I", int(t[1:]))
    return ("S", t[1:])


def run(chk, replay=None):
    rng = C.SplitMix(chk.seed)
    gen = os.path.join(C.LEAN, "Vita", "C13", "Gen.lean")
    broken = []
    names = None
    try:
        names, changed = translate_real.emit(gen)
        chk.cov["translated"] = names
        chk.cov["gen_changed_vs_committed"] = bool(changed)
    except Refuse as e:
        broken.append("translator tools/translate_real.py refuses the current real.h/string.h/utility.h: %s" % e)

    ext = None
    try:
        ext, changed2 = translate_real.emit_ext(os.path.join(C.LEAN, "Vita", "C13", "GenExt.lean"))
        chk.cov["classes"] = [c[0] for c in ext["classes"]]
        chk.cov["headers"] = ext["headers"]
        chk.cov["gen_ext_changed_vs_committed"] = bool(changed2)
    except Refuse as e:
        broken.append("translator tools/translate_real.py refuses the class tables / boolean primitives / terminals / "
                      "init / penalty of the current sources: %s" % e)
    bad_tables = mk_minifloat.check(os.path.join(C.LEAN, "Vita", "C13", "Mini.lean"))
    if bad_tables:
        broken.append("the libm tables of the 6-bit format (Vita/C13/Mini.lean) differ from the recomputed ones: %s" % bad_tables)

    drv_ok = False
    if names is not None and ext is not None:
        ok, out = C.lake_build(["c13_driver"])
        drv_ok = ok
        if not ok:
            broken.append("driver does not build from the generated terms: " + C.lean_errors(out))
        ok, msg = chk.prove("Vita.C13.Props", ["Vita.C13.Props"])
        if not ok:
            broken.append("theorems of Vita.C13.Props no longer check: " + msg)

    wire_h = os.path.join(C.ROOT, "harness", "c01_wire.h")
    wh = __import__("hashlib").sha256(open(wire_h, "rb").read()).hexdigest()[:16]
    exe = C.build_harness("c13_real", "asan", extra_flags=["-DWIRE_H_HASH=" + wh])

    # ---- inputs --------------------------------------------------------------
    B = boundary()
    BV = [D(x) for x in B] + ["V"]
    quick = chk.tier == "quick"
    lines = ["names"]
    if replay:
        r = json.load(open(replay))
        lines.append(r["replay"]["line"])
    else:
        cdir = os.path.join(C.ROOT, "corpus", "C13")
        if os.path.isdir(cdir):
            for f in sorted(os.listdir(cdir)):
                lines += [l.strip() for l in open(os.path.join(cdir, f)) if l.strip() and not l.startswith("#")]
        M1, M2 = D(111.0), D(222.0)
        for x in [D(x) for x in B]:
            lines.append(f"run real {x[1:]} V V V V V")
            lines.append(f"run integer {x[1:]} V V V V V")
        for op in UNARY:
            for a in BV:
                lines.append(f"run {op} 0 {a} V V V V")
        for a in BV:
            lines.append(f"run ifz 0 {a} {M1} {M2} V V")
            lines.append(f"run ifz 0 {a} V {M2} V V")
            lines.append(f"run ifz 0 {a} {M1} V V V")
        for op in BINARY:
            for a in BV:
                for b in BV:
                    lines.append(f"run {op} 0 {a} {b} V V V")
        for op in ("ife", "ifl"):
            for a in BV:
                for b in BV:
                    k = rng.below(8)
                    c, d = (M1, M2) if k > 1 else (("V", M2) if k == 0 else (M1, "V"))
                    lines.append(f"run {op} 0 {a} {b} {c} {d} V")
        # tolerance neighbourhood of FIFE around several centres: |a-b| just below / at / above 2·eps
        for c0 in (0.0, 1.0, -1.0, 0.5, 1e-15, 3.0, 1e-300, TOL, 1024.0):
            for t in (TOL, nxt(TOL, 1), nxt(TOL, -1), TOL / 2, 2 * TOL, EPS, 3 * EPS, 0.0):
                for sgn in (1.0, -1.0):
                    lines.append(f"run ife 0 {D(c0)} {D(c0 + sgn * t)} {M1} {M2} V")
                    lines.append(f"run ife 0 {D(c0 + sgn * t)} {D(c0)} {M1} {M2} V")
        B3 = BV if not quick else [BV[i] for i in range(0, len(BV), 3)] + ["V"]
        for a in B3:
            for b in B3:
                for c in B3:
                    lines.append(f"run ifb 0 {a} {b} {c} {M1} {M2}")
        strs = ["S-", "S61", "S616263", "S" + "7a" * 40, "S20", "S6162630a", "V"]
        for s in strs:
            lines.append(f"run length 0 {s} V V V V")
        mixed = strs + [D(1.0), D(-0.0), D(0.0), "I0", "I7", "I-7"]
        for a in mixed:
            for b in mixed:
                lines.append(f"run sife 0 {a} {b} {M1} S62 V")
        # ill-typed arguments (outside the property's quantifier): both sides must raise the same way
        for op in UNARY + BINARY + ["ife", "ifl", "ifz", "ifb", "length"]:
            for a in ("I3", "S61", D(1.0)):
                for b in ("I3", "S61", D(1.0)):
                    lines.append(f"run {op} 0 {a} {b} {D(2.0)} {M1} {M2}")
        # the other symbol kinds: boolean family, variables, constants (GenExt.lean)
        ints = ["I0", "I1", "I-1", "I2", "I2147483647", "I-2147483648"]
        for a in ints + ["V", D(1.0), "S61"]:
            lines.append(f"run bnot 0 {a} V V V V")
            for b in ints + ["V", D(0.0), "S-"]:
                lines.append(f"run band 0 {a} {b} V V V")
                lines.append(f"run bor 0 {a} {b} V V V")
        lines.append("run bzero 0 V V V V V")
        lines.append("run bone 0 I5 V V V V")
        exv = [D(1.5), "I7", "S6162", "V", D(-0.0)]
        for k in range(0, 8):
            lines.append(f"run var{k} 0 " + " ".join(exv))
            lines.append(f"run var{k} 0 " + " ".join(BV[rng.below(len(BV))] for _ in range(5)))
        for x in B:
            if x == 0.0 or abs(x) >= DMIN:      # std::stod refuses subnormal texts: no such constant can be built
                lines.append(f"run cdbl {D(x)[1:]} V V V V V")
        for a in ints:
            lines.append(f"run cint 0 {a} V V V V")
        for a in strs[:-1]:
            lines.append(f"run cstr 0 {a} V V V V")
        # init() of the parametric terminals: finite bounds whose difference is finite (the precondition of
        # std::uniform_real_distribution) – boundary intervals and random ones
        rpairs = [(-1000.0, 1000.0), (0.0, 1.0), (-1e-300, 1e-300), (1.0, nxt(1.0, 1)), (-DMAX / 2.5, DMAX / 2.5),
                  (DENORM, 2 * DENORM), (-DMAX, -DMAX / 2), (DMAX / 2, DMAX), (-0.0, DENORM), (1e308, 1.5e308)]
        for _ in range(40 if quick else 1500):
            a, b = fromb(int(draw_fin(rng), 16)), fromb(int(draw_fin(rng), 16))
            if a != b and is_fin(max(a, b) - min(a, b)):
                rpairs.append((min(a, b), max(a, b)))
        for (a, b) in rpairs:
            for _ in range(3 if quick else 8):
                lines.append(f"init real {D(a)[1:]} {D(b)[1:]} {rng.below(1 << 31)}")
        # probes outside that precondition (upp - min overflows): reported through the known finding
        for (a, b) in ((-DMAX, DMAX), (-1e308, 1e308), (-DMAX, 1.0)):
            lines.append(f"init real {D(a)[1:]} {D(b)[1:]} {rng.below(1 << 31)}")
        ipairs = [(-128, 127), (-2147483648, 2147483647), (-2147483648, -2147483647), (2147483646, 2147483647), (0, 1),
                  (-1, 0)]
        for _ in range(20 if quick else 600):
            a, b = rng.between(-2147483648, 2147483648), rng.between(-2147483648, 2147483648)
            if a != b:
                ipairs.append((min(a, b), max(a, b)))
        for (a, b) in ipairs:
            for _ in range(3 if quick else 8):
                lines.append(f"init integer {a} {b} {rng.below(1 << 31)}")
        # penalty_nvi = comparison_function_penalty: the four argument rows of a FIFE / FIFL gene
        for i0 in (1, 2):
            for i1 in (1, 2):
                for i2 in (1, 2, 3):
                    for i3 in (1, 3, 4):
                        lines.append(f"pen {i0} {i1} {i2} {i3}")
        for _ in range(40 if quick else 400):
            lines.append("pen " + " ".join(str(rng.between(1, 9)) for _ in range(4)))
        # constants built by symbol_factory::make from a text token
        for txt in ("1.5", "-0.0", "1.0e99", "1e999", "1.0e999", "inf", "nan", "-inf", "0x1p3", "1e-400", "1.0e-400",
                    "12", "-7", "2147483648", "abc", "1.5e308", "1.8e308", "4.9e-324", ".5", "5."):
            lines.append("lex - " + txt.encode().hex())
        # random tuples: random finite bit patterns, boundary values, near-equal pairs
        nrand = 120000 if quick else 1500000
        allops = UNARY + BINARY + ["ife", "ifl", "ifz", "ifb"]
        def draw():
            k = rng.below(6)
            if k == 0:
                return BV[rng.below(len(BV))]
            if k == 1:
                return D(float(rng.between(-40, 41)) / 4.0)
            while True:
                b = rng.next()
                if (b >> 52) & 0x7FF != 0x7FF:
                    return "D%016x" % b
        for _ in range(nrand):
            op = allops[rng.below(len(allops))]
            a = draw()
            b = draw()
            if rng.below(4) == 0 and a != "V":
                nb = nxt(fromb(int(a[1:], 16)), rng.between(-3, 4))
                if is_fin(nb):
                    b = D(nb)
            lines.append(f"run {op} 0 {a} {b} {draw()} {M1} {M2}")
        # one FloatOps operation at a time (libm bit equality Lean runtime vs libstdc++)
        for op in ("fabs", "floor", "sqrt", "log", "exp", "sin", "cos", "neg", "isfinite"):
            for x in B:
                lines.append(f"fn {op} {D(x)[1:]} 0")
        for op in ("add", "sub", "mul", "div", "fmod", "fmin", "fmax", "lt", "le", "eq"):
            for x in B:
                for y in B:
                    lines.append(f"fn {op} {D(x)[1:]} {D(y)[1:]}")
        for _ in range(20000 if quick else 400000):
            op = ("fabs", "floor", "sqrt", "log", "exp", "sin", "cos", "add", "sub", "mul", "div", "fmod",
                  "fmin", "fmax")[rng.below(14)]
            lines.append(f"fn {op} {draw_fin(rng)} {draw_fin(rng)}")

    cpp, deaths = C.run_lines(exe, lines)
    for idx, rc, se in deaths:
        chk.violation("harness died (rc=%d) while evaluating: %s\n%s" % (rc, lines[idx], se[-1500:]),
                      {"line": lines[idx]}, tags={"line": lines[idx]})
    # the law spot check only exists on the Lean side
    law_lines = []
    if not replay:
        ds = [D(x)[1:] for x in (1.0, 1.0 + EPS, 2.0, 0.5, DMAX, 1e-300)]
        for x in B:
            for d in ds:
                law_lines.append(f"law {D(x)[1:]} {d}")
    core_lines, mini_lines = [], []
    if not replay:
        XB = [D(x)[1:] for x in B] + ["7ff0000000000000", "fff0000000000000", "7ff8000000000000"]
        for _ in range(6000 if quick else 120000):
            core_lines.append("core %s %s %s" % (XB[rng.below(len(XB))] if rng.below(2) else draw_fin(rng),
                                                 XB[rng.below(len(XB))] if rng.below(2) else draw_fin(rng),
                                                 XB[rng.below(len(XB))] if rng.below(2) else draw_fin(rng)))
        for x in XB:
            for y in ("3ff0000000000000", "3ff0000000000001", "4000000000000000", "7fefffffffffffff", "7ff0000000000000"):
                core_lines.append(f"core {x} {y} {x}")
        for op in ("neg", "fabs", "floor", "sqrt", "log", "exp", "sin", "cos", "isfinite"):
            for a in range(64):
                mini_lines.append(f"mini {op} {a} 0")
        for op in ("add", "sub", "mul", "div", "fmod", "fmin", "fmax", "lt", "le", "eq"):
            for a in range(64):
                for b in range(64):
                    mini_lines.append(f"mini {op} {a} {b}")
    n_law0 = len(lines)
    n_core0 = n_law0 + len(law_lines)
    n_mini0 = n_core0 + len(core_lines)
    # the model answers the same lines; `init … <seed>` becomes `init … <the value the code drew>`
    mlines = []
    for q, a in zip(lines, cpp):
        t = q.split()
        if t[0] == "init" and a.split() and len(a.split()[0]) == 16:
            x = fromb(int(a.split()[0], 16))
            if t[1] == "real":
                mlines.append(f"init real {t[2]} {t[3]} {a.split()[0]}")
            else:
                mlines.append(f"init integer {t[2]} {t[3]} {int(x) if is_fin(x) else 0}")
        elif t[0] == "lex":
            mlines.append("names")
        else:
            mlines.append(q)
    mlines += lines[len(mlines):]
    lean = C.run_driver("c13_driver", mlines + law_lines + core_lines + mini_lines) if drv_ok else None

    if lean is not None and lean[0].split() != cpp[0].split():
        broken.append("primitive sets differ: the sources (AST) have [%s], the harness drives [%s]" % (lean[0], cpp[0]))
    if names is not None and set(names) != KNOWN:
        broken.append("primitive set changed: %s (the check's oracle knows %s)" % (sorted(set(names) ^ KNOWN), "the rest"))

    # ---- libm bit check --------------------------------------------------------
    loose = set()
    if lean is not None:
        for i in range(1, min(len(lines), len(cpp), len(lean))):
            if lines[i].startswith("fn "):
                chk.count("fn:" + lines[i].split()[1])
                if canon_fn(cpp[i]) != canon_fn(lean[i]):
                    loose.add(lines[i].split()[1])
                    chk.count("fn_bits_differ:" + lines[i].split()[1])
                    if len(chk.notes) < 5:
                        chk.notes.append("Lean runtime and libstdc++ differ on `%s`: %s vs %s" % (lines[i], lean[i], cpp[i]))
        for i in range(n_law0, min(n_mini0, len(lean))):
            chk.count("law_checks" if i < n_core0 else "core_law_checks")
            if lean[i] != "ok":
                chk.count("law_failed")
                broken.append("IEEE law fails on hardware doubles: `%s` -> %s" % ((law_lines + core_lines)[i - n_law0], lean[i]))
        nmini = 0
        for i in range(n_mini0, len(lean)):
            q = mini_lines[i - n_mini0].split()
            chk.count("mini_format_ops")
            want = mk_minifloat.op("log" if q[1] == "log" else q[1], int(q[2]), int(q[3]))
            if lean[i] != want:
                nmini += 1
                if nmini <= 3:
                    broken.append("the 6-bit IEEE-style format of Vita/C13/Mini.lean disagrees with the exact-fraction "
                                  "reference (tools/mk_minifloat.py) on `%s`: %s vs %s" % (mini_lines[i - n_mini0], lean[i], want))
        chk.cov["mini_format_disagreements"] = nmini
    chk.cov["ops_compared_by_value_only"] = sorted(loose)

    # ---- compare + oracle --------------------------------------------------------
    ndis = 0
    for i in range(1, min(len(lines), len(cpp))):
        t = lines[i].split()
        if t[0] in ("init", "pen", "lex"):
            c = cpp[i].split()
            chk.seen(lines[i])
            chk.count("kind:" + t[0] + (":" + t[1] if t[0] == "init" else ""))
            m = lean[i] if lean is not None and i < len(lean) else None
            rep = {"line": lines[i], "cpp": cpp[i], "model": m}
            if not c or c[0] in ("died", "skipped", "bad-op"):
                if c and c[0] == "bad-op":
                    broken.append("harness does not understand `%s`" % lines[i])
                continue
            if t[0] == "init":
                x = fromb(int(c[0], 16))
                if t[1] == "real":
                    lo, hi = fromb(int(t[2], 16)), fromb(int(t[3], 16))
                    over = not is_fin(hi - lo)
                    tags = {"op": "init", "class": "real::real", "kind": "range-overflow" if over else "in-contract",
                            "min": repr(lo), "upp": repr(hi)}
                    if not is_fin(x):
                        chk.violation(f"real::real(c, {lo!r}, {hi!r}).init() returned the non-finite parameter {x!r}: a REAL "
                                      f"gene then evaluates to it" + (" (upp - min overflows: outside the precondition of "
                                      "std::uniform_real_distribution, which vita does not check)" if over else ""),
                                      rep, tags=tags)
                    elif not (lo <= x <= hi):
                        chk.violation(f"real::real(c, {lo!r}, {hi!r}).init() returned {x!r}, outside [min, upp]", rep, tags=tags)
                    if is_fin(x) and x == hi:
                        chk.count("init_real_returned_upp")
                else:
                    lo, hi = int(t[2]), int(t[3])
                    tags = {"op": "init", "class": "real::integer", "kind": "in-contract", "min": lo, "upp": hi}
                    if not (is_fin(x) and x == int(x) and lo <= int(x) < hi):
                        chk.violation(f"real::integer(c, {lo}, {hi}).init() returned {x!r}: not an integer of [{lo},{hi})",
                                      rep, tags=tags)
                if c[1:] != ["1"]:
                    chk.violation(f"real::{t[1]}::parametric() is false", rep, tags={"op": "init"})
                if m is not None and m != c[0]:
                    ndis += 1
                    if ndis <= 3:
                        broken.append(f"generated init term disagrees with compiled code on `{lines[i]}`: model {m!r}, code {cpp[i]!r}")
            elif t[0] == "pen":
                ix = [int(v) for v in t[1:5]]
                want = "%016x" % bits(float((ix[0] == ix[1]) + (ix[2] == ix[3])))
                chk.count("penalty:" + str((ix[0] == ix[1]) + (ix[2] == ix[3])))
                if c != [want, want]:
                    chk.violation(f"penalty of FIFE / FIFL with argument rows {ix} is {c}, documented "
                                  f"(i0==i1)+(i2==i3) = {want}", rep, tags={"op": "penalty", "rows": str(ix)})
                if m is not None and m != c[0]:
                    ndis += 1
                    if ndis <= 3:
                        broken.append(f"generated compPenalty disagrees with compiled code on `{lines[i]}`: model {m!r}, code {cpp[i]!r}")
            else:
                txt = bytes.fromhex(t[2]).decode()
                chk.count("lex:" + c[0][0])
                if c[0][0] == "D" and (int(c[0][1:], 16) >> 52) & 0x7FF == 0x7FF:
                    chk.violation(f"symbol_factory::make({txt!r}) builds a constant<double> holding the non-finite value {c[0]}",
                                  rep, tags={"op": "lex", "text": txt})
            continue
        if t[0] != "run":
            continue
        op = t[1]
        c = cpp[i].split()
        chk.seen(lines[i])
        chk.count("op:" + op)
        if c[0] in ("died", "skipped", "bad-op"):
            chk.count("cpp:" + c[0])
            if c[0] == "bad-op":
                broken.append("harness does not understand `%s`" % lines[i])
            continue
        res = parse_val(c[0])
        asked = [] if c[1] == "-" else [int(x) for x in c[1].split(",")]
        args = [parse_val(x) for x in t[3:]]
        chk.count("result:" + res[0])
        tags = {"op": op, "args": " ".join(t[3:]), "par": t[2]}
        rep = {"line": lines[i], "cpp": cpp[i]}
        typed_real = all(args[j][0] in ("D", "V") for j in asked if j < len(args)) and op != "sife" and op != "length"
        # (1) the property: never NaN / infinity
        if res[0] == "D" and (res[1] >> 52) & 0x7FF == 0x7FF:
            chk.violation(f"real::{op} returned a non-finite double {c[0]} on finite/undefined arguments {t[3:]} par {t[2]}",
                          rep, tags=tags)
        # (2) strictness: an undefined argument that was asked for gives an undefined result
        is_real_family = op in KNOWN
        if is_real_family and any(j < len(args) and args[j][0] == "V" for j in asked) and res[0] != "V":
            chk.count("strictness_broken")
            chk.violation(f"real::{op} was given an undefined argument it asked for but returned {c[0]}: {t[3:]}",
                          rep, tags=tags)
        if any(j < len(args) and args[j][0] == "V" for j in asked):
            chk.count("void_argument_asked")
        # (3) documented value / branch on defined double arguments
        need = {"ifb": 3, "ife": 2, "ifl": 2, "ifz": 1}.get(op, 2 if op in BINARY else 1)
        if op in USES or op in BINARY or op in UNARY:
            if len(args) >= need and all(a[0] == "D" for a in args[:need]):
                xs = [fromb(a[1]) for a in args[:need]]
                want = documented(op, xs)
                if want is not None and want[0] == "ARG":
                    chk.count(f"branch:{op}:{want[1]}")
                    if asked[-1:] != [want[1]] or len(asked) != need + 1:
                        chk.violation(f"real::{op} asked for arguments {asked} on {t[3:3 + need]}; the documented "
                                      f"branch is argument {want[1]}", dict(rep, documented=want), tags=tags)
                    elif res != args[want[1]]:
                        chk.violation(f"real::{op} returned {c[0]}, not its argument {want[1]}", rep, tags=tags)
                elif want is not None and want != res:
                    chk.violation(f"real::{op}{tuple(xs)} returned {c[0]}, the IEEE result of the named operation is {want}",
                                  dict(rep, documented=want), tags=tags)
                if want is not None and want[0] == "V":
                    chk.count("guard_fired:" + op)
        if not typed_real and res[0] == "T":
            chk.count("ill_typed_throw")
        # (3b) the other symbol kinds: documented value computed here
        want2 = None
        if op in ("band", "bor", "bnot", "bzero", "bone"):
            def iv(j):
                return args[j][1] if j < len(args) and args[j][0] == "I" else None
            a0, a1 = iv(0), iv(1)
            if op == "bzero":
                want2 = ("I0", [])
            elif op == "bone":
                want2 = ("I1", [])
            elif a0 is None:
                want2 = ("T", [0])
            elif op == "bnot":
                want2 = ("I1" if a0 == 0 else "I0", [0])
            elif op == "band":
                want2 = ("I0", [0]) if a0 == 0 else (("T", [0, 1]) if a1 is None else ("I1" if a1 != 0 else "I0", [0, 1]))
            else:
                want2 = ("I1", [0]) if a0 != 0 else (("T", [0, 1]) if a1 is None else ("I1" if a1 != 0 else "I0", [0, 1]))
        elif op.startswith("var"):
            k = int(op[3:])
            want2 = (t[3 + k] if 3 + k < len(t) else "V", [])
        elif op == "cdbl":
            want2 = ("D" + t[2], [])
        elif op in ("cint", "cstr"):
            want2 = (t[3], [])
        if want2 is not None:
            chk.count("other_kind:" + (op if not op.startswith("var") else "var"))
            if (c[0], asked) != want2:
                chk.violation(f"{op} on {t[3:]} (par {t[2]}) answered {c[0]} asking for {asked}; documented {want2[0]} "
                              f"asking for {want2[1]}", dict(rep, documented=want2), tags=tags)
        # (4) model vs code
        if lean is not None and i < len(lean) and lean[i] != cpp[i]:
            l = lean[i].split()
            # an operation whose bits differ between the Lean runtime and libstdc++ (seen: fmin/fmax on
            # zeros of opposite sign, where C leaves the choice open) is compared by numeric value
            lv = parse_val(l[0]) if len(l) == 2 else None
            same_value = lv is not None and l[1] == c[1] and lv[0] == "D" and res[0] == "D" and \
                fromb(lv[1]) == fromb(res[1]) and bool(set(USES.get(op, [])) & loose)
            if same_value:
                chk.count("compared_by_value_only")
            else:
                ndis += 1
                if ndis <= 3:
                    broken.append(f"generated term disagrees with compiled code on `{lines[i]}`: model {lean[i]!r}, code {cpp[i]!r}")
        if i % 20011 == 0:
            chk.sample({"line": lines[i], "cpp": cpp[i], "model": lean[i] if lean else None})
    chk.cov["model_vs_code_disagreements"] = ndis
    chk.cov["boundary_values"] = len(B)

    # ---- compositions: whole programs over the real symbol set, observed at vita::run -------------
    # (the C01 harness builds random individuals with vita's constructor / mutation / crossover and runs
    #  them on finite examples; `run_closed` says the answer is finite or undefined)
    if not replay:
        exe2 = C.build_harness("c01_interp", "asan", extra_flags=["-DWIRE_H_HASH=" + wh])
        reqs = []
        # single-category real programs and MULTI-category ones (typed3: real / int-boolean / string with ERCs of
        # both numeric kinds, variables and constants of the three value types; str2: real / string)
        for n in range(330 if quick else 8000):
            rows = rng.between(4, 41)
            sset = ("real", "real", "typed3", "str2")[n % 4]
            reqs.append(f"scn {sset} {rng.next() % 1000000007} {rows} {1 + rng.below(min(rows - 1, 5))} "
                        f"{rng.below(3)} {rng.between(2, 5)}")
        ans2, deaths2 = C.run_lines(exe2, reqs, timeout=3000)
        for idx, rc, se in deaths2:
            chk.violation("composition harness died (rc=%d) on `%s`\n%s" % (rc, reqs[idx], se[-1500:]),
                          {"request": reqs[idx]}, tags={"op": "program", "request": reqs[idx]})
        for q, a in zip(reqs, ans2):
            prog = None
            for item in a.split(" ;; "):
                t = item.split()
                if not t:
                    continue
                if t[0] == "P":
                    prog = item
                    chk.count("composition_programs:" + q.split()[1])
                elif t[0][0] == "R" and "=" in t:
                    r = t[t.index("=") + 1]
                    chk.evaluations += 1
                    chk.count("composition_result:" + r[0])
                    if r[0] == "D" and (int(r[1:], 16) >> 52) & 0x7FF == 0x7FF:
                        chk.violation(f"a program over the shipped primitives (symbol set {q.split()[1]}) returned the non-finite double {r} on the "
                                      f"finite example [{' '.join(t[1:t.index('=')])}]: `{(prog or '')[:300]}…`",
                                      {"request": q, "program": prog, "item": item},
                                      tags={"op": "program", "request": q})

    if broken and not [v for v in chk.violations if not v[2]]:
        for b in broken[:4]:
            chk.violation(b, {"broken": b, "searched": f"{len(lines)} argument tuples (boundary cross product + random) "
                              "against the non-finite / strictness / documented-value / documented-branch oracles: "
                              "no failing input"}, no_input=True)
    elif broken:
        chk.notes += broken[:6]
    return chk.finish(
        level="proof",
        checker_cmd="lake build Vita.C13.Props && lake env lean <#print axioms for every theorem>",
        rule="argument tuples: every primitive on the cross product of %d boundary doubles + undefined (ifb: cubed, "
             "thinned in the quick tier), tolerance neighbourhoods for FIFE, strings/ints for SIFE/FLENGTH, ill-typed "
             "tuples, random finite bit patterns; distinct = distinct input lines; each is checked for a non-finite "
             "result, strictness, the documented IEEE value / branch (Python oracle) and against the generated Lean "
             "term run on hardware Float (result bits and requested argument positions)" % len(B),
        trusted=["Lean 4.33 kernel", "tools/translate_real.py + cxx2lean.py (clang-14 JSON AST -> Prog syntax)",
                 "Vita.Common.Prog / FloatOps (meaning of the generated syntax)",
                 "IEEE-754/libm laws as hypotheses (IEEELaws): spot-checked on the boundary table, not proved",
                 "g++ 12 / glibc libm for the differential run"])


def canon_fn(h):
    """bit pattern of a `fn` answer with every NaN mapped to one token (Lean's Float.toBits
    canonicalises NaNs, the sign/payload of a NaN is not part of IEEE semantics)"""
    try:
        b = int(h, 16)
    except ValueError:
        return h
    return "nan" if (b >> 52) & 0x7FF == 0x7FF and b & ((1 << 52) - 1) else h


def draw_fin(rng):
    while True:
        b = rng.next()
        if (b >> 52) & 0x7FF != 0x7FF:
            return "%016x" % b
