"""C14 — integer primitives never overflow and saturate as documented.

translator (clang AST of int.h -> Vita/C14/Gen.lean) + Lean proofs over the generated
terms (Vita/C14/Props.lean) + differential run of the generated terms against the
compiled primitives under UBSan + an independent Python oracle of the documented values.
"""
import os
import sys

from vlib import common as C

sys.path.insert(0, os.path.join(C.ROOT, "tools"))
import translate_int  # noqa: E402
from cxx2lean import Refuse  # noqa: E402

MAX, MIN = 2147483647, -2147483648


def clamp(x):
    return MAX if x > MAX else MIN if x < MIN else x


def tdiv(a, b):
    q = abs(a) // abs(b)
    return q if (a >= 0) == (b >= 0) else -q


def spec(op, x):
    a, b = x[0], x[1]
    if op == "add":
        return clamp(a + b)
    if op == "sub":
        return clamp(a - b)
    if op == "mul":
        return clamp(a * b)
    if op == "div":
        return a if b == 0 or (a == MIN and b == -1) else tdiv(a, b)
    if op == "mod":
        return b if b == 0 or (a == MIN and b == -1) else a - b * tdiv(a, b)
    if op == "shl":
        return (a << b) if (a >= 0 and 0 <= b < 32 and (a << b) <= MAX) else a
    if op == "ife":
        return x[2] if a == b else x[3]
    if op == "ifl":
        return x[2] if a < b else x[3]
    if op == "ifz":
        return x[1] if a == 0 else x[2]
    return None


def boundary():
    vals = set()
    for d in range(-3, 4):
        vals.add(d)
        vals.add(clamp(MAX + d))
        vals.add(clamp(MIN + d))
    for k in range(1, 32):
        for d in (-1, 0, 1):
            vals.add(clamp((1 << k) + d))
            vals.add(clamp(-(1 << k) + d))
    vals |= {31, 32, 33, 63, 64, 65, 46340, 46341, -46340, -46341, 65535, 65536, -65536}
    return sorted(vals)


def run(chk, replay=None):
    rng = C.SplitMix(chk.seed)
    gen = os.path.join(C.LEAN, "Vita", "C14", "Gen.lean")
    broken = []          # proof / correspondence problems (reported only if no concrete input is found)
    names = None
    try:
        names, changed = translate_int.emit(gen)
        chk.cov["translated"] = names
        chk.cov["gen_changed_vs_committed"] = bool(changed)
    except Refuse as e:
        broken.append("translator tools/translate_int.py refuses the current int.h: %s" % e)

    drv_ok = False
    if names is not None:
        ok, out = C.lake_build(["c14_driver"])
        drv_ok = ok
        if not ok:
            broken.append("driver does not build from the generated terms: " + C.lean_errors(out))
        ok, msg = chk.prove("Vita.C14.Props", ["Vita.C14.Props"])
        if not ok:
            broken.append("theorems of Vita.C14.Props no longer check: " + msg)

    exe = C.build_harness("c14_int", "asan", extra_flags=["-fsanitize-recover=undefined"])

    # ---- inputs --------------------------------------------------------
    ops2 = ["add", "sub", "mul", "div", "mod", "shl"]
    ops4 = ["ife", "ifl", "ifz"]
    extra = [n for n in (names or []) if n not in ops2 + ops4]
    B = boundary()
    lines = ["names"]
    if replay:
        r = __import__("json").load(open(replay))
        lines.append(r["replay"]["line"])
    else:
        for op in ops2 + extra:
            for a in B:
                for b in B:
                    lines.append(f"{op} {a} {b}")
        small = [MIN, MIN + 1, -2, -1, 0, 1, 2, MAX - 1, MAX]
        for op in ops4:
            for a in small:
                for b in small:
                    lines.append(f"{op} {a} {b} {rng.between(MIN, MAX + 1)} {rng.between(MIN, MAX + 1)}")
        nrand = 200000 if chk.tier == "quick" else 3000000
        allops = ops2 + ops4 + extra
        for _ in range(nrand):
            op = allops[rng.below(len(allops))]
            m = rng.below(4)
            def draw():
                k = rng.below(5)
                if k == 0:
                    return B[rng.below(len(B))]
                if k == 1:
                    return rng.between(-40, 41)
                return rng.between(MIN, MAX + 1)
            lines.append(f"{op} {draw()} {draw()} {draw()} {draw()}")

    cpp, deaths = C.run_lines(exe, lines, env={"UBSAN_OPTIONS": "print_stacktrace=0:halt_on_error=0"})
    for idx, rc, se in deaths:
        chk.violation("harness died (rc=%d) while evaluating: %s\n%s" % (rc, lines[idx], se[-1500:]),
                      {"line": lines[idx]}, tags={"line": lines[idx]})
    lean = C.run_driver("c14_driver", lines) if drv_ok else None

    if lean is not None and lean[0].split() != sorted(cpp[0].split()) and sorted(lean[0].split()) != sorted(cpp[0].split()):
        broken.append("primitive sets differ: int.h (AST) has %s, the harness drives %s" % (lean[0], cpp[0]))

    ndis = 0
    for i in range(1, min(len(lines), len(cpp))):
        t = lines[i].split()
        op, xs = t[0], [int(v) for v in t[1:]] + [0, 0, 0, 0]
        c = cpp[i].split()
        chk.seen(lines[i])
        chk.count("op:" + op)
        want = spec(op, xs)
        tags = {"op": op, "v0": xs[0], "v1": xs[1]}
        if c[0] in ("died", "skipped"):
            continue
        if c[0] == "ub":
            chk.count("cpp_ub")
            chk.violation(f"undefined behaviour (UBSan) in integer::{op} on operands {xs[:4]}",
                          {"line": lines[i], "cpp": cpp[i], "documented": want}, tags=tags)
        elif want is not None and int(c[1]) != want:
            chk.violation(f"integer::{op}{tuple(xs[:4])} returned {c[1]}, documented value {want}",
                          {"line": lines[i], "cpp": cpp[i], "documented": want}, tags=tags)
        if want is not None and want != clamp(want):
            chk.count("oracle_unrepresentable")
        if op in ("add", "sub", "mul") and want in (MAX, MIN):
            chk.count("saturated")
        if lean is not None and i < len(lean):
            l = lean[i].split()
            if l[0] != c[0] or (l[0] == "ok" and l[1] != c[1]):
                ndis += 1
                if ndis <= 3:
                    # model and code disagree: is the code wrong (vs the documented value)?  already
                    # reported above if so; otherwise the generated model misrepresents the code.
                    if c[0] == "ok" and want is not None and int(c[1]) == want:
                        broken.append(f"generated term disagrees with compiled code on `{lines[i]}`: "
                                      f"model {lean[i]!r}, code {cpp[i]!r} (code matches the documented value)")
        if i % 9973 == 0:
            chk.sample({"line": lines[i], "cpp": cpp[i], "model": lean[i] if lean else None})
    chk.cov["model_vs_code_disagreements"] = ndis
    chk.cov["boundary_values"] = len(B)

    if broken and not [v for v in chk.violations if not v[2]]:
        for b in broken:
            chk.violation(b, {"broken": b, "searched": f"{len(lines)} operand tuples (boundary cross product "
                              f"+ random) with UBSan and the documented-value oracle: no failing input"},
                          no_input=True)
    elif broken:
        chk.notes += broken
    return chk.finish(
        level="proof",
        checker_cmd="lake build Vita.C14.Props && lake env lean <#print axioms for every theorem>",
        rule="operand tuples: cross product of %d boundary values for each binary primitive, conditionals on a "
             "9x9 grid, plus random tuples; distinct = distinct input lines; every one is checked against UBSan, "
             "the documented value (Python oracle) and the generated Lean term" % len(B),
        trusted=["Lean 4.33 kernel", "tools/translate_int.py + cxx2lean.py (clang-14 JSON AST -> E syntax)",
                 "Vita.Common.IntE semantics of E (C++17 [expr] rules for int/long)",
                 "g++ 12.2 UBSan for the differential run"])
