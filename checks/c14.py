"""C14 — integer primitives never overflow and saturate as documented.

translator (clang AST of int.h -> Vita/C14/Gen.lean) + Lean proofs over the generated
terms (Vita/C14/Props.lean) + differential run of the generated terms against the
compiled primitives under UBSan + an independent Python oracle of the documented values.

Round 3: the ephemeral constant `integer::number` (gene parameter, a double -> int), `number::init`,
`integer::cast` and the class / member tables of namespace vita::integer are translated too
(-> Vita/C14/GenNum.lean); the double -> int conversion is the checked conversion of an exact bit-level
model of binary64 (Vita/C14/Model.lean), proved total for EVERY double and run against the compiled
code under -fsanitize=float-cast-overflow.
"""
import math
import os
import struct
import sys

from vlib import common as C

sys.path.insert(0, os.path.join(C.ROOT, "tools"))
import translate_int  # noqa: E402
from cxx2lean import Refuse  # noqa: E402

MAX, MIN = 2147483647, -2147483648


def clamp(x):
    return MAX if x > MAX else MIN if x < MIN else x


def tdiv(a, b):
    q = abs(a) // abs(b)
    return q if (a >= 0) == (b >= 0) else -q


def spec(op, x):
    a, b = x[0], x[1]
    if op == "add":
        return clamp(a + b)
    if op == "sub":
        return clamp(a - b)
    if op == "mul":
        return clamp(a * b)
    if op == "div":
        return a if b == 0 or (a == MIN and b == -1) else tdiv(a, b)
    if op == "mod":
        return b if b == 0 or (a == MIN and b == -1) else a - b * tdiv(a, b)
    if op == "shl":
        return (a << b) if (a >= 0 and 0 <= b < 32 and (a << b) <= MAX) else a
    if op == "ife":
        return x[2] if a == b else x[3]
    if op == "ifl":
        return x[2] if a < b else x[3]
    if op == "ifz":
        return x[1] if a == 0 else x[2]
    return None


def dbits(x):
    return struct.unpack("<Q", struct.pack("<d", x))[0]


def dfrom(b):
    return struct.unpack("<d", struct.pack("<Q", b))[0]


def sat(x):
    """documented value of integer::number::eval on the parameter x: saturated truncation, NaN -> 0"""
    if math.isnan(x):
        return 0
    if math.isinf(x):
        return MAX if x > 0 else MIN
    return clamp(int(x))


def nxt(x, k):
    for _ in range(abs(k)):
        x = math.nextafter(x, math.inf if k > 0 else -math.inf)
    return x


def dbl_boundary():
    """doubles around everything that matters for double -> int: the int bounds (each side, next / previous
    representable), halves, zeros, denormals, the largest magnitudes, infinities, NaNs with several payloads"""
    v = []
    for c in (2147483647.0, 2147483648.0, -2147483648.0, -2147483649.0, 2147483646.0, -2147483647.0,
              4294967296.0, -4294967296.0, 2.0 ** 53, -(2.0 ** 53), 2.0 ** 63, -(2.0 ** 63), 2.0 ** 64,
              0.0, 1.0, -1.0, 0.5, -0.5, 127.0, -128.0, 1e10, -1e10, 3e9, -3e9, 1e300, -1e300):
        for k in (-2, -1, 0, 1, 2):
            v.append(nxt(c, k))
        v += [c + 0.5, c - 0.5, c + 0.25]
    v += [-0.0, 5e-324, -5e-324, sys.float_info.min, -sys.float_info.min, sys.float_info.max, -sys.float_info.max,
          math.inf, -math.inf, 0.99999999999999989, -0.99999999999999989, 1.5, -1.5, 2.5, 65535.75, -65536.25]
    out = [dbits(x) for x in v]
    out += [0x7FF8000000000000, 0xFFF8000000000000, 0x7FF0000000000001, 0x7FFFFFFFFFFFFFFF, 0xFFF0000000000001,
            0x7FF4000000000000]
    seen, res = set(), []
    for b in out:
        if b not in seen:
            seen.add(b)
            res.append(b)
    return res


def py_b64(op, a, y):
    """the exact double operation computed by Python (independent of the Lean model)"""
    x = dfrom(a)
    if op == "ofint":
        return "%016x" % dbits(float(int(y)))
    if op == "isnan":
        return "1" if math.isnan(x) else "0"
    if op == "isfinite":
        return "1" if math.isfinite(x) else "0"
    if op == "trunc":
        if not math.isfinite(x):
            return "none"
        n = int(x)
        return str(n) if abs(n) < 2 ** 63 else "big"
    z = dfrom(int(y, 16))
    return {"lt": x < z, "le": x <= z, "eq": x == z}[op] and "1" or "0"


def boundary():
    vals = set()
    for d in range(-3, 4):
        vals.add(d)
        vals.add(clamp(MAX + d))
        vals.add(clamp(MIN + d))
    for k in range(1, 32):
        for d in (-1, 0, 1):
            vals.add(clamp((1 << k) + d))
            vals.add(clamp(-(1 << k) + d))
    vals |= {31, 32, 33, 63, 64, 65, 46340, 46341, -46340, -46341, 65535, 65536, -65536}
    return sorted(vals)


def run(chk, replay=None):
    rng = C.SplitMix(chk.seed)
    gen = os.path.join(C.LEAN, "Vita", "C14", "Gen.lean")
    broken = []          # proof / correspondence problems (reported only if no concrete input is found)
    names = None
    try:
        names, changed = translate_int.emit(gen)
        chk.cov["translated"] = names
        chk.cov["gen_changed_vs_committed"] = bool(changed)
    except Refuse as e:
        broken.append("translator tools/translate_int.py refuses the current int.h: %s" % e)

    num = None
    try:
        num, changed2 = translate_int.emit_num(os.path.join(C.LEAN, "Vita", "C14", "GenNum.lean"))
        chk.cov["classes"] = [c[0] for c in num["classes"]]
        chk.cov["gen_num_changed_vs_committed"] = bool(changed2)
    except Refuse as e:
        broken.append("translator tools/translate_int.py refuses integer::number / integer::cast / the class "
                      "table of the current int.h: %s" % e)

    drv_ok = False
    if names is not None and num is not None:
        ok, out = C.lake_build(["c14_driver"])
        drv_ok = ok
        if not ok:
            broken.append("driver does not build from the generated terms: " + C.lean_errors(out))
        ok, msg = chk.prove("Vita.C14.Props", ["Vita.C14.Props"])
        if not ok:
            broken.append("theorems of Vita.C14.Props no longer check: " + msg)

    # g++ does not include float-cast-overflow in -fsanitize=undefined
    exe = C.build_harness("c14_int", "asan", extra_flags=["-fsanitize-recover=undefined",
                                                          "-fsanitize=float-cast-overflow",
                                                          "-fsanitize-recover=float-cast-overflow"])

    # ---- inputs --------------------------------------------------------
    ops2 = ["add", "sub", "mul", "div", "mod", "shl"]
    ops4 = ["ife", "ifl", "ifz"]
    extra = [n for n in (names or []) if n not in ops2 + ops4]
    B = boundary()
    lines = ["names"]
    NEWK = ("number", "init", "cast", "b64", "loadrun")
    rline = None
    if replay:
        r = __import__("json").load(open(replay))
        rline = r["replay"].get("line")
        if rline and rline.split()[0] not in NEWK:
            lines.append(rline)
    if replay:
        pass
    else:
        for op in ops2 + extra:
            for a in B:
                for b in B:
                    lines.append(f"{op} {a} {b}")
        small = [MIN, MIN + 1, -2, -1, 0, 1, 2, MAX - 1, MAX]
        for op in ops4:
            for a in small:
                for b in small:
                    lines.append(f"{op} {a} {b} {rng.between(MIN, MAX + 1)} {rng.between(MIN, MAX + 1)}")
        nrand = 200000 if chk.tier == "quick" else 3000000
        allops = ops2 + ops4 + extra
        for _ in range(nrand):
            op = allops[rng.below(len(allops))]
            m = rng.below(4)
            def draw():
                k = rng.below(5)
                if k == 0:
                    return B[rng.below(len(B))]
                if k == 1:
                    return rng.between(-40, 41)
                return rng.between(MIN, MAX + 1)
            lines.append(f"{op} {draw()} {draw()} {draw()} {draw()}")

    cpp, deaths = C.run_lines(exe, lines, env={"UBSAN_OPTIONS": "print_stacktrace=0:halt_on_error=0"})
    for idx, rc, se in deaths:
        chk.violation("harness died (rc=%d) while evaluating: %s\n%s" % (rc, lines[idx], se[-1500:]),
                      {"line": lines[idx]}, tags={"line": lines[idx]})
    lean = C.run_driver("c14_driver", lines) if drv_ok else None

    if lean is not None and lean[0].split() != sorted(cpp[0].split()) and sorted(lean[0].split()) != sorted(cpp[0].split()):
        broken.append("primitive sets differ: int.h (AST) has %s, the harness drives %s" % (lean[0], cpp[0]))

    ndis = 0
    for i in range(1, min(len(lines), len(cpp))):
        t = lines[i].split()
        op, xs = t[0], [int(v) for v in t[1:]] + [0, 0, 0, 0]
        c = cpp[i].split()
        chk.seen(lines[i])
        chk.count("op:" + op)
        want = spec(op, xs)
        tags = {"op": op, "v0": xs[0], "v1": xs[1]}
        if c[0] in ("died", "skipped"):
            continue
        if c[0] == "ub":
            chk.count("cpp_ub")
            chk.violation(f"undefined behaviour (UBSan) in integer::{op} on operands {xs[:4]}",
                          {"line": lines[i], "cpp": cpp[i], "documented": want}, tags=tags)
        elif want is not None and int(c[1]) != want:
            chk.violation(f"integer::{op}{tuple(xs[:4])} returned {c[1]}, documented value {want}",
                          {"line": lines[i], "cpp": cpp[i], "documented": want}, tags=tags)
        if want is not None and want != clamp(want):
            chk.count("oracle_unrepresentable")
        if op in ("add", "sub", "mul") and want in (MAX, MIN):
            chk.count("saturated")
        if lean is not None and i < len(lean):
            l = lean[i].split()
            if l[0] != c[0] or (l[0] == "ok" and l[1] != c[1]):
                ndis += 1
                if ndis <= 3:
                    # model and code disagree: is the code wrong (vs the documented value)?  already
                    # reported above if so; otherwise the generated model misrepresents the code.
                    if c[0] == "ok" and want is not None and int(c[1]) == want:
                        broken.append(f"generated term disagrees with compiled code on `{lines[i]}`: "
                                      f"model {lean[i]!r}, code {cpp[i]!r} (code matches the documented value)")
        if i % 9973 == 0:
            chk.sample({"line": lines[i], "cpp": cpp[i], "model": lean[i] if lean else None})
    chk.cov["model_vs_code_disagreements"] = ndis
    chk.cov["boundary_values"] = len(B)

    # ---- integer::number (double parameter -> int), init, cast, the exact double operations ----------
    DB = dbl_boundary()
    nl = []
    if rline and rline.split()[0] in NEWK:
        nl.append(rline)
    elif not replay:
        quick = chk.tier == "quick"
        cdir = os.path.join(C.ROOT, "corpus", "C14")
        if os.path.isdir(cdir):
            for f in sorted(os.listdir(cdir)):
                nl += [l.strip() for l in open(os.path.join(cdir, f))
                       if l.strip() and not l.startswith("#") and l.split()[0] in NEWK]
        for b in DB:
            nl.append("number %016x" % b)
        for _ in range(40000 if quick else 600000):
            k = rng.below(6)
            if k == 0:
                b = rng.next()                                             # any bit pattern (NaNs, infinities, …)
            elif k == 1:
                b = dbits(float(rng.between(MIN - 5, MAX + 6)))            # an int (or just outside) as a double
            elif k == 2:
                b = dbits((rng.between(MIN - 5, MAX + 6)) + rng.below(1 << 20) / float(1 << 20))   # with a fraction
            elif k == 3:
                b = dbits(nxt(float(rng.choice([MAX, MAX + 1, MIN, MIN - 1, 0, 1, -1])), rng.between(-40, 41)))
            elif k == 4:
                b = DB[rng.below(len(DB))]
            else:
                e = rng.between(1023 - 40, 1023 + 70)                      # magnitudes 2^-40 … 2^70, random mantissa
                b = (rng.below(2) << 63) | (e << 52) | (rng.next() & ((1 << 52) - 1))
            nl.append("number %016x" % b)
        pairs = [(-128, 127), (MIN, MAX), (MIN, MIN + 1), (MAX - 1, MAX), (0, 1), (-1, 0), (-1, 1), (MIN, 0), (0, MAX),
                 (MAX - 2, MAX), (MIN, MIN + 3)]
        for _ in range(60 if quick else 2000):
            a, b = rng.between(MIN, MAX + 1), rng.between(MIN, MAX + 1)
            if a != b:
                pairs.append((min(a, b), max(a, b)))
        for (a, b) in pairs:
            for _ in range(4 if quick else 12):
                nl.append(f"init {a} {b} {rng.below(1 << 31)}")
        for v in ("I0", "I1", "I-1", f"I{MAX}", f"I{MIN}", "I12345", "V", "D3ff0000000000000", "D7ff8000000000000",
                  "S-", "S3132", "D41dfffffffc00000"):
            nl.append("cast " + v)
        for a in DB:
            for op in ("isnan", "isfinite", "trunc"):
                nl.append("b64 %s %016x 0" % (op, a))
            for b in (DB if not quick else DB[::3]):
                for op in ("lt", "le", "eq"):
                    nl.append("b64 %s %016x %016x" % (op, a, b))
        for n in B + [2 ** 53 - 1, -(2 ** 53 - 1), 2 ** 52, 2 ** 52 + 1, 2 ** 40 + 12345, -(2 ** 33) - 7]:
            nl.append("b64 ofint 0 %d" % n)
        for _ in range(20000 if quick else 300000):
            op = ("lt", "le", "eq", "trunc", "isnan", "ofint")[rng.below(6)]
            if op == "ofint":
                nl.append("b64 ofint 0 %d" % rng.between(-(2 ** 53) + 1, 2 ** 53))
            else:
                a = rng.next()
                b = rng.next() if rng.below(3) else (a ^ (1 << rng.below(64)))
                nl.append("b64 %s %016x %016x" % (op, a, b))
        for txt in ("5", "-7", "0", "2147483647", "2147483648", "-2147483648", "-2147483649", "1e10", "-3e9", "1e300",
                    "-1e300", "0.5", "-0.99", "2147483647.5", "-2147483648.5", "4294967296", "1e19", "nan", "inf",
                    "1e999", "2.5e9", "1073741824", "-1073741825"):
            nl.append("loadrun " + txt)

    ncpp, ndeaths = C.run_lines(exe, nl, env={"UBSAN_OPTIONS": "print_stacktrace=0:halt_on_error=0"}) if nl else ([], [])
    for idx, rc, se in ndeaths:
        chk.violation("harness died (rc=%d) while evaluating: %s\n%s" % (rc, nl[idx], se[-1500:]),
                      {"line": nl[idx]}, tags={"line": nl[idx]})
    # the model answers the same lines; `init m u seed` becomes `init m u r` with r the integer the code drew
    ml = []
    for q, a in zip(nl, ncpp):
        t = q.split()
        if t[0] == "init":
            try:
                x = dfrom(int(a.split()[0], 16))
                ml.append(f"init {t[1]} {t[2]} {int(x) if math.isfinite(x) else 0}")
            except (ValueError, IndexError):
                ml.append("init 0 1 0")
        elif t[0] == "loadrun":
            ml.append("skip")
        else:
            ml.append(q)
    nlean = C.run_driver("c14_driver", ml) if (drv_ok and ml) else None
    nd2 = 0
    for i, (q, a) in enumerate(zip(nl, ncpp)):
        t, c = q.split(), a.split()
        if not c or c[0] in ("died", "skipped"):
            continue
        chk.seen(q)
        chk.count("kind:" + t[0] + (":" + t[1] if t[0] == "b64" else ""))
        m = nlean[i] if nlean is not None and i < len(nlean) else None
        rep = {"line": q, "cpp": a, "model": m}
        if t[0] == "number":
            b = int(t[1], 16)
            x = dfrom(b)
            want = sat(x)
            cls = "nan" if math.isnan(x) else "inf" if math.isinf(x) else \
                "above" if x >= 2147483648.0 else "below" if x <= -2147483649.0 else "inrange"
            chk.count("number:" + cls)
            tags = {"op": "number", "par": t[1], "class": cls}
            if c[0] == "ub":
                chk.count("cpp_ub")
                chk.violation(f"undefined behaviour (UBSan float-cast-overflow) in integer::number::eval: the gene "
                              f"parameter {x!r} (bits {t[1]}) is converted to int although its truncation is not "
                              f"representable", dict(rep, documented=want), tags=tags)
            elif c[1] != f"I{want}":
                chk.violation(f"integer::number::eval on the parameter {x!r} (bits {t[1]}) returned {c[1]}, "
                              f"documented (saturated truncation) I{want}", dict(rep, documented=want), tags=tags)
            if m is not None and m.split() != c and not (m == "ub" and c[0] == "ub"):
                nd2 += 1
                if nd2 <= 3 and c[0] == "ok" and c[1] == f"I{want}":
                    broken.append(f"generated term disagrees with compiled code on `{q}`: model {m!r}, code {a!r}")
        elif t[0] == "init":
            lo, hi = int(t[1]), int(t[2])
            x = dfrom(int(c[0], 16))
            tags = {"op": "init", "min": lo, "upp": hi}
            if not (math.isfinite(x) and x == int(x) and lo <= int(x) < hi):
                chk.violation(f"integer::number({lo},{hi}).init() returned {x!r}: not an integer of [{lo},{hi})",
                              rep, tags=tags)
            if "ub" in c[1:]:
                chk.count("cpp_ub")
                chk.violation(f"undefined behaviour (UBSan) in integer::number({lo},{hi}).init()", rep, tags=tags)
            if c[1:2] != ["1"]:
                chk.violation("integer::number::parametric() is false", rep, tags=tags)
            if m is not None and m.split() != c[:2]:
                nd2 += 1
                if nd2 <= 3:
                    broken.append(f"generated `numberInit` disagrees with compiled code on `{q}`: model {m!r}, code {a!r}")
            if int(x) in (lo, hi - 1):
                chk.count("init_at_interval_end")
        elif t[0] == "cast":
            want = "ok " + t[1][1:] if t[1][0] == "I" else "T"
            if a != want:
                chk.violation(f"integer::cast({t[1]}) answered `{a}`, expected `{want}`", rep, tags={"op": "cast", "v": t[1]})
            if m is not None and m != a:
                nd2 += 1
                broken.append(f"generated `cast` disagrees with compiled code on `{q}`: model {m!r}, code {a!r}")
        elif t[0] == "b64":
            want = py_b64(t[1], int(t[2], 16), t[3])
            if a != want:
                broken.append(f"harness and Python disagree on the exact double operation `{q}`: {a!r} vs {want!r}")
            if m is not None and m != want:
                nd2 += 1
                if nd2 <= 3:
                    broken.append(f"the exact binary64 model (Vita/C14/Model.lean) is wrong on `{q}`: model {m!r}, "
                                  f"hardware {a!r}")
        elif t[0] == "loadrun":
            kv = dict(x.split("=") for x in c if "=" in x)
            chk.count("loadrun:load=" + kv.get("load", "?"))
            tags = {"op": "loadrun", "par": t[1]}
            if kv.get("load") == "1" and kv.get("valid") == "1":
                try:
                    x = float(t[1])
                except ValueError:
                    x = math.nan
                want = clamp(sat(x) + sat(x))
                if "ub" in c:
                    chk.count("cpp_ub")
                    chk.violation(f"undefined behaviour (UBSan) when vita::run evaluates an individual that i_mep::load "
                                  f"accepted (is_valid() true): INT terminal with parameter {t[1]}",
                                  dict(rep, documented=want), tags=tags)
                elif c[-1] != f"I{want}":
                    chk.violation(f"vita::run of a loaded ADD(INT {t[1]}, INT {t[1]}) returned {c[-1]}, documented I{want}",
                                  dict(rep, documented=want), tags=tags)
        if i % 7919 == 0:
            chk.sample(rep)
    chk.cov["number_model_vs_code_disagreements"] = nd2
    chk.cov["double_boundary_values"] = len(DB)

    if broken and not [v for v in chk.violations if not v[2]]:
        for b in broken:
            chk.violation(b, {"broken": b, "searched": f"{len(lines)} operand tuples (boundary cross product "
                              f"+ random) and {len(nl)} parameter / conversion lines with UBSan (incl. float-cast-overflow) and "
                              f"the documented-value oracle: no failing input"},
                          no_input=True)
    elif broken:
        chk.notes += broken
    return chk.finish(
        level="proof",
        checker_cmd="lake build Vita.C14.Props && lake env lean <#print axioms for every theorem>",
        rule="operand tuples: cross product of %d boundary values for each binary primitive, conditionals on a "
             "9x9 grid, plus random tuples; gene parameters of integer::number: %d boundary doubles (int bounds +- ulps, "
             "halves, zeros, denormals, extremes, infinities, NaN payloads) + random bit patterns / ints / fractions; "
             "init() on boundary and random [min,upp); integer::cast on every alternative; the exact double operations "
             "of the model on the boundary cross product + random patterns; programs read by i_mep::load; distinct = "
             "distinct input lines; every one is checked against UBSan (+float-cast-overflow), the documented value "
             "(Python oracle) and the generated Lean term" % (len(B), len(DB)),
        trusted=["Lean 4.33 kernel", "tools/translate_int.py + cxx2lean.py (clang-14 JSON AST -> E syntax)",
                 "Vita.Common.IntE semantics of E (C++17 [expr] rules for int/long)",
                 "Vita/C14/Model.lean: exact bit-level model of binary64 comparisons / int<->double conversions "
                 "(C++17 [conv.fpint]); run against the hardware on every check (`b64` lines)",
                 "g++ 12.2 UBSan for the differential run"])
