"""C15 — the fitness cache can be shared by threads.

Lean: Vita/C15/{Model,Lemmas,Exec,Props}.lean — the lock protocol of vita::cache as a transition
system (std::shared_mutex by its specification, any number of threads, L-word values);
`lookup_returns_stored` for every interleaving; witnesses for the reference-returning find.
Tie (a): deterministic schedule replay — harness/c15_sched.cc runs real threads in lock-step at the
guarded hook points inside cache::find/insert/clear and prints the trace; the Lean driver checks
every observed transition and every lookup result against the model.
Tie (b): harness/c15_stress.cc under ThreadSanitizer and under ASan/UBSan (free-running threads,
values that encode their key).  Data-race freedom of the compiled C++ is carried by (a)+(b): partial.
"""
import glob
import hashlib
import json
import os
import re

from vlib import common as C


def sanitizer_summary(se):
    m = re.search(r"(WARNING: ThreadSanitizer: [^\n]*|ERROR: AddressSanitizer: [^\n]*|runtime error: [^\n]*)", se)
    head = m.group(1) if m else "sanitizer/crash"
    fr = re.findall(r"#\d+ (?:0x[0-9a-f]+ in )?(vita::[\w:~<>]+)", se)
    seen = []
    for f in fr:
        if f not in seen:
            seen.append(f)
    return head, seen[:6]


def run(chk, replay=None):
    broken = []
    ok, msg = chk.prove("Vita.C15.Props", ["Vita.C15.Props", "c15_driver"])
    if not ok:
        broken.append("theorems of Vita.C15.Props no longer check: " + msg)
        ok2, _ = C.lake_build(["c15_driver"])
    drv_ok = ok or ok2

    quick = chk.tier == "quick"
    sched_args = [chk.seed, 70 if quick else 700, 110 if quick else 1200]
    if replay:
        r = json.load(open(replay))["replay"]
        if "sched_args" in r:
            sched_args = r["sched_args"]

    # ---- corpus: recorded traces the model must accept (the reference-variant witness included) ----
    if drv_ok:
        for f in sorted(glob.glob(os.path.join(C.ROOT, "corpus", "C15", "*.trace"))):
            ls = [l.rstrip("\n") for l in open(f) if l.strip() and not l.startswith("#")]
            ans = C.run_driver("c15_driver", ls)
            chk.count("corpus-traces")
            if any(x != "ok" for x in ans):
                j = next(i for i, x in enumerate(ans) if x != "ok")
                broken.append("the model no longer accepts the recorded trace %s at `%s`: %s" %
                              (os.path.basename(f), ls[j], ans[j]))

    # ---- (a) schedule replay ---------------------------------------------
    exe = C.build_harness("c15_sched", "asan")
    rc, so, se = C.run_harness(exe, sched_args, timeout=3000)
    trace = so.splitlines()
    if rc != 0:
        head, frames = sanitizer_summary(se)
        last = [l for l in trace if l.startswith("init")]
        chk.violation("schedule-replay harness died (rc=%d): %s in %s\n%s" % (rc, head, frames, se[-1500:]),
                      {"sched_args": sched_args, "trace_tail": trace[-40:], "stderr": se[-3000:]},
                      tags={"kind": "replay-crash", "where": " ".join(frames)})
    model_lines, idx = [], []
    for i, l in enumerate(trace):
        if l.startswith("single") or l.startswith("stuck"):
            continue
        model_lines.append(l.split(" | ")[0])
        idx.append(i)
    lean = C.run_driver("c15_driver", model_lines) if (drv_ok and model_lines) else None

    # split into schedules
    starts = [i for i, l in enumerate(trace) if l.startswith("init")] + [len(trace)]
    lean_at = {}
    if lean is not None:
        for j, i in enumerate(idx):
            if j < len(lean):
                lean_at[i] = lean[j]
    nrej = 0
    for si in range(len(starts) - 1):
        a, b = starts[si], starts[si + 1]
        sch = trace[a:b]
        h = hashlib.blake2b(digest_size=8)
        nontrivial = False
        for off, l in enumerate(sch):
            i = a + off
            h.update(l.encode())
            t = l.split()
            chk.count("step:" + t[0])
            if "= blocked" in l:
                chk.count("probe:blocked"); nontrivial = True
            if " woke " in l:
                chk.count("wake")
            if t[0] == "rcopy":
                chk.count("lookup:" + ("none" if "r none" in l else "hit"))
                chk.seen(h.hexdigest())
                nontrivial = nontrivial or "r none" not in l
            if t[0] == "init":
                chk.count("L:%s" % t[1]); chk.count("threads:%s" % t[2])
            bad = " BAD " in l
            rej = lean_at.get(i, "").startswith("REJECT")
            if bad or rej:
                why = l.split(" BAD ")[1] if bad else lean_at[i][7:]
                kind = why.split()[0]
                if rej and not bad:
                    nrej += 1
                what = ("on the real cache, schedule %d (seed %s), step `%s`: %s" % (si, sched_args[0], l, why))
                if rej:
                    what += " [model: %s]" % lean_at[i]
                if chk.violation(what, {"sched_args": sched_args, "schedule": sch[:off + 1],
                                        "model": [lean_at.get(a + o, "") for o in range(off + 1)]},
                                 tags={"kind": kind, "step": t[0]}):
                    pass
                break
        if si % 17 == 0:
            chk.sample({"schedule": sch[:40]})
    for l in trace:
        if l.startswith("single"):
            chk.count("single-thread-witness")
            if " BAD " in l:
                chk.violation("on the real cache: `const auto &r = c.find(k1); c.insert(k2, v2);` and r now reads %s "
                              "(find hands out a reference that outlives the lock)" % l.split(" = ")[1],
                              {"sched_args": sched_args, "line": l}, tags={"kind": "reference-outlives-lock", "step": "single"})
    chk.cov["schedules"] = len(starts) - 1
    chk.cov["model_rejections_without_oracle_alarm"] = nrej
    if lean is not None and any(x == "bad-op" for x in lean):
        broken.append("the model driver does not understand a line of the trace: " +
                      next(model_lines[j] for j, x in enumerate(lean) if x == "bad-op"))

    # ---- (b) stress under TSan and ASan -----------------------------------
    if not replay:
        runs = [("tsan", [chk.seed, 2500 if quick else 150000, 3, 2, 1]),
                ("tsan", [chk.seed + 100, 1500 if quick else 90000, 2, 4, 2]),
                ("asan", [chk.seed, 2500 if quick else 120000, 4, 3, 1])]
        for cfg, args in runs:
            sx = C.build_harness("c15_stress", cfg)
            rc, so, se = C.run_harness(sx, args, timeout=3000)
            m = re.search(r"stress finds=(\d+) hits=(\d+) inserts=(\d+) clears=(\d+) clearkeys=(\d+) bad=(\d+)(.*)", so)
            if m:
                for k, v in zip(("finds", "hits", "inserts", "clears", "clearkeys"), m.groups()):
                    chk.count("stress-%s:%s" % (cfg, k), int(v))
            chk.count("stress-runs:" + cfg)
            if rc != 0:
                if m and int(m.group(6)) > 0:
                    chk.violation("stress (%s, args %s): a lookup returned an illegal value: %s" % (cfg, args, m.group(7)),
                                  {"stress": cfg, "args": args, "out": so.strip()},
                                  tags={"kind": m.group(7).split("=")[1].split()[0] if "=" in m.group(7) else "oracle",
                                        "step": "stress"})
                else:
                    head, frames = sanitizer_summary(se)
                    chk.violation("stress (%s, args %s): %s; frames: %s\n%s" % (cfg, args, head, frames, se[:2500]),
                                  {"stress": cfg, "args": args, "stderr": se[:6000]},
                                  tags={"kind": "sanitizer", "where": " ".join(frames), "step": "stress"})

    if broken and not [v for v in chk.violations if not v[2]]:
        for b in broken:
            chk.violation(b, {"broken": b, "searched": "%d schedules replayed on real threads + TSan/ASan stress: no lookup "
                              "returned an illegal value, no sanitizer report" % (len(starts) - 1)}, no_input=True)
    elif broken:
        chk.notes += broken
    chk.assumptions += ["std::shared_mutex is a correct readers-writer lock (modelled by its specification)",
                        "data-race freedom of the compiled code is not proved: it is sampled by schedule replay at hook "
                        "granularity and by ThreadSanitizer on free-running threads (partial)"]
    return chk.finish(
        level="proof",
        checker_cmd="lake build Vita.C15.Props c15_driver && lake env lean <#print axioms for every theorem>",
        rule="one evaluation = one lookup completed inside a replayed schedule (real threads in lock-step at the hook "
             "points of cache::find/insert/clear; 2..5 threads, 1..3 keys sharing a slot, values of 1/2/3/5 words); "
             "distinct = distinct trace prefixes; each is judged by the harness oracle (complete value stored under that "
             "key) and every observed transition is checked against the Lean model; stress operation counts are listed "
             "in input_distribution and not counted as evaluations",
        trusted=["Lean 4.33 kernel", "hand-written protocol model Vita/C15/Model.lean (validated by schedule replay)",
                 "std::shared_mutex specification", "harness/c15_sched.cc, harness/c15_stress.cc",
                 "g++ 12 ThreadSanitizer / ASan / UBSan"])
