"""C15 — the fitness cache can be shared by threads.

Lean: Vita/C15/{Model,Lemmas,Inv,Exec,Locks,Gen,Props}.lean — vita::cache under threads as a transition
system (multi-slot table, seal with wrap-around, L-word values copied word by word, find / insert /
clear / clear(key) / save / load / evaluator_proxy::operator(), any number of threads, std::shared_mutex
by its specification, the lock DISCIPLINE a parameter); mutual exclusion, `lookup_returns_stored`,
`proxy_returns_stored`, `save_returns_stored`, linearizability w.r.t. the sequential cache for every
interleaving and every `ok` discipline; witnesses for the broken disciplines.
Tie (0): tools/translate_cache_locks.py extracts the discipline from the clang AST of cache.cc into
Gen.lean; obligation `by decide`: every write under the exclusive lock, every read under at least the
shared lock, nothing escapes.
Tie (a): harness/c15_sched.cc — real threads in lock-step at the guarded hook points and at points
inside the streams handed to load/save: systematic enumeration (bounded preemptions) of small
configurations + random schedules with blocking probes; the Lean driver checks every observed transition
and every lookup / proxy / save result against the model.
Tie (b): harness/c15_stress.cc under ThreadSanitizer and ASan/UBSan (free-running threads, six shapes).
Data-race freedom of the compiled C++ is carried by (0)+(a)+(b): partial.
"""
import glob
import subprocess
import hashlib
import json
import os
import re
import sys

from vlib import common as C

sys.path.insert(0, os.path.join(C.ROOT, "tools"))
import translate_cache_locks as T  # noqa: E402
from cxx2lean import Refuse  # noqa: E402

GEN = os.path.join(C.LEAN, "Vita", "C15", "Gen.lean")
OPS = ["find", "insert", "clear", "clearKey", "save", "load"]
CPP = {"find": "find", "insert": "insert", "clear": "clear()", "clearKey": "clear(key)", "save": "save", "load": "load"}


def sanitizer_summary(se):
    m = re.search(r"(WARNING: ThreadSanitizer: [^\n]*|ERROR: AddressSanitizer: [^\n]*|runtime error: [^\n]*)", se)
    head = m.group(1) if m else "sanitizer/crash"
    fr = re.findall(r"#\d+ (?:0x[0-9a-f]+ in )?(vita::[\w:~<>]+)", se)
    seen = []
    for f in fr:
        if f not in seen:
            seen.append(f)
    return head, seen[:6]


def eff(e, mutex_shared):
    """the lock that protects all the accesses of a function: N / S / X, U = a lock that is not the
    table's mutex (mirror of FnInfo.eff in Locks.lean, with U for `otherExpr`)"""
    if e is None or e["guard"] is None:
        return "N"
    cls, frm = e["guard"]
    if not frm:
        return "U"
    if not all(i or x for (_, _, i, x) in e["accesses"]):
        return "U"        # some accesses are unprotected, but the function does queue on the lock somewhere
    return "S" if (cls == "sharedLock" and mutex_shared) else "X"


def discipline(tr):
    """(7-character code for the harness, list of human-readable defects of the discipline)"""
    by = {e["fn"]: e for e in tr["fns"]}
    code, why = "", []
    for op in OPS:
        e = by.get(op)
        k = eff(e, tr["mutex_shared"])
        code += k
        if op == "find":
            code += "1" if (e is not None and e["escapes"]) else "0"
        if e is None:
            why.append("cache::%s is not there any more" % CPP[op])
            continue
        rel = [(f, w, i) for (f, w, i, x) in e["accesses"] if not x]
        writes = any(w for _, w, _ in rel)
        outside = sorted({f for f, _, i in rel if not i})
        if e["guard"] is None and rel:
            why.append("cache::%s takes no lock" % CPP[op])
        elif e["guard"] is not None and not e["guard"][1]:
            why.append("cache::%s locks something that is not `mutex_`" % CPP[op])
        elif outside:
            why.append("cache::%s touches %s outside the scope of its lock" % (CPP[op], ", ".join(outside)))
        elif writes and k != "X":
            why.append("cache::%s writes %s under a shared lock" %
                       (CPP[op], ", ".join(sorted({f for f, w, _ in rel if w}))))
        if e["escapes"]:
            why.append("cache::%s returns a reference / pointer into the table" % CPP[op])
    for e in tr["fns"]:
        if e["fn"] == "other" and any(not x for (_, _, _, x) in e["accesses"]):
            why.append("cache::%s touches the table but is not an operation of the model" % e["name"])
    return code, why


def run(chk, replay=None):
    broken = []
    quick = chk.tier == "quick"

    # ---- (0) the lock discipline of the current cache.cc --------------------------------------------
    disc, seal_atomic, tr = "U0UUUUU", False, None
    try:
        tr = T.emit(GEN)
        disc, why = discipline(tr)
        seal_atomic = bool(tr["fields"].get("seal_", {}).get("atomic"))
        chk.cov["lock_discipline"] = {"code": disc, "mutex": tr["mutex_type"],
                                      "functions": {e["name"] + "/" + str(e["nparams"]): {
                                          "guard": e["guard"], "escapes": e["escapes"],
                                          "accesses": ["%s:%s%s" % (f, "w" if w else "r", "" if i else ":outside")
                                                       for (f, w, i, x) in e["accesses"]]} for e in tr["fns"]}}
        chk.count("translated-functions", len(tr["fns"]))
        chk.count("translated-accesses", sum(len(e["accesses"]) for e in tr["fns"]))
        if why:
            broken.append("the lock discipline extracted from cache.cc breaks the obligation `every write under the "
                          "exclusive lock, every read under at least the shared lock, nothing escapes` "
                          "(Vita.C15.Gen.all_disciplined / disc_ok): " + "; ".join(why))
    except Refuse as e:
        broken.append("tools/translate_cache_locks.py refuses the current cache.cc: %s" % e)
        C.sh(["git", "checkout", "--", GEN], cwd=C.ROOT)
    weak = bool(broken)

    ok, msg = chk.prove("Vita.C15.Props", ["Vita.C15.Props", "c15_driver"])
    if not ok:
        if not weak or "Gen.lean" not in msg:
            broken.append("theorems of Vita.C15.Props no longer check: " + msg)
        ok2, _ = C.lake_build(["c15_driver"])
    drv_ok = ok or ok2

    # cap per configuration, random configurations, random schedules, probes, preemption bound
    sched_args = [chk.seed] + ([150, 6, 24, 60] if quick else [1000, 16, 250, 600]) + [disc, int(seal_atomic), 2 if quick else 3]
    if replay:
        r = json.load(open(replay))["replay"]
        if "sched_args" in r:
            sched_args = r["sched_args"]

    # ---- corpus: recorded traces the model must accept (the reference-variant witness included) ----
    if drv_ok:
        for f in sorted(glob.glob(os.path.join(C.ROOT, "corpus", "C15", "*.trace"))):
            ls = [l.rstrip("\n").split(" | ")[0] for l in open(f) if l.strip() and not l.startswith("#")]
            ans = C.run_driver("c15_driver", ls)
            chk.count("corpus-traces")
            if any(x != "ok" for x in ans):
                j = next(i for i, x in enumerate(ans) if x != "ok")
                broken.append("the model no longer accepts the recorded trace %s at `%s`: %s" %
                              (os.path.basename(f), ls[j], ans[j]))

    # ---- (a) schedules on the real code ---------------------------------------------------------------
    exe = C.build_harness("c15_sched", "asan")
    hung = False
    try:
        rc, so, se = C.run_harness(exe, sched_args, timeout=(900 if chk.tier == "quick" else 3600))
    except subprocess.TimeoutExpired as te:     # a blocked schedule must never block the check
        hung = True
        dec = lambda b: (b or b"").decode("utf-8", "replace") if isinstance(b, (bytes, type(None))) else b
        rc, so, se = 0, dec(te.stdout), dec(te.stderr)
    trace = so.splitlines()
    if hung:
        starts0 = [i for i, l in enumerate(trace) if l.startswith("init")]
        last = trace[starts0[-1]:] if starts0 else trace[-40:]
        chk.violation("the schedule harness did not terminate on this tree (a thread never reached the scheduling "
                      "point the extracted lock discipline announces, or the code blocks): the correspondence with "
                      "the protocol model can no longer be checked; last schedule:\n" + "\n".join(last[-40:]),
                      {"sched_args": sched_args, "schedule": last[-80:], "stderr": se[-2000:]}, no_input=True)
    if rc != 0:
        head, frames = sanitizer_summary(se)
        starts0 = [i for i, l in enumerate(trace) if l.startswith("init")]
        last = trace[starts0[-1]:] if starts0 else trace[-40:]
        chk.violation("schedule harness died (rc=%d): %s in %s\nthe schedule it was running:\n%s\n%s" %
                      (rc, head, frames, "\n".join(last[-60:]), se[-1500:]),
                      {"sched_args": sched_args, "schedule": last[-80:], "stderr": se[-3000:]},
                      tags={"kind": "replay-crash", "where": " ".join(frames), "step": "crash"})
    model_lines, idx = [], []
    for i, l in enumerate(trace):
        if l.startswith("#") or l.startswith("single") or l.startswith("stuck") or not l.strip():
            continue
        model_lines.append(l.split(" | ")[0])
        idx.append(i)
    lean = C.run_driver("c15_driver", model_lines) if (drv_ok and model_lines) else None
    lean_at = {}
    if lean is not None:
        for j, i in enumerate(idx):
            if j < len(lean):
                lean_at[i] = lean[j]

    starts = [i for i, l in enumerate(trace) if l.startswith("init")] + [len(trace)]
    nrej = n_tie = 0
    found = []            # (priority, what, replay, tags): a returned value that is wrong comes first
    phase = "systematic"
    for si in range(len(starts) - 1):
        a, b = starts[si], starts[si + 1]
        sch = trace[a:b]
        head = trace[a - 1] if a > 0 and trace[a - 1].startswith("#") else ""
        if head.startswith("# random"):
            phase = "random"
        chk.count("schedules:" + phase)
        h = hashlib.blake2b(digest_size=8)
        for off, l in enumerate(sch):
            i = a + off
            if l.startswith("#"):
                if "discipline-mismatch" in l:
                    chk.count("discipline-mismatch")
                continue
            h.update(l.encode())
            t = l.split()
            chk.count("step:" + t[0])
            if "= blocked" in l:
                chk.count("probe:blocked")
            if " woke " in l:
                chk.count("wake")
            if " | ovl " in l:
                chk.count("overlap:" + l.split(" | ovl ")[1].split()[0])
            if t[0] in ("rcopy", "pret"):
                chk.count("lookup:" + ("none" if "r none" in l else "hit"))
                chk.seen(h.hexdigest())
            if t[0] == "sres":
                chk.count("saved-entries", max(0, len(l.split(" | ")[0].split()) - 4))
                chk.seen(h.hexdigest())
            if t[0] == "init":
                chk.count("L:%s" % t[1]); chk.count("threads:%s" % t[2])
            bad = " BAD " in l
            rej = lean_at.get(i, "").startswith("REJECT")
            if not (bad or rej):
                continue
            why = l.split(" BAD ")[1] if bad else lean_at[i][7:]
            kind = why.split()[0]
            what = "on the real cache, %s (seed %s), step `%s`: %s" % (head[2:] or "schedule %d" % si, sched_args[0], l, why)
            if rej:
                what += " [model: %s]" % lean_at[i]
            rep = {"sched_args": sched_args, "configuration": head, "schedule": sch[:off + 1],
                   "model": [lean_at.get(a + o, "") for o in range(off + 1)]}
            if rej and not bad:
                nrej += 1
            overlap_only = (not bad) and kind == "lock-acquired-although-the-specification-forbids-it"
            if kind == "blocked-although-the-extracted-discipline-lets-it-in" or (overlap_only and " | ovl 1" not in l):
                # the lock differs from what was extracted / from the model's single readers-writer lock, but the
                # critical sections that overlapped do not touch the same memory: not a failing input
                n_tie += 1
                if n_tie == 1:
                    broken.append("the real lock does not behave like the modelled one: " + what)
                if overlap_only:
                    continue          # the model is lost for this schedule; the harness oracle still judges the values
                break
            if overlap_only:
                # keep looking in this schedule: a wrong VALUE later on is the stronger evidence
                later = next((x for x in sch[off + 1:] if " BAD " in x), None)
                if later is not None:
                    continue
                found.append((2, what + "  — two threads are inside critical sections that touch the same slot / the "
                              "seal, at least one of them writing: a data race", rep,
                              {"kind": "conflicting-critical-sections-overlap", "step": t[0]}))
                break
            found.append((0 if bad else 1, what, rep, {"kind": kind, "step": t[0]}))
            break
        if si % 97 == 0:
            chk.sample({"configuration": head, "schedule": [x for x in sch if not x.startswith("#")][:40]})
    found.sort(key=lambda x: x[0])
    for _, what, rep, tags in found[:40]:
        chk.violation(what, rep, tags=tags)
    for l in trace:
        if l.startswith("single"):
            chk.count("single-thread-witness")
            if " BAD " in l:
                chk.violation("on the real cache: `const auto &r = c.find(k1); c.insert(k2, v2);` and r now reads %s "
                              "(find hands out a reference that outlives the lock)" % l.split(" = ")[1],
                              {"sched_args": sched_args, "line": l}, tags={"kind": "reference-outlives-lock", "step": "single"})
        m = re.match(r"# explored config (\d+) \((.*)\) schedules=(\d+) complete=(\d)(.*)", l)
        if m:
            chk.count("configs:" + ("complete" if m.group(4) == "1" else "truncated-at-cap"))
            if "nondeterministic" in m.group(5):
                chk.count("configs:nondeterministic-replay")
    chk.cov["schedules"] = len(starts) - 1
    chk.cov["schedules_systematic"] = chk.cov["input_distribution"].get("schedules:systematic", 0)
    chk.cov["schedules_random"] = chk.cov["input_distribution"].get("schedules:random", 0)
    chk.cov["model_rejections_without_oracle_alarm"] = nrej
    if lean is not None and any(x == "bad-op" for x in lean):
        broken.append("the model driver does not understand a line of the trace: " +
                      next(model_lines[j] for j, x in enumerate(lean) if x == "bad-op"))

    # ---- (b) stress under TSan and ASan --------------------------------------------------------------
    if not replay:
        u = 1 if quick else 40
        s = chk.seed
        #        cfg     seed     ms        readers writers clearers savers loaders proxies varlen
        runs = [("tsan", [s, 2000 * u, 3, 2, 1]),
                ("tsan", [s + 100, 1500 * u, 2, 4, 2, 1, 0, 0, 1]),           # heap fitness of changing length
                ("tsan", [s + 200, 2000 * u, 8, 1, 1, 0, 1, 0, 0]),           # many readers + clearer + wrapping loads
                ("tsan", [s + 300, 1500 * u, 0, 0, 1, 1, 1, 4, 1]),           # evaluator_proxy
                ("asan", [s, 2000 * u, 4, 3, 1, 1, 1, 0, 1]),
                ("asan", [s + 400, 1500 * u, 0, 0, 1, 1, 1, 4, 0])]
        for cfg, args in runs:
            sx = C.build_harness("c15_stress", cfg)
            rc, so, se = C.run_harness(sx, args, timeout=3000)
            m = re.search(r"stress (.*?) bad=(\d+)(.*)", so)
            if m:
                for kv in m.group(1).split():
                    k, v = kv.split("=")
                    chk.count("stress-%s:%s" % (cfg, k), int(v))
            chk.count("stress-runs:" + cfg)
            if rc != 0:
                if m and int(m.group(2)) > 0:
                    first = m.group(3).strip()
                    chk.violation("stress (%s, args %s): a lookup returned an illegal value: %s" % (cfg, args, first),
                                  {"stress": cfg, "args": args, "out": so.strip()},
                                  tags={"kind": first.split("=")[1].split()[0] if "=" in first else "oracle", "step": "stress"})
                else:
                    head, frames = sanitizer_summary(se)
                    chk.violation("stress (%s, args %s): %s; frames: %s\n%s" % (cfg, args, head, frames, se[:2500]),
                                  {"stress": cfg, "args": args, "stderr": se[:6000]},
                                  tags={"kind": "sanitizer", "where": " ".join(frames), "step": "stress"})

    if broken and not [v for v in chk.violations if not v[2]]:
        for b in broken:
            chk.violation(b, {"broken": b, "searched": "%d schedules on real threads (%d enumerated systematically) + "
                              "TSan/ASan stress: no lookup returned an illegal value, no conflicting critical sections "
                              "overlapped, no sanitizer report" %
                              (len(starts) - 1, chk.cov["schedules_systematic"])}, no_input=True)
    elif broken:
        chk.notes += broken
    chk.assumptions += ["std::shared_mutex is a correct readers-writer lock (modelled by its specification)",
                        "data-race freedom of the compiled code is not proved: the lock discipline is extracted from the "
                        "AST (lexical scopes of RAII lock objects) and the accesses are sampled by schedule enumeration "
                        "at hook granularity and by ThreadSanitizer on free-running threads (partial)"]
    return chk.finish(
        level="proof",
        checker_cmd="tools/translate_cache_locks.py > Gen.lean && lake build Vita.C15.Props c15_driver && "
                    "lake env lean <#print axioms for every theorem>",
        rule="one evaluation = one lookup / proxy call / save completed inside a schedule executed on real threads in "
             "lock-step (hook points of cache::find/insert/clear, points inside the streams of load/save, the "
             "evaluator of evaluator_proxy): systematic enumeration with bounded preemptions of 20 fixed + seeded "
             "random configurations (2..4 threads, keys sharing and not sharing a slot, values of 1/2/3/5 words, "
             "seal at UINT_MAX), then random schedules with blocking probes; distinct = distinct trace prefixes; each "
             "is judged by the harness oracle (complete value stored under that key) and every observed transition is "
             "checked against the Lean model; stress operation counts are listed in input_distribution and not counted "
             "as evaluations",
        trusted=["Lean 4.33 kernel", "hand-written protocol model Vita/C15/Model.lean (validated by schedule replay)",
                 "tools/translate_cache_locks.py + clang-14 AST (lock scopes / access classification)",
                 "std::shared_mutex specification", "harness/c15_sched.cc, harness/c15_stress.cc",
                 "g++ 12 ThreadSanitizer / ASan / UBSan"])
