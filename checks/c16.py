"""C16 — validation strategies only move examples between the two sets.

Lean: list models of holdout_validation::init and dss::init/shake/close with explicit draws
(Vita/C16/Model.lean), theorems in Vita/C16/Props.lean.  Tie: relational – the harness drives the
real strategies on data sets with unique row ids, the compiled Lean driver decides the step relation
for every observed call (and, for hold-out, reconstructs the Fisher–Yates draws and compares with the
model function exactly); the harness carries its own multiset oracle.
"""
import json

from vlib import common as C


def gen_requests(rng, tier):
    reqs = []
    nh, nd = (420, 260) if tier == "quick" else (12000, 8000)
    # ---- hold-out -------------------------------------------------------------------------
    sizes = [1, 2, 3, 4, 5, 7, 10, 99, 100, 101, 150, 299, 300]
    for k in range(nh):
        m = rng.below(6)
        n = sizes[rng.below(len(sizes))] if m == 0 else rng.between(2, 41) if m < 4 else rng.between(2, 301)
        perc = rng.choice([0, 1, 50, 98, 99]) if rng.below(5) == 0 else rng.between(0, 100)
        prefill = rng.between(1, 6) if rng.below(8) == 0 else 0
        pat = rng.below(6)
        runs = ([0], [0, 1], [0, 1, 2, 3], [0, 3, 1], [1, 0], [2, 0, 0])[pat]
        reqs.append("holdout %d %d %d %d %s" % (n, perc, prefill, rng.below(1 << 31),
                                                " ".join(map(str, runs))))
    for n in range(1, 41):            # every percentage on a few sizes: the share arithmetic
        if n in (1, 2, 3, 7, 10, 40):
            for perc in range(100):
                reqs.append("holdout %d %d 0 %d 0 1" % (n, perc, rng.below(1 << 31)))
    # ---- DSS ------------------------------------------------------------------------------
    if tier != "quick":
        sizes += [1000, 2000]
    for k in range(nd):
        m = rng.below(6)
        n = max(2, sizes[rng.below(len(sizes))]) if m == 0 else rng.between(2, 9) if m < 3 else \
            rng.between(2, 61) if m < 5 else rng.between(2, 301)
        gap = rng.between(1, 6)
        initial_va = rng.below(n + 1) if rng.below(4) == 0 else 0
        runs = rng.between(1, 5)
        gens = rng.choice([0, 1, 2, 5, 7, 12]) if n <= 100 else rng.choice([0, 2, 5])
        if n >= 1000:
            runs, gens = 1, 2
        reqs.append("dss %d %d %d %d %d %d %d" % (n, gap, initial_va, runs, gens,
                                                  rng.below(1 << 31), rng.next()))
    return reqs


def corrupt(step, rng):
    """negative control: damage an observed step so that the property fails on it"""
    f = step.split(" | ")
    kind = rng.below(3)
    idx = 3 if f[3].strip() else 4
    items = f[idx].split()
    if not items:
        return None
    if kind == 0:                      # lose an example
        items.pop(rng.below(len(items)))
    elif kind == 1:                    # duplicate an example
        items.append(items[rng.below(len(items))])
    else:                              # alter an example's payload id
        j = rng.below(len(items))
        p = items[j].split(":")
        p[0] = str(int(p[0]) + 1000000000)
        items[j] = ":".join(p)
    f[idx] = " ".join(items)
    return " | ".join(f)


def run(chk, replay=None):
    rng = C.SplitMix(chk.seed)
    broken = []

    ok, msg = chk.prove("Vita.C16.Props", ["Vita.C16.Props", "c16_driver"])
    drv_ok = True
    if not ok:
        broken.append("theorems of Vita.C16.Props no longer check: " + msg)
        drv_ok, out = C.lake_build(["c16_driver"])
        if not drv_ok:
            broken.append("c16_driver does not build: " + C.lean_errors(out))

    exe = C.build_harness("c16_validation", "asan")

    corpus = []
    import os
    cdir = os.path.join(C.ROOT, "corpus", "C16")
    if os.path.isdir(cdir):
        for f in sorted(os.listdir(cdir)):
            corpus += [ln.strip() for ln in open(os.path.join(cdir, f)) if ln.strip() and not ln.startswith("#")]
    if replay:
        reqs = [json.load(open(replay))["replay"]["request"]]
    else:
        reqs = corpus + gen_requests(rng, chk.tier)

    answers, deaths = C.run_lines(exe, reqs, timeout=600)
    for idx, rc, se in deaths:
        chk.violation("harness died (rc=%d, sanitizer report or crash) on request `%s`\n%s"
                      % (rc, reqs[idx], se[-1500:]),
                      {"request": reqs[idx]}, tags={"kind": reqs[idx].split()[0], "clause": "died"})

    # ---- split the answers into steps, feed the driver ------------------------------------
    steps = []      # (request index, step text, oracle)
    for i, a in enumerate(answers):
        if a.startswith(("died", "skipped")):
            continue
        if a.startswith(("bad-request", "exception")):
            broken.append("harness answered `%s` to `%s`" % (a[:200], reqs[i]))
            continue
        for part in a.split(" ;; "):
            st, _, orc = part.partition(" ## ")
            steps.append((i, st, orc.strip()))

    dlines = [s for _, s, _ in steps]
    controls = []
    for k in range(0, len(steps), 7):
        c = corrupt(steps[k][1], rng)
        if c is not None:
            controls.append(c)
    malformed = ["", "H 3", "H x 0 | 1 | 2 | 3 | 4", "D init 0 | 1:1 |  |  |  | 0 1 1", "Q 1 2",
                 "D shake 0 | 1:1:0 |  | 1:1:0 |  | 0 0 0", "H 10 0 | 1 2 | | 1 |"]
    tsmax = 20000 if chk.tier == "quick" else 400000
    tail = controls + malformed + ["T 2 %d" % tsmax]
    have_driver = drv_ok
    dout = C.run_driver("c16_driver", dlines + tail) if drv_ok else ["n/a"] * (len(dlines) + len(tail))

    nexact = nrel = nfb = 0
    found = []          # (size, what, replay, tags) – reported smallest first
    if True:
        if len(dout) != len(dlines) + len(tail):
            broken.append("driver answered %d lines for %d requests" % (len(dout), len(dlines) + len(tail)))
        for (i, st, orc), d in zip(steps, dout):
            head = st.split(" | ")[0].split()
            kind = "holdout" if head[0] == "H" else "dss"
            chk.seen(st)
            chk.count("call:" + " ".join(head[:2]) if kind == "dss" else "call:H run%s" % ("0" if head[2] == "0" else ">0"))
            n_ex = sum(len(f.split()) for f in st.split(" | ")[1:3])
            chk.count("examples:%s" % ("2-9" if n_ex < 10 else "10-99" if n_ex < 100 else "100+"))
            tags = {"kind": kind, "clause": orc, "call": " ".join(head[:2])}
            if orc != "fine":
                found.append((n_ex, "%s: the strategy call `%s` broke the property (%s) – request `%s`; observed "
                              "step: %s" % (kind, " ".join(head), orc, reqs[i], st[:600]),
                              {"request": reqs[i], "step": st, "oracle": orc, "driver": d}, tags))
            if d.startswith("ok"):
                if d == "ok exact":
                    nexact += 1
                elif d == "ok rel":
                    nrel += 1
                elif d == "ok fb":
                    nfb += 1
                if orc != "fine":
                    broken.append("harness oracle reports `%s` but the Lean step relation accepts: %s" % (orc, st[:300]))
            elif d != "n/a":
                if orc == "fine" and len(broken) < 5:
                    # the model's relation rejects a call on which the property itself (oracle) holds: the model
                    # no longer describes the code – reported without a failing input
                    broken.append("%s: observed call `%s` is rejected by the Lean step relation (%s) although the "
                                  "property holds on it – request `%s`; step: %s"
                                  % (kind, " ".join(head), d, reqs[i], st[:500]))
            if len(chk.cov["samples"]) < 4 and n_ex <= 8:
                chk.sample({"request": reqs[i], "step": st, "oracle": orc, "driver": d})
        for n_ex, what, rep, tags in sorted(found, key=lambda x: (x[0], x[1])):
            chk.violation(what, rep, tags=tags)
    if have_driver:
        base = len(dlines)
        rejected = sum(1 for d in dout[base:base + len(controls)] if d.startswith("bad"))
        chk.cov["negative_controls"] = {"sent": len(controls), "rejected": rejected}
        if rejected != len(controls):
            broken.append("the driver accepted %d corrupted steps (negative controls)" % (len(controls) - rejected))
        mal = dout[base + len(controls):base + len(controls) + len(malformed)]
        chk.cov["malformed_lines"] = {"sent": len(malformed), "refused": sum(1 for d in mal if d.startswith("bad"))}
        if any(not d.startswith("bad") for d in mal):
            broken.append("the driver accepted a malformed line: %r" % (mal,))
        ts = dout[-1].split() if dout else ["bad"]
        chk.cov["target_size_float_vs_rat"] = {"range": [2, tsmax], "answer": " ".join(ts)}
        if ts[0] != "ok":
            broken.append("floating-point target_size leaves [1, s) at s=%s: TsOK does not hold for the code's "
                          "arithmetic" % (ts[1:] or "?"))
        elif int(ts[2]) != 0:
            chk.notes.append("target_size: double and rational arithmetic differ for %s sizes (first %s); "
                             "both satisfy TsOK" % (ts[2], ts[3]))
    chk.cov["holdout_exact_model_matches"] = nexact
    chk.cov["holdout_relation_only"] = nrel
    chk.cov["dss_fallback_like_splits"] = nfb
    chk.cov["requests"] = len(reqs)
    if nrel:
        chk.notes.append("%d hold-out calls satisfy the step relation but not the order-exact model "
                         "(the shuffle order changed; conservation/share unaffected)" % nrel)

    if broken and not [v for v in chk.violations if not v[2]]:
        for b in broken:
            chk.violation(b, {"broken": b, "searched": "%d requests / %d observed calls: no call violating the "
                              "property" % (len(reqs), len(steps))}, no_input=True)
    elif broken:
        chk.notes += broken
    return chk.finish(
        level="proof",
        checker_cmd="lake build Vita.C16.Props c16_driver && lake env lean <#print axioms for every theorem>",
        rule="one evaluation = one observed call of init/shake/close on a data set with unique row ids "
             "(distinct = distinct (call, sets before, sets after)); each is decided by the Lean step relation "
             "and by the harness's own multiset oracle; hold-out results are additionally compared with the "
             "model function on the reconstructed draws",
        trusted=["Lean 4.33 kernel", "harness/c16_validation.cc (observation + canonical ids)",
                 "std::partition returns a permutation of its input (modelled by specification)",
                 "target_size: the double computation is a parameter constrained by TsOK; compared with the "
                 "rational formula by the driver on a range of sizes (test, not proof)",
                 "g++ 12.2 ASan/UBSan"])
