"""C16 — validation strategies only move examples between the two sets.

Lean: list models of holdout_validation::init and dss::init/shake/close with explicit draws
(Vita/C16/Model.lean); the container programs of those functions are EXTRACTED from the clang AST on
every run (tools/translate_validation.py -> Vita/C16/Gen.lean), proved equal to the tables the model
stands for (`decide`) whose meaning on an abstract machine with 64/32-bit wrap-around is proved to be the
list model (Bridge.lean); the call protocol of search::run / evolution::run is a transition system driven
by the extracted token tables (Protocol.lean).  Theorems in Vita/C16/Props.lean.

Tie on real executions, every run:
  * harness c16_validation drives the strategies directly (unique row ids, counters up to the limits of
    their types), harness c16_search monitors real `src_search` sessions (every strategy call through a
    decorator, or both frames at every after_generation callback and around every run());
  * the compiled Lean driver decides the step relation of every observed call, the relation between
    consecutive observations, and compares the observed call sequence with the model's schedule;
  * both harnesses carry their own multiset oracle.
"""
import json
import os
import re

from vlib import common as C


# ---------------------------------------------------------------------------------------------
def gen_requests(rng, tier):
    reqs = []
    nh, nd = (420, 260) if tier == "quick" else (12000, 8000)
    # ---- hold-out -------------------------------------------------------------------------
    sizes = [1, 2, 3, 4, 5, 7, 10, 99, 100, 101, 150, 299, 300]
    for k in range(nh):
        m = rng.below(6)
        n = sizes[rng.below(len(sizes))] if m == 0 else rng.between(2, 41) if m < 4 else rng.between(2, 301)
        perc = rng.choice([0, 1, 50, 98, 99]) if rng.below(5) == 0 else rng.between(0, 100)
        prefill = rng.between(1, 6) if rng.below(8) == 0 else 0
        pat = rng.below(6)
        runs = ([0], [0, 1], [0, 1, 2, 3], [0, 3, 1], [1, 0], [2, 0, 0])[pat]
        reqs.append("holdout %d %d %d %d %s" % (n, perc, prefill, rng.below(1 << 31),
                                                " ".join(map(str, runs))))
    for n in range(1, 41):            # every percentage on a few sizes: the share arithmetic
        if n in (1, 2, 3, 7, 10, 40):
            for perc in range(100):
                reqs.append("holdout %d %d 0 %d 0 1" % (n, perc, rng.below(1 << 31)))
    # ---- DSS ------------------------------------------------------------------------------
    if tier != "quick":
        sizes += [1000, 2000]
    for k in range(nd):
        m = rng.below(6)
        n = max(2, sizes[rng.below(len(sizes))]) if m == 0 else rng.between(2, 9) if m < 3 else \
            rng.between(2, 61) if m < 5 else rng.between(2, 301)
        gap = rng.between(1, 6)
        initial_va = rng.below(n + 1) if rng.below(4) == 0 else 0
        runs = rng.between(1, 5)
        gens = rng.choice([0, 1, 2, 5, 7, 12]) if n <= 100 else rng.choice([0, 2, 5])
        if n >= 1000:
            runs, gens = 1, 2
        reqs.append("dss %d %d %d %d %d %d %d" % (n, gap, initial_va, runs, gens,
                                                  rng.below(1 << 31), rng.next()))
    # ---- dataframe::clone_schema on its own: metadata only --------------------------------------
    for k in range(24 if tier == "quick" else 600):
        reqs.append("schema %d %d %d" % (rng.between(0, 13), rng.choice([0, 0, 1, 3]), rng.next()))
    return reqs


def gen_search_requests(rng, tier):
    """sessions of real src_search runs: search <mode> <strat> <n> <param> <preva> <gens> <inds> <vseed> <k1> [<k2>…]"""
    reqs = []
    ns = 120 if tier == "quick" else 1500
    # boundary sessions first, at every seed: the user asks for 0 % / 1 % / 99 % explicitly and the strategy is driven
    # through the real src_search (tune_parameters must leave an explicit value alone)
    for n, perc in ((2, 0), (40, 0), (40, 1), (40, 99), (2, 50)):
        reqs.append("search real holdout %d %d 0 1 8 %d 1" % (n, perc, rng.below(1 << 31)))
    for k in range(ns):
        mode = "spy" if rng.below(2) else "real"
        strat = rng.choice(["dss", "dss", "dss", "holdout", "holdout", "asis"])
        n = rng.choice([2, 3, 4, 5, 8, 13, 30, 60]) if rng.below(3) else rng.between(2, 41)
        if strat == "dss":
            param = rng.between(1, 5)
        elif strat == "holdout":
            param = rng.choice([0, 1, 50, 90, 99]) if rng.below(4) == 0 else rng.between(0, 100)
        else:
            param = 0
        preva = rng.between(1, 4) if (strat != "dss" and rng.below(4) == 0) else 0
        gens = rng.choice([1, 1, 2, 3, 5, 7])      # env.generations (0 would mean auto-tune: 100)
        calls = [[1], [2], [3], [1, 1], [2, 1], [1, 0, 2]][rng.below(6)]
        if mode == "real" and strat != "asis" and rng.below(6) == 0:
            strat += "-unset"       # the parameter is left to src_search::tune_parameters
            if strat.startswith("holdout"):
                n = rng.choice([n, 100, 120, 150])
        if n > 60:
            gens, calls = min(gens, 2), [1]
        reqs.append("search %s %s %d %d %d %d %d %d %s" % (mode, strat, n, param, preva, gens, rng.between(6, 13),
                                                           rng.below(1 << 31), " ".join(map(str, calls))))
    return reqs


# ---------------------------------------------------------------------------------------------
def corrupt(step, rng):
    """negative control: damage an observed step so that the property fails on it"""
    f = step.split(" | ")
    kind = rng.below(3)
    idx = 3 if f[3].strip() else 4
    items = f[idx].split()
    if not items:
        return None
    if kind == 0:                      # lose an example
        items.pop(rng.below(len(items)))
    elif kind == 1:                    # duplicate an example
        items.append(items[rng.below(len(items))])
    else:                              # alter an example's payload id
        j = rng.below(len(items))
        p = items[j].split(":")
        p[0] = str(int(p[0]) + 1000000000)
        items[j] = ":".join(p)
    f[idx] = " ".join(items)
    return " | ".join(f)


def ids_only(frame):
    return " ".join(w.split(":")[0] + ":0:0" for w in frame.split())


def session_lines(req, ans):
    """driver lines of one monitored search session.
    Returns (steps [(text, oracle)], extra driver lines [(text, what)], problems [str])"""
    t = req.split()
    mode, strat = t[1], t[2].split("-")[0]
    param = int(t[4])
    items = ans.split(" ;; ")
    steps, extra, problems = [], [], []
    env = [x for x in items if x.startswith("P ")]
    if env:
        pv, dv = env[-1].split()[1:3]
        if strat == "holdout":
            param = int(pv)
        elif strat == "dss":
            param = int(dv)
        if not t[2].endswith("-unset") and strat in ("holdout", "dss") and param != int(t[4]) \
                and not (strat == "holdout" and int(t[4]) > 99):     # the property speaks of 0..99 %
            problems.append("the %s parameter set by the user (%s) is not the one in force after the search (%d), request "
                            "`%s`: an explicit value was replaced (src_search::tune_parameters only supplies a default "
                            "for a parameter left unset), so the training set does not have the share / period asked for"
                            % (strat, t[4], param, req))
        if param < 0 and strat != "asis":
            problems.append("the search ended with the %s parameter still unset (request `%s`): the strategy ran on "
                            "the `empty` value of the facultative" % (strat, req))
    if mode == "spy":
        toks, prev, k = [], None, None
        for it in items:
            body, _, orc = it.partition(" ## ")
            h = body.split(" | ")[0].split()
            if h[0] == "R":
                toks, k = [], int(h[2])
            elif h[0] == "Z":
                extra.append(("P %d | %s" % (k, " ".join(toks)), "call sequence of run(%d)" % k))
            elif h[0] == "B":
                toks.append("b" + h[1])
            elif h[0] in ("H", "D", "A"):
                f = body.split(" | ")
                call = h[1] if h[0] != "H" else "init"
                arg = h[2] if h[0] in ("H", "A") else h[-1]
                toks.append({"init": "i", "shake": "s", "close": "c"}[call] + arg)
                steps.append((body, orc.strip()))
                if prev is not None:       # what happened between two strategy calls: evaluations only
                    a, b, c, d = prev[0], prev[1], f[1], f[2]
                    if h[0] == "H" or prev[2] == "H":
                        a, b, c, d = ids_only(a), ids_only(b), ids_only(c), ids_only(d)
                    extra.append(("E | %s | %s | %s | %s" % (a, b, c, d), "between two strategy calls"))
                prev = (f[3], f[4], h[0])
        return steps, extra, problems
    # ---- real mode: consecutive observations -----------------------------------------------
    obs = []
    for it in items:
        body, _, orc = it.partition(" ## ")
        if body.startswith("O "):
            f = body.split(" | ")
            obs.append((f[0].split()[1], f[1], f[2], orc.strip(), body))
    for (l1, tr1, va1, _, _), (l2, tr2, va2, _, _) in zip(obs, obs[1:]):
        m1 = re.match(r"(start|cb|ret)(\d+)\.(\d+)", l1)
        m2 = re.match(r"(start|cb|ret)(\d+)\.(\d+)", l2)
        k1, k2, g2 = m1.group(1), m2.group(1), int(m2.group(3))
        if k2 == "cb" and g2 == 0:
            kind = "first" if k1 == "start" else "newrun"
        elif k2 == "cb":
            kind = "gen"
        elif k2 == "ret" and k1 == "cb":
            kind = "end"
        else:
            kind = "idle"
        extra.append(("X %s %d %s %d | %s | %s | %s | %s" % (strat, max(param, 0), kind, g2, tr1, va1, tr2, va2),
                      "%s -> %s" % (l1, l2)))
    for (l, tr, va, orc, body) in obs:
        steps.append((body, orc))
    return steps, extra, problems


# ---------------------------------------------------------------------------------------------
def run(chk, replay=None):
    rng = C.SplitMix(chk.seed)
    broken = []

    # ---- the model is regenerated from the current source -------------------------------------
    rc, so, se = C.sh(["python3", os.path.join(C.ROOT, "tools", "translate_validation.py")])
    chk.cov["translator"] = (so or se).strip()[-300:]
    if rc != 0:
        broken.append("tools/translate_validation.py could not extract the container programs of the validation "
                      "strategies from the current source: " + (so + se).strip()[-600:])

    ok, msg = chk.prove("Vita.C16.Props", ["Vita.C16.Props", "c16_driver"])
    drv_ok = True
    if not ok:
        broken.append("theorems of Vita.C16.Props no longer check: " + msg)
        drv_ok, out = C.lake_build(["c16_driver"])
        if not drv_ok:
            broken.append("c16_driver does not build: " + C.lean_errors(out))

    exe = C.build_harness("c16_validation", "asan")
    exe_s = C.build_harness("c16_search", "asan")

    corpus, corpus_s = [], []
    cdir = os.path.join(C.ROOT, "corpus", "C16")
    if os.path.isdir(cdir):
        for f in sorted(os.listdir(cdir)):
            for ln in open(os.path.join(cdir, f)):
                ln = ln.strip()
                if ln and not ln.startswith("#"):
                    (corpus_s if ln.startswith("search ") else corpus).append(ln)
    if replay:
        r = json.load(open(replay))["replay"]
        one = r.get("request", "")
        reqs = [one] if one and not one.startswith("search ") else []
        sreqs = [one] if one.startswith("search ") else []
    else:
        reqs = corpus + gen_requests(rng, chk.tier)
        sreqs = corpus_s + gen_search_requests(rng, chk.tier)

    answers, deaths = C.run_lines(exe, reqs, timeout=900) if reqs else ([], [])
    for idx, rc, se in deaths:
        chk.violation("harness died (rc=%d, sanitizer report or crash) on request `%s`\n%s"
                      % (rc, reqs[idx], se[-1500:]),
                      {"request": reqs[idx]}, tags={"kind": reqs[idx].split()[0], "clause": "died"})
    sanswers, sdeaths = C.run_lines(exe_s, sreqs, timeout=1500) if sreqs else ([], [])
    for idx, rc, se in sdeaths:
        chk.violation("a monitored src_search session died (rc=%d, sanitizer report or crash) on request `%s`\n%s"
                      % (rc, sreqs[idx], se[-1500:]),
                      {"request": sreqs[idx]}, tags={"kind": "search", "clause": "died",
                                                     "call": " ".join(sreqs[idx].split()[1:3])})

    # ---- split the answers into steps, feed the driver ------------------------------------
    steps = []      # (request text, step text, oracle)
    for i, a in enumerate(answers):
        if a.startswith(("died", "skipped")):
            continue
        if a.startswith(("bad-request", "exception")):
            broken.append("harness answered `%s` to `%s`" % (a[:200], reqs[i]))
            continue
        for part in a.split(" ;; "):
            st, _, orc = part.partition(" ## ")
            steps.append((reqs[i], st, orc.strip()))
    extras = []     # (request text, driver line, what)
    for i, a in enumerate(sanswers):
        if a.startswith(("died", "skipped")):
            continue
        if a.startswith(("bad-request", "exception")):
            broken.append("search harness answered `%s` to `%s`" % (a[:200], sreqs[i]))
            continue
        st, ex, prob = session_lines(sreqs[i], a)
        steps += [(sreqs[i], s, o) for s, o in st]
        extras += [(sreqs[i], l, w) for l, w in ex]
        for p in prob:
            chk.violation(p, {"request": sreqs[i]}, tags={"kind": "search",
                                                          "clause": "explicit-parameter-replaced" if "set by the user" in p
                                                          else "unset-parameter",
                                                          "call": " ".join(sreqs[i].split()[1:3])})
        chk.count("session:%s %s" % tuple(sreqs[i].split()[1:3]))

    dsteps = [(r, s, o) for r, s, o in steps if not s.startswith("O ")]
    dlines = [s for _, s, _ in dsteps] + [l for _, l, _ in extras]
    controls = []
    for k in range(0, len(dsteps), 7):
        c = corrupt(dsteps[k][1], rng)
        if c is not None:
            controls.append(c)
    for k in range(0, len(extras), 5):
        l = extras[k][1]
        if l.startswith("X "):
            c = corrupt(l, rng)
            if c is not None:
                controls.append(c)
        elif l.startswith("P ") and len(l.split()) > 6:
            w = l.split()
            j = 3 + rng.below(len(w) - 4)
            if w[j] != w[j + 1]:
                w[j], w[j + 1] = w[j + 1], w[j]          # two calls in the wrong order
                controls.append(" ".join(w))
    malformed = ["", "H 3", "H x 0 | 1 | 2 | 3 | 4", "D init 0 | 1:1 |  |  |  | 0 1 1", "Q 1 2",
                 "D shake 0 | 1:1:0 |  | 1:1:0 |  | 0 0 0", "H 10 0 | 1 2 | | 1 |", "P 1 | i0 q1", "X dss 2 gen | | | |",
                 "A init 0 | 1:0:0 |  | 1:0:0 |  | 1", "E | 1:0:0 |  | 2:0:0 |"]
    tsmax = 20000 if chk.tier == "quick" else 400000
    tail = controls + malformed + ["T 2 %d" % tsmax]
    have_driver = drv_ok
    dout = C.run_driver("c16_driver", dlines + tail) if drv_ok else ["n/a"] * (len(dlines) + len(tail))

    nexact = nrel = nfb = 0
    found = []          # (size, what, replay, tags) – reported smallest first
    if len(dout) != len(dlines) + len(tail):
        broken.append("driver answered %d lines for %d requests" % (len(dout), len(dlines) + len(tail)))
    # observations of monitored searches: only the harness oracle speaks (the driver sees them pairwise)
    for req, st, orc in steps:
        if st.startswith("O ") and orc != "fine":
            n_ex = sum(len(f.split()) for f in st.split(" | ")[1:3])
            found.append((n_ex, "search: at observation `%s` of a monitored src_search session the two frames do not "
                          "hold the loaded examples each once (%s) – request `%s`; observed: %s"
                          % (st.split(" | ")[0], orc, req, st[:600]),
                          {"request": req, "step": st, "oracle": orc},
                          {"kind": "search", "clause": orc, "call": " ".join(req.split()[1:3])}))
    for (req, st, orc), d in zip(dsteps, dout):
        head = st.split(" | ")[0].split()
        kind = "holdout" if head[0] == "H" else "dss" if head[0] == "D" else "as-is"
        src = "search" if req.startswith("search ") else "direct"
        chk.seen(st)
        chk.count("call:%s %s" % (src, " ".join(head[:2]) if kind != "holdout" else "H run%s" % ("0" if head[2] == "0" else ">0")))
        n_ex = sum(len(f.split()) for f in st.split(" | ")[1:3])
        chk.count("examples:%s" % ("0-1" if n_ex < 2 else "2-9" if n_ex < 10 else "10-99" if n_ex < 100 else "100+"))
        if kind == "dss" and re.search(r":\d{19,}\b|:\d{7,}:", st):
            chk.count("counters near the limits of their types")
        tags = {"kind": kind if src == "direct" else "search", "clause": orc, "call": " ".join(head[:2])}
        if orc == "schema":
            # the examples are where the property wants them; only the METADATA of the validation frame is not the
            # training frame's (the model – Bridge.lean – says clone_schema gives it): the model no longer describes
            # the code, but no clause of C16 fails on this input
            if len(broken) < 5:
                broken.append("%s: after `%s` the validation frame does not carry the metadata (classes()) of the "
                              "training frame, as the extracted program / model say it does – request `%s`; step: %s"
                              % (kind, " ".join(head), req, st[:300]))
            continue
        if orc != "fine":
            found.append((n_ex, "%s: the strategy call `%s` broke the property (%s) – request `%s`; observed "
                          "step: %s" % (kind, " ".join(head), orc, req, st[:600]),
                          {"request": req, "step": st, "oracle": orc, "driver": d}, tags))
        if d.startswith("ok"):
            if d == "ok exact":
                nexact += 1
            elif d == "ok rel":
                nrel += 1
            elif d == "ok fb":
                nfb += 1
            if orc != "fine":
                broken.append("harness oracle reports `%s` but the Lean step relation accepts: %s" % (orc, st[:300]))
        elif d != "n/a":
            if orc == "fine" and len(broken) < 5:
                # the model's relation rejects a call on which the property itself (oracle) holds: the model
                # no longer describes the code – reported without a failing input
                broken.append("%s: observed call `%s` is rejected by the Lean step relation (%s) although the "
                              "property holds on it – request `%s`; step: %s"
                              % (kind, " ".join(head), d, req, st[:500]))
        if len(chk.cov["samples"]) < 4 and n_ex <= 8:
            chk.sample({"request": req, "step": st, "oracle": orc, "driver": d})
    base = len(dsteps)
    nobs = nproto = 0
    for (req, line, what), d in zip(extras, dout[base:base + len(extras)]):
        chk.seen(line)
        k = line.split()[0]
        chk.count("search:%s" % ({"X": "observation pair " + " ".join(line.split()[1:4:2]), "P": "call sequence",
                                  "E": "evaluations between calls"}[k]))
        nobs += k == "X"
        nproto += k == "P"
        if d.startswith("ok") or d == "n/a":
            continue
        # a monitored search left the behaviour the protocol model predicts.  When the harness oracle also saw a
        # broken clause the concrete violation is already listed; otherwise look at what exactly is wrong
        if k == "X":
            f = line.split(" | ")
            pre = sorted(w.split(":")[0] for w in (f[1] + " " + f[2]).split())
            post = sorted(w.split(":")[0] for w in (f[3] + " " + f[4]).split())
            strat, kind2 = line.split()[1], line.split()[3]
            emp = kind2 in ("first", "newrun", "gen") and strat == "dss" and (not f[3].strip() or not f[4].strip())
            if pre != post or emp:
                found.append((len(pre), "search: between the observations %s of a monitored src_search session the "
                              "examples changed (%s) – request `%s`; %s" % (what, d, req, line[:600]),
                              {"request": req, "pair": line, "driver": d},
                              {"kind": "search", "clause": "lost-dup" if pre != post else "empty",
                               "call": " ".join(req.split()[1:3])}))
                continue
        if len(broken) < 8:
            broken.append("search: %s of a monitored src_search session is not what the protocol model predicts (%s) – "
                          "request `%s`; %s" % (what, d, req, line[:500]))
    for n_ex, what, rep, tags in sorted(found, key=lambda x: (x[0], x[1])):
        chk.violation(what, rep, tags=tags)
    if have_driver:
        base = len(dlines)
        rejected = sum(1 for d in dout[base:base + len(controls)] if d.startswith("bad"))
        chk.cov["negative_controls"] = {"sent": len(controls), "rejected": rejected}
        if rejected != len(controls):
            acc = [c for c, d in zip(controls, dout[base:base + len(controls)]) if not d.startswith("bad")]
            broken.append("the driver accepted %d corrupted steps (negative controls), e.g. %s"
                          % (len(controls) - rejected, acc[0][:300]))
        mal = dout[base + len(controls):base + len(controls) + len(malformed)]
        chk.cov["malformed_lines"] = {"sent": len(malformed), "refused": sum(1 for d in mal if d.startswith("bad"))}
        if any(not d.startswith("bad") for d in mal):
            broken.append("the driver accepted a malformed line: %r" % (mal,))
        ts = dout[-1].split() if dout else ["bad"]
        chk.cov["target_size_float_vs_rat"] = {"range": [2, tsmax], "answer": " ".join(ts)}
        if ts[0] != "ok":
            broken.append("floating-point target_size leaves [1, s) at s=%s: TsOK does not hold for the code's "
                          "arithmetic" % (ts[1:] or "?"))
        elif int(ts[2]) != 0:
            chk.notes.append("target_size: double and rational arithmetic differ for %s sizes (first %s); "
                             "both satisfy TsOK" % (ts[2], ts[3]))
    chk.cov["holdout_exact_model_matches"] = nexact
    chk.cov["holdout_relation_only"] = nrel
    chk.cov["dss_fallback_like_splits"] = nfb
    chk.cov["requests"] = len(reqs)
    chk.cov["search_sessions"] = len(sreqs)
    chk.cov["search_observation_pairs"] = nobs
    chk.cov["search_call_sequences"] = nproto
    if nrel:
        chk.notes.append("%d hold-out calls satisfy the step relation but not the order-exact model "
                         "(the shuffle order changed; conservation/share unaffected)" % nrel)

    # ---- thorough: the 64-bit weight sum, three ways (library debug log, harness, Lean) -----------
    if chk.tier == "thorough" and not replay and drv_ok:
        try:
            exe_d = C.build_harness("c16_validation", "asan-dbg")
            wreq = ["wsum %d %d" % (rng.between(2, 40), rng.below(1 << 62)) for _ in range(400)]
            wans, wdeaths = C.run_lines(exe_d, wreq, timeout=900)
            for idx, rc, se in wdeaths:
                broken.append("weight-sum harness (asserts on) died on `%s`: %s" % (wreq[idx], se[-400:]))
            wl = [(q, a) for q, a in zip(wreq, wans) if a.startswith("wsum ") and "skipped" not in a]
            wout = C.run_driver("c16_driver", ["W | " + a.split(" | ")[1] for _, a in wl])
            nw = 0
            for (q, a), d in zip(wl, wout):
                lib, own = a.split(" | ")[0].split()[1:3]
                lean = d.split(" s ")[-1].strip()
                nw += 1
                chk.seen("W " + a)
                if not (lib == own == lean):
                    broken.append("weight sum of `%s`: library %s, harness %s, Lean model %s" % (q, lib, own, lean))
            chk.cov["weight_sum_three_way"] = {"compared": nw,
                                               "wrapped": sum(1 for _, a in wl if re.search(r":\d{7,}:", a))}
        except RuntimeError as e:
            broken.append("weight-sum harness does not build: %s" % str(e)[-500:])

    if broken and not [v for v in chk.violations if not v[2]]:
        for b in broken:
            chk.violation(b, {"broken": b, "searched": "%d + %d requests / %d observed calls / %d observation pairs: "
                              "no call violating the property" % (len(reqs), len(sreqs), len(dsteps), nobs)},
                          no_input=True)
    elif broken:
        chk.notes += broken
    return chk.finish(
        level="proof",
        checker_cmd="python3 tools/translate_validation.py && lake build Vita.C16.Props c16_driver && "
                    "lake env lean <#print axioms for every theorem>",
        rule="one evaluation = one observed call of init/shake/close (driven directly or made by search::run in a "
             "monitored src_search session), one pair of consecutive observations of a monitored session, one call "
             "sequence of a run(k) (distinct = distinct text); each is decided by the Lean relation it belongs to "
             "and by the harness's own multiset oracle; hold-out results are additionally compared with the model "
             "function on the reconstructed draws",
        trusted=["Lean 4.33 kernel", "harness/c16_validation.cc, harness/c16_search.cc (observation + canonical ids)",
                 "tools/translate_validation.py + clang-14 (syntax extraction; refuses what it does not know)",
                 "Interp.lean: meaning of the container operations (std::copy/move/erase/iter_swap/for_each by "
                 "their specifications on vectors, std::partition = some permutation)",
                 "target_size: the double computation is a parameter constrained by TsOK; the extracted double "
                 "chain is evaluated in hardware doubles and compared with the rational reading by the driver on a "
                 "range of sizes (test, not proof)",
                 "g++ 12.2 ASan/UBSan"])
