"""C17 — integer and real vector individuals follow their operator definitions.

Lean: GA/DE operators over explicit draws (Vita/C17/Model.lean), theorems in Vita/C17/Props.lean.
Tie: relational – the harness executes the real i_ga / i_de operators (creation, mutation, two-point
crossover, DE trial vector) on generated interval lists; every observed execution is decided by the
compiled Lean driver (step relations; for DE: existence of ONE weight F in the configured interval
explaining every mutant position bit-exactly, by interval intersection) and, independently, by the
Python oracle below.
"""
import json
import os
import struct

from vlib import common as C

IMIN, IMAX = -(1 << 31), (1 << 31) - 1


def d2b(x):
    return struct.unpack("<Q", struct.pack("<d", x))[0]


def b2d(b):
    return struct.unpack("<d", struct.pack("<Q", b))[0]


def key(x):
    b = d2b(x)
    return b if b < (1 << 63) else -(b - (1 << 63))


def unkey(k):
    return b2d(k) if k >= 0 else b2d((1 << 63) + (-k))


def nextafter_up(x):
    return unkey(key(x) + 1)


# ---- the property's own oracle (independent of the Lean model) ------------------------------------
def in_range(rs, g):
    return len(g) == len(rs) and all(lo <= v < hi for (lo, hi), v in zip(rs, g))


def oracle_gx(l, r, ch, ages):
    bad = []
    n = len(r)
    if len(ch) != n or len(l) != n:
        return ["length"]
    if ages[2] != max(ages[0], ages[1]):
        bad.append("age")
    okseg = False
    for c1 in range(0, n):
        for c2 in range(c1 + 1, n + 1):      # the property: any contiguous non-empty segment [c1, c2)
            if all(ch[i] == (l[i] if c1 <= i < c2 else r[i]) for i in range(n)):
                okseg = True
                break
        if okseg:
            break
    if not okseg:
        bad.append("segment")
    return bad


def first_true(p, lo, hi):
    h = hi + 1
    while lo < h:
        m = lo + (h - lo) // 2
        if p(m):
            h = m
        else:
            lo = m + 1
    return lo


def oracle_dx(p, wlo, whi, tg, a, b, c, tr, ages):
    n = len(tg)
    if len(tr) != n:
        return ["length"], None
    bad = []
    if ages[4] != max(ages):
        bad.append("age")
    lo, hi = key(wlo), key(whi)
    for i in range(n):
        t = tr[i]
        forced = i == n - 1 or t != tg[i] or p >= 1.0
        if p <= 0.0 and i < n - 1 and t != tg[i]:
            bad.append("p0-not-target@%d" % i)
        if not forced:
            continue
        d = a[i] - b[i]
        h = lambda k: c[i] + unkey(k) * d   # noqa: E731
        if d > 0:
            x = first_true(lambda k: h(k) >= t, lo, hi)
            y = first_true(lambda k: h(k) > t, lo, hi) - 1
        elif d < 0:
            x = first_true(lambda k: h(k) <= t, lo, hi)
            y = first_true(lambda k: h(k) < t, lo, hi) - 1
        else:
            x, y = (lo, hi) if h(lo) == t else (1, 0)
        lo, hi = x, y
        if lo > hi:
            bad.append("no-single-F@%d" % i)
            return bad, None
    return bad, (unkey(lo), unkey(hi))


# ---- generators -------------------------------------------------------------------------------
def int_ranges(rng, n):
    kind = rng.below(7)
    rs = []
    for i in range(n):
        k = kind if kind < 6 else rng.below(6)
        if k == 0:
            lo = rng.between(-60, -5)
            rs.append((lo, lo + rng.between(1, 5)))
        elif k == 1:
            lo = rng.between(-3, 4)
            rs.append((lo, lo + 1))                       # width 1
        elif k == 2:
            rs.append(rng.choice([(IMIN, IMAX), (IMIN, 0), (0, IMAX), (-(1 << 30), 1 << 30), (IMAX - 2, IMAX),
                                  (IMIN, IMIN + 2)]))
        elif k == 3:
            rs.append((0, rng.between(2, 12)))
        elif k == 4:
            lo = rng.between(-1000, 1000)
            rs.append((lo, lo + rng.between(1, 2000)))
        else:
            lo = rng.between(IMIN, IMAX - 1)
            rs.append((lo, rng.between(lo + 1, IMAX + 1)))
    return rs


def real_ranges(rng, n):
    kind = rng.below(7)
    rs = []
    for i in range(n):
        k = kind if kind < 6 else rng.below(6)
        if k == 0:
            lo = -rng.between(1, 1000) / 7.0
            rs.append((lo, lo + rng.between(1, 50) / 3.0))
        elif k == 1:
            lo = rng.choice([1.0, -1.0, 0.1, 1e10, -2.5e-5])
            rs.append((lo, nextafter_up(lo) if lo > 0 else unkey(key(lo) + rng.between(1, 4))))   # a few ulps wide
        elif k == 2:
            rs.append(rng.choice([(-1e150, 1e150), (-1e100, 3e120), (1e140, 1e141), (-8e149, -1e-3)]))
        elif k == 3:
            rs.append(rng.choice([(-1e-300, 1e-300), (0.0, 5e-324 * 8), (-1e-9, 1e-9), (0.0, 1.0)]))
        elif k == 4:
            rs.append((-5.12, 5.12))
        else:
            lo = (rng.below(2001) - 1000) * 0.37
            rs.append((lo, lo + (rng.below(1000) + 1) * 0.013))
    return rs


def gen_requests(rng, tier):
    q = tier == "quick"
    reqs = []
    lens = [2, 2, 3, 4, 5, 8, 13, 21, 40]
    for _ in range(150 if q else 1500):
        n = rng.choice(lens) if rng.below(2) else rng.between(2, 41)
        rs = int_ranges(rng, n)
        flat = " ".join("%d %d" % r for r in rs)
        reqs.append("gc %d %d %s" % (rng.below(1 << 31), 8, flat))
        reqs.append("gseq %d %d %d %s" % (rng.below(1 << 31), rng.next(), 40 if q else 80, flat))
    weights = [(0.5, 1.0), (0.4, 0.4), (0.0, 2.0), (-1.0, 1.0), (1e-3, 1e3), (0.7, nextafter_up(0.7)), (-2.0, -0.5),
               (0.9, 1.0)]
    probs = [0.0, 0.1, 0.5, 0.9, 1.0]
    for _ in range(150 if q else 1500):
        n = rng.choice(lens) if rng.below(2) else rng.between(2, 41)
        rs = real_ranges(rng, n)
        flat = " ".join("%d %d" % (d2b(a), d2b(b)) for a, b in rs)
        reqs.append("dc %d %d %s" % (rng.below(1 << 31), 8, flat))
        w = rng.choice(weights)
        p = rng.choice(probs)
        for mode in (0, 1):
            reqs.append("dx %d %d %d %d %d %d %d %s" % (rng.below(1 << 31), rng.next(), 6 if q else 10, d2b(p),
                                                        d2b(w[0]), d2b(w[1]), mode, flat))
    return reqs


def corrupt(step, rng):
    """negative control: damage an observed step so that the property fails on it"""
    f = step.split(" | ")
    op = f[0].split()[0]
    if op == "GC":
        rs = f[0].split()[1:]
        g = f[1].split()
        j = rng.below(len(g))
        g[j] = rs[2 * j + 1]                      # gene = open end of its interval
        f[1] = " ".join(g)
    elif op == "GX":
        ch = f[3].split()
        l, r = f[1].split(), f[2].split()
        j = len(ch) - 1                           # the last position never comes from lhs
        if l[j] == r[j]:
            return None
        ch[j] = l[j]
        f[3] = " ".join(ch)
    elif op == "GM":
        e = f[3].split()
        e[0] = str(int(e[0]) + 1)                 # wrong count of changed genes
        f[3] = " ".join(e)
    elif op == "DX":
        if rng.below(2):
            e = f[6].split()
            e[4] = str(int(e[4]) + 1)             # age is not the maximum
            f[6] = " ".join(e)
        else:
            f[5] = " ".join(f[5].split()[:-1])    # a gene is missing
    elif op == "DC":
        rs = f[0].split()[1:]
        g = f[1].split()
        j = rng.below(len(g))
        g[j] = str(d2b(nextafter_up(b2d(int(rs[2 * j + 1])))))
        f[1] = " ".join(g)
    return " | ".join(f)


def run(chk, replay=None):
    rng = C.SplitMix(chk.seed)
    broken = []

    ok, msg = chk.prove("Vita.C17.Props", ["Vita.C17.Props", "c17_driver"])
    drv_ok = True
    if not ok:
        broken.append("theorems of Vita.C17.Props no longer check: " + msg)
        drv_ok, out = C.lake_build(["c17_driver"])
        if not drv_ok:
            broken.append("c17_driver does not build: " + C.lean_errors(out))

    exe = C.build_harness("c17_gade", "asan")

    corpus = []
    cdir = os.path.join(C.ROOT, "corpus", "C17")
    if os.path.isdir(cdir):
        for f in sorted(os.listdir(cdir)):
            corpus += [ln.strip() for ln in open(os.path.join(cdir, f)) if ln.strip() and not ln.startswith("#")]
    if replay:
        reqs = [json.load(open(replay))["replay"]["request"]]
    else:
        reqs = corpus + gen_requests(rng, chk.tier)

    answers, deaths = C.run_lines(exe, reqs, timeout=900)
    for idx, rc, se in deaths:
        chk.violation("harness died (rc=%d, sanitizer report or crash) on request `%s`\n%s"
                      % (rc, reqs[idx][:300], se[-1500:]),
                      {"request": reqs[idx]}, tags={"kind": reqs[idx].split()[0], "clause": "died"})

    steps = []
    for i, a in enumerate(answers):
        if a.startswith(("died", "skipped")):
            continue
        if a.startswith(("bad-request", "exception")):
            broken.append("harness answered `%s` to `%s`" % (a[:200], reqs[i][:200]))
            continue
        for part in a.split(" ;; "):
            st, _, extra = part.partition(" ## ")
            steps.append((i, st, extra.strip()))

    controls = []
    for k in range(0, len(steps), 5):
        c = corrupt(steps[k][1], rng)
        if c is not None:
            controls.append(c)
    malformed = ["", "GC 1 2", "GX 0 1 | 1 | 2", "DX 1 2 3 | 1 | 2 | 3 | 4 | 5", "GC 0 x | 1", "ZZ 1 | 2",
                 "GM 0 9 | 1 | 1 | 0 0", "DC 1 | 2"]
    dlines = [s for _, s, _ in steps] + controls + malformed
    have_driver = drv_ok
    dout = C.run_driver("c17_driver", dlines) if drv_ok else ["n/a"] * len(dlines)
    if len(dout) != len(dlines):
        broken.append("driver answered %d lines for %d requests" % (len(dout), len(dlines)))

    found = []
    at_hi = at_lo = nanskips = 0
    fwidth = {"point": 0, "<=4ulp": 0, "wide": 0}
    for (i, st, extra), d in zip(steps, dout):
        f = st.split(" | ")
        hd = f[0].split()
        op = hd[0]
        chk.seen(st)
        chk.count("op:" + op)
        bad = []
        size = 0
        if op in ("GC", "GM", "GX"):
            v = [int(x) for x in hd[1:]]
            rs = list(zip(v[0::2], v[1::2]))
            size = len(rs)
            chk.count("len:%s" % ("2-5" if size <= 5 else "6-20" if size <= 20 else "21-40"))
            if op == "GC":
                g = [int(x) for x in f[1].split()]
                if not in_range(rs, g):
                    bad.append("range")
                if extra != "0":
                    bad.append("age")
            elif op == "GM":
                pre, post = [int(x) for x in f[1].split()], [int(x) for x in f[2].split()]
                ret, a0, a1 = [int(x) for x in f[3].split()]
                p = b2d(int(extra))
                chk.count("mut_p:%g" % p)
                if len(pre) != len(post):
                    bad.append("length")
                if not in_range(rs, post):
                    bad.append("range")
                if ret != sum(1 for x, y in zip(pre, post) if x != y):
                    bad.append("count")
                if a0 != a1:
                    bad.append("age")
                if p == 0.0 and pre != post:
                    bad.append("p0-changed")
                if ret:
                    chk.count("mut_changed")
            else:
                l, r, ch = ([int(x) for x in f[k].split()] for k in (1, 2, 3))
                ages = [int(x) for x in f[4].split()]
                bad += oracle_gx(l, r, ch, ages)
                if not in_range(rs, ch):
                    bad.append("range")
                if l != r and ch != r:
                    chk.count("xo_visible_segment")
        elif op == "DC":
            v = [b2d(int(x)) for x in hd[1:]]
            rs = list(zip(v[0::2], v[1::2]))
            size = len(rs)
            g = [b2d(int(x)) for x in f[1].split()]
            if len(g) != len(rs) or not all(lo <= x <= hi for (lo, hi), x in zip(rs, g)):
                bad.append("box")
            at_hi += sum(1 for (lo, hi), x in zip(rs, g) if x == hi)
            at_lo += sum(1 for (lo, hi), x in zip(rs, g) if x == lo)
            if extra != "0":
                bad.append("age")
        elif op == "DX":
            p, wlo, whi = (b2d(int(x)) for x in hd[1:4])
            tg, a, b, c, tr = ([b2d(int(x)) for x in f[k].split()] for k in (1, 2, 3, 4, 5))
            ages = [int(x) for x in f[6].split()]
            size = len(tg)
            chk.count("de_p:%g" % p)
            vals = tg + a + b + c + tr
            if any(x != x or x in (float("inf"), float("-inf")) for x in vals):
                nanskips += 1
            else:
                b2, Fs = oracle_dx(p, wlo, whi, tg, a, b, c, tr, ages)
                bad += b2
                if Fs:
                    w = key(Fs[1]) - key(Fs[0])
                    fwidth["point" if w == 0 else "<=4ulp" if w <= 4 else "wide"] += 1
                nm = sum(1 for x, y in zip(tr[:-1], tg[:-1]) if x != y)
                chk.count("de_mutant_positions:%s" % ("0" if nm == 0 else "some" if nm < size - 1 else "all"))
        tags = {"kind": op, "clause": " ".join(bad)}
        if bad:
            found.append((size, "%s: the observed execution breaks the property (%s) – request `%s`; step: %s"
                          % (op, " ".join(bad), reqs[i][:300], st[:700]),
                          {"request": reqs[i], "step": st, "oracle": bad, "driver": d}, tags))
        if d.startswith("ok"):
            if bad:
                broken.append("oracle reports %s but the Lean step relation accepts: %s" % (bad, st[:300]))
        elif d == "nan":
            pass
        elif d != "n/a" and not bad:
            # the model's step relation rejects an execution on which the property itself (oracle) holds:
            # the model no longer describes the code – reported without a failing input
            if len(broken) < 5:
                broken.append("%s: observed execution rejected by the Lean step relation (%s) although the property "
                              "holds on it – request `%s`; step: %s" % (op, d, reqs[i][:300], st[:500]))
        if len(chk.cov["samples"]) < 5 and size <= 4 and chk.evaluations % 7 == 0:
            chk.sample({"request": reqs[i][:200], "step": st, "driver": d})
    for _, what, rep, tags in sorted(found, key=lambda x: (x[0], x[1])):
        chk.violation(what, rep, tags=tags)

    if have_driver:
        base = len(steps)
        rej = sum(1 for d in dout[base:base + len(controls)] if d.startswith("bad"))
        chk.cov["negative_controls"] = {"sent": len(controls), "rejected": rej}
        if rej != len(controls):
            acc = [c for c, d in zip(controls, dout[base:base + len(controls)]) if not d.startswith("bad")]
            broken.append("the driver accepted %d corrupted steps (negative controls), e.g. %s"
                          % (len(controls) - rej, acc[0][:300]))
        mal = dout[base + len(controls):]
        chk.cov["malformed_lines"] = {"sent": len(malformed), "refused": sum(1 for d in mal if d.startswith("bad"))}
        if any(not d.startswith("bad") for d in mal):
            broken.append("the driver accepted a malformed line: %r" % (mal,))
    chk.cov["real_genes_at_upper_bound"] = at_hi
    chk.cov["real_genes_at_lower_bound"] = at_lo
    chk.cov["de_steps_skipped_nan_inf"] = nanskips
    chk.cov["de_admissible_F_interval"] = fwidth
    chk.cov["requests"] = len(reqs)

    if broken and not [v for v in chk.violations if not v[2]]:
        for b in broken:
            chk.violation(b, {"broken": b, "searched": "%d requests / %d observed executions: none violating the "
                              "property" % (len(reqs), len(steps))}, no_input=True)
    elif broken:
        chk.notes += broken
    return chk.finish(
        level="proof",
        checker_cmd="lake build Vita.C17.Props c17_driver && lake env lean <#print axioms for every theorem>",
        rule="one evaluation = one observed execution of i_ga(problem) / mutation / crossover / i_de(problem) / "
             "i_de::crossover (distinct = distinct (operator, inputs, result)); each is decided by the Lean step "
             "relation (DE: one F in the weight interval by interval intersection over double bit patterns) and by "
             "the Python oracle",
        trusted=["Lean 4.33 kernel", "harness/c17_gade.cc (observation)",
                 "std::uniform_int_distribution / uniform_real_distribution / bernoulli_distribution honour their "
                 "range contracts (modelled as arbitrary draws inside the range)",
                 "IEEE double arithmetic of the compiled Lean driver and of CPython equals that of g++ -O1 (no FMA "
                 "contraction)", "g++ 12.2 ASan/UBSan"])
