"""C17 — integer and real vector individuals follow their operator definitions.

Lean: the operators as EXTRACTED from the clang AST (tools/translate_gade.py -> Vita/C17/Gen.lean: ages, random.h,
number<T>::init, i_ga constructor / mutation / crossover, i_de::crossover, the two recombination strategies),
interpreted at their machine types (Vita/C17/Model.lean) and proved to be the specification functions
(Vita/C17/Bridge.lean); the property theorems are in Vita/C17/Props.lean.

Tie: (1) the translator, on every run; (2) relational – the harness executes the real operators (creation,
mutation, two-point crossover, DE trial vector, recombination::base / recombination::de on real populations) on
problems DECLARED through every public way the library offers, with individuals whose ages were produced through
inc_age / load; every observed execution is decided by the compiled Lean driver against the interval / box /
weight interval the REQUEST wrote (never the one the library recorded) and, independently, by the Python oracle
below.
"""
import json
import math
import os
import struct
import sys

from vlib import common as C

sys.path.insert(0, os.path.join(C.ROOT, "tools"))
import translate_gade  # noqa: E402
from cxx2lean import Refuse  # noqa: E402

IMIN, IMAX = -(1 << 31), (1 << 31) - 1
U32 = (1 << 32) - 1
DBL_MAX = 1.7976931348623157e308


def d2b(x):
    return struct.unpack("<Q", struct.pack("<d", x))[0]


def b2d(b):
    return struct.unpack("<d", struct.pack("<Q", b))[0]


def key(x):
    b = d2b(x)
    return b if b < (1 << 63) else -(b - (1 << 63))


def unkey(k):
    return b2d(k) if k >= 0 else b2d((1 << 63) + (-k))


def nextafter_up(x):
    return unkey(key(x) + 1)


def is_float32(x):
    try:
        return struct.unpack("<f", struct.pack("<f", x))[0] == x
    except (OverflowError, struct.error):
        return False


# ---- C++ types an endpoint can be written in (harness: 0 double 1 int 2 long 3 float 4 unsigned 5 short
#      6 long long 7 size_t); the value must be exactly representable -------------------------------------------
def types_for(v):
    t = [0]
    if v == int(v) and abs(v) < (1 << 53):
        i = int(v)
        if IMIN <= i <= IMAX:
            t.append(1)
        t += [2, 6]
        if 0 <= i <= U32:
            t.append(4)
        if -32768 <= i <= 32767:
            t.append(5)
        if i >= 0:
            t.append(7)
    if is_float32(v):
        t.append(3)
    return t


def pick_type(rng, v, plain):
    """plain: the value type of the problem (int for GA, double for DE)"""
    ts = types_for(v)
    if rng.below(3) == 0 and plain in ts:
        return plain
    return rng.choice(ts)


# ---- the property's own oracle (independent of the Lean model) ------------------------------------
def in_slot(slot, v):
    return any(lo <= v < hi for _, lo, hi in slot)


def in_range(slots, g):
    return len(g) == len(slots) and all(in_slot(s, v) for s, v in zip(slots, g))


def segment_ok(l, r, ch):
    n = len(r)
    if len(ch) != n or len(l) != n:
        return False
    for c1 in range(0, n):
        for c2 in range(c1 + 1, n + 1):      # the property: any contiguous non-empty segment [c1, c2)
            if all(ch[i] == (l[i] if c1 <= i < c2 else r[i]) for i in range(n)):
                return True
    return False


def oracle_gx(l, r, ch, ages, lived):
    bad = []
    if len(ch) != len(r) or len(l) != len(r):
        return ["length"]
    if ages[0] != lived[0] or ages[1] != lived[1]:
        bad.append("parent-age-not-generations-lived")
    if ages[2] != max(lived[0], lived[1]):
        bad.append("age")
    if not segment_ok(l, r, ch):
        bad.append("segment")
    return bad


def first_true(p, lo, hi):
    h = hi + 1
    while lo < h:
        m = lo + (h - lo) // 2
        if p(m):
            h = m
        else:
            lo = m + 1
    return lo


def weight_keys(wlo, whi):
    if wlo < whi:
        return key(wlo), key(whi) - 1
    return key(wlo), key(wlo)


def de_form(p, wlo, whi, tg, a, b, c, tr):
    """-> (bad list, (Fmin, Fmax) or None)"""
    n = len(tg)
    if len(tr) != n or len(a) != n or len(b) != n or len(c) != n:
        return ["length"], None
    bad = []
    lo, hi = weight_keys(wlo, whi)
    for i in range(n):
        t = tr[i]
        forced = i == n - 1 or t != tg[i] or p >= 1.0
        if p <= 0.0 and i < n - 1 and t != tg[i]:
            bad.append("p0-not-target@%d" % i)
        if not forced:
            continue
        d = a[i] - b[i]
        h = lambda k: c[i] + unkey(k) * d   # noqa: E731
        if d > 0:
            x = first_true(lambda k: h(k) >= t, lo, hi)
            y = first_true(lambda k: h(k) > t, lo, hi) - 1
        elif d < 0:
            x = first_true(lambda k: h(k) <= t, lo, hi)
            y = first_true(lambda k: h(k) < t, lo, hi) - 1
        else:
            x, y = (lo, hi) if h(lo) == t else (1, 0)
        lo, hi = x, y
        if lo > hi:
            bad.append("no-single-F@%d" % i)
            return bad, None
    return bad, (unkey(lo), unkey(hi))


def finite(xs):
    return all(x == x and x not in (float("inf"), float("-inf")) for x in xs)


def plausible(wlo, whi, tg, a, b, c, tr):
    """cheap necessary condition used to prune the (a, b, c) search of the strategy-level oracle"""
    n = len(tg)
    d = a[n - 1] - b[n - 1]
    if d == 0:
        return tr[n - 1] == c[n - 1]
    f = (tr[n - 1] - c[n - 1]) / d
    span = max(abs(wlo), abs(whi), 1e-300)
    tol = 1e-6 * span + 8 * math.ulp(max(abs(tr[n - 1]), abs(c[n - 1]))) / abs(d)   # rounding of c + F*d
    return wlo - tol <= f <= whi + tol


# ---- generators -------------------------------------------------------------------------------
def int_intervals(rng, n):
    kind = rng.below(8)
    rs = []
    for i in range(n):
        k = kind if kind < 7 else rng.below(7)
        if k == 0:
            lo = rng.between(-60, -5)
            rs.append((lo, lo + rng.between(1, 5)))
        elif k == 1:
            lo = rng.between(-3, 4)
            rs.append((lo, lo + 1))                       # width 1
        elif k == 2:
            rs.append(rng.choice([(IMIN, IMAX), (IMIN, 0), (0, IMAX), (-(1 << 30), 1 << 30), (IMAX - 2, IMAX),
                                  (IMIN, IMIN + 2), (-2000000000, 2000000000), (-5, IMAX), (IMIN + 1, 1000)]))
        elif k == 3:
            rs.append((0, rng.between(2, 12)))
        elif k == 4:
            lo = rng.between(-1000, 1000)
            rs.append((lo, lo + rng.between(1, 2000)))
        elif k == 5:
            lo = rng.between(-40000, 40000)
            rs.append((lo, lo + rng.between(1, 70000)))   # around the 16-bit limits
        else:
            lo = rng.between(IMIN, IMAX - 1)
            rs.append((lo, rng.between(lo + 1, IMAX + 1)))
    return rs


FRACS = [0.25, 0.5, 0.75, 0.125, 0.0]


def real_intervals(rng, n):
    kind = rng.below(11)
    rs = []
    for i in range(n):
        k = kind if kind < 10 else rng.below(10)
        if k == 0:
            lo = -rng.between(1, 1000) / 7.0
            rs.append((lo, lo + rng.between(1, 50) / 3.0))
        elif k == 1:
            lo = rng.choice([1.0, -1.0, 0.1, 1e10, -2.5e-5, 0.5, -3.0])
            rs.append((lo, nextafter_up(lo) if rng.below(2) else unkey(key(lo) + rng.between(1, 4))))   # few ulps
        elif k == 2:
            rs.append(rng.choice([(-1e150, 1e150), (-1e100, 3e120), (1e140, 1e141), (-8e149, -1e-3),
                                  (-1e16, 1.0), (-1e16, 1.5), (-9007199254740991.0, 0.6)]))
        elif k == 3:
            rs.append(rng.choice([(-1e-300, 1e-300), (0.0, 5e-324 * 8), (-1e-9, 1e-9), (0.0, 1.0),
                                  (0.0, 2.2250738585072014e-308), (-5e-324, 5e-324)]))
        elif k == 4:
            rs.append((-5.12, 5.12))
        elif k == 5:
            lo = (rng.below(2001) - 1000) * 0.37
            rs.append((lo, lo + (rng.below(1000) + 1) * 0.013))
        elif k == 6:                                       # integral first endpoint, fractional second one
            lo = float(rng.between(-60, 20))
            rs.append((lo, lo + rng.between(0, 6) + rng.choice(FRACS[:4])))
        elif k == 7:                                       # both integral
            lo = float(rng.between(-100, 100))
            rs.append((lo, lo + rng.between(1, 50)))
        elif k == 8:                                       # fractional first endpoint, integral second one
            hi = float(rng.between(-60, 60))
            rs.append((hi - rng.between(0, 6) - rng.choice(FRACS[:4]), hi))
        else:                                              # width not representable
            rs.append(rng.choice([(-DBL_MAX, DBL_MAX), (-1e308, 1e308), (-1.5e308, 1e307), (-1e307, 1.7e308)]))
    return rs


def declare(rng, intervals, plain, extra_terminals):
    """-> (pway, slots) ; slots = per category list of (way, lo, hi)"""
    n = len(intervals)
    uniform = all(r == intervals[0] for r in intervals)
    choice = rng.below(10)
    if choice == 0 and uniform:
        return 1, [[(0, lo, hi)] for lo, hi in intervals]
    if choice <= 2:
        return 0, [[(0, lo, hi)] for lo, hi in intervals]
    slots = []
    for c, (lo, hi) in enumerate(intervals):
        kind = rng.choice([0, 0, 1, 2, 3, 4, 5])
        if kind == 4:
            way = 400
        else:
            way = kind * 100 + pick_type(rng, lo, plain) * 10 + pick_type(rng, hi, plain)
        slot = [(way, lo, hi)]
        if extra_terminals is not None and rng.below(6) == 0:
            for _ in range(1 + rng.below(2)):
                slot.append((400,) + extra_terminals(rng))
        slots.append(slot)
    return 2, slots


def slot_tokens(slots, enc):
    return " ".join("%d:%d:%s:%s" % (c, w, enc(lo), enc(hi)) for c, s in enumerate(slots) for w, lo, hi in s)


def header(slots, enc):
    return " / ".join(" ".join("%s %s" % (enc(lo), enc(hi)) for _, lo, hi in s) for s in slots)


def enc_i(v):
    return "%d" % v


def enc_d(v):
    return "%d" % d2b(v)


WEIGHTS = [(0.5, 1.0), (0.4, 0.4), (0.0, 2.0), (-1.0, 1.0), (1e-3, 1e3), (0.7, nextafter_up(0.7)), (-2.0, -0.5),
           (0.9, 1.0), (2.5, 3.0), (-1.0, -0.5), (-3.0, -0.25), (2.0, 4.0), (3.0, 3.0), (-10.0, -9.25), (1.0, 2.75),
           (-4.0, -2.0), (0.5, 0.5 + 2 ** -20)]


def weight_token(rng, w):
    kind = rng.below(6)
    if kind == 4:
        return "400:%d:%d" % (d2b(w[0]), d2b(w[1]))
    ta = rng.choice([t for t in types_for(w[0]) if t in (0, 1, 2, 3)])
    tb = rng.choice([t for t in types_for(w[1]) if t in (0, 1, 2, 3)])
    return "%d:%d:%d" % (kind * 100 + ta * 10 + tb, d2b(w[0]), d2b(w[1]))


def gen_requests(rng, tier):
    """-> list of (request line, meta) ; meta carries what the REQUEST wrote"""
    q = tier == "quick"
    reqs = []
    lens = [2, 2, 3, 4, 5, 8, 13, 21, 40]
    probs = [0.0, 0.1, 0.5, 0.9, 1.0]

    def extra_int(rng):
        lo = rng.between(-100000, 100000)
        return (lo, lo + rng.between(1, 50))

    def extra_real(rng):
        lo = rng.between(-1000, 1000) / 8.0
        return (lo, lo + rng.between(1, 40) / 8.0)

    for k in range(120 if q else 1200):
        n = rng.choice(lens) if rng.below(2) else rng.between(2, 41)
        pway, slots = declare(rng, int_intervals(rng, n), 1, extra_int)
        tok = slot_tokens(slots, enc_i)
        meta = {"kind": "ga", "slots": slots}
        reqs.append(("gc %d %d %d %s" % (rng.below(1 << 31), 6, pway, tok), meta))
        reqs.append(("gseq %d %d %d %d %s" % (rng.below(1 << 31), rng.next(), 30 if q else 60, pway, tok), meta))
        if k % 2 == 0:
            pc, pm, brood = rng.choice(probs), rng.choice([0.0, 0.0, 0.05, 0.3, 1.0]), rng.choice([1, 1, 2, 3])
            space = 1
            for s in slots:
                space = min(space * sum(hi - lo for _, lo, hi in s), 1000)
            if space < 4:
                # fewer than four possible genomes: the signature-repulsion loop of base::run (`while the child
                # equals one of its parents: mutate`) may never find a genome different from both parents
                pm = 0.0
            m2 = dict(meta, pc=pc, pm=pm, brood=brood)
            reqs.append(("gstr %d %d %d %d %d %d %d %s" % (rng.below(1 << 31), rng.next(), 8 if q else 16, d2b(pc),
                                                         d2b(pm), brood, pway, tok), m2))
    for k in range(120 if q else 1200):
        n = rng.choice(lens) if rng.below(2) else rng.between(2, 41)
        rs = real_intervals(rng, n)
        pway, slots = declare(rng, rs, 0, extra_real if rng.below(3) == 0 else None)
        tok = slot_tokens(slots, enc_d)
        meta = {"kind": "de", "slots": slots}
        reqs.append(("dc %d %d %d %s" % (rng.below(1 << 31), 6, pway, tok), meta))
        w = rng.choice(WEIGHTS)
        p = rng.choice(probs)
        m2 = dict(meta, p=p, w=w)
        for mode in (0, 1):
            reqs.append(("dx %d %d %d %d %s %d %d %s" % (rng.below(1 << 31), rng.next(), 4 if q else 8, d2b(p),
                                                         weight_token(rng, w), mode, pway, tok), m2))
        if k % 2 == 0 and n <= 21:
            w = rng.choice(WEIGHTS)
            m3 = dict(meta, p=p, w=w)
            reqs.append(("dstr %d %d %d %d %s %d %d %s" % (rng.below(1 << 31), rng.next(), 5 if q else 10, d2b(p),
                                                           weight_token(rng, w), rng.below(2), pway, tok), m3))
        if k % 6 == 0:
            flat = " ".join("%d %d" % (d2b(lo), d2b(hi)) for lo, hi in rs[:8])
            reqs.append(("laws " + flat, {"kind": "laws"}))
    fixed = [(1.0, 2.0), (0.5, 1.0), (-1e16, 1.5), (0.1, nextafter_up(0.1)), (0.0, 2.2250738585072014e-308),
             (0.0, 5e-324), (-5e-324, 5e-324), (-3.0, -0.5), (-DBL_MAX, DBL_MAX), (1.0, 1.0 + 2 ** -52 * 3)]
    reqs.append(("laws " + " ".join("%d %d" % (d2b(lo), d2b(hi)) for lo, hi in fixed), {"kind": "laws"}))
    return reqs


# ---- from a request line back to what it wrote (replays, corpus) --------------------------------------------------
def parse_slots(tokens, dec):
    slots = []
    for t in tokens:
        c, w, lo, hi = t.split(":")
        c = int(c)
        while len(slots) <= c:
            slots.append([])
        slots[c].append((int(w), dec(lo), dec(hi)))
    return slots


def meta_of(req):
    t = req.split()
    di = lambda s: int(s)                  # noqa: E731
    dd = lambda s: b2d(int(s))             # noqa: E731
    if t[0] == "gc":
        return {"kind": "ga", "slots": parse_slots(t[4:], di)}
    if t[0] == "gseq":
        return {"kind": "ga", "slots": parse_slots(t[5:], di)}
    if t[0] == "gstr":
        return {"kind": "ga", "slots": parse_slots(t[8:], di), "pc": b2d(int(t[4])), "pm": b2d(int(t[5])),
                "brood": int(t[6])}
    if t[0] == "dc":
        return {"kind": "de", "slots": parse_slots(t[4:], dd)}
    if t[0] in ("dx", "dstr"):
        w = t[5].split(":")
        return {"kind": "de", "slots": parse_slots(t[8:], dd), "p": b2d(int(t[4])),
                "w": (b2d(int(w[1])), b2d(int(w[2])))}
    return {"kind": "laws"}


# ---- driver lines -----------------------------------------------------------------------------------------------
def driver_line(meta, f, pop):
    """f = fields of one harness step (split on ' | '); -> the line for the Lean driver (None: POP)"""
    op = f[0]
    if op == "AG":
        return "AG " + f[1]
    if op == "LW":
        return "LW " + " | ".join(f[1:])
    if op == "GM":
        return op + " " + header(meta["slots"], enc_i) + " | " + " | ".join(f[1:5])      # f[5] = the probability
    if op in ("GC", "GX"):
        return op + " " + header(meta["slots"], enc_i) + " | " + " | ".join(f[1:])
    if op == "DC":
        return "DC " + header(meta["slots"], enc_d) + " | " + " | ".join(f[1:])
    if op == "DX":
        return "DX %d %d %d | " % (d2b(meta["p"]), d2b(meta["w"][0]), d2b(meta["w"][1])) + " | ".join(f[1:])
    if op == "GS":
        ps = [int(x) for x in f[1].split()]
        g, _, lived = pop
        cands = [ps[1]] if len(ps) > 1 else list(range(len(g)))
        return ("GS " + header(meta["slots"], enc_i) + " | %d %d %d | " % (d2b(meta["pc"]), d2b(meta["pm"]),
                                                                         meta["brood"])
                + g[ps[0]] + " | " + " ; ".join(g[c] for c in cands) + " | " + f[2] + " | " + lived[ps[0]] + " | "
                + " ".join(lived[c] for c in cands) + " | " + f[3] + " | " + f[4])
    if op == "DS":
        ps = [int(x) for x in f[1].split()]
        g, _, lived = pop
        cands = [ps[1]] if len(ps) > 1 else list(range(len(g)))
        return ("DS %d %d %d | " % (d2b(meta["p"]), d2b(meta["w"][0]), d2b(meta["w"][1]))
                + g[ps[0]] + " | " + " ; ".join(g[c] for c in cands) + " | " + " ; ".join(g) + " | " + f[2] + " | "
                + lived[ps[0]] + " | " + " ".join(lived[c] for c in cands) + " | " + " ".join(lived) + " | " + f[3])
    return None


def corrupt(line, rng):
    """negative control: damage a driver line so that the property fails on it"""
    f = line.split(" | ")
    op = f[0].split()[0]
    if op == "GC":
        slots = f[0][3:].split(" / ")
        g = f[1].split()
        j = rng.below(len(g))
        his = slots[j].split()[1::2]
        g[j] = str(max(int(x) for x in his))          # gene = open end of its (largest) interval
        f[1] = " ".join(g)
    elif op == "GX":
        if rng.below(2):
            ch = f[3].split()
            l, r = f[1].split(), f[2].split()
            j = len(ch) - 1                           # the last position never comes from lhs
            if l[j] == r[j]:
                return None
            ch[j] = l[j]
            f[3] = " ".join(ch)
        else:
            e = f[4].split()
            if e[0] == e[1]:
                return None
            e[2] = str(min(int(e[0]), int(e[1])))     # the YOUNGER parent's age
            f[4] = " ".join(e)
    elif op == "GM":
        e = f[3].split()
        e[0] = str(int(e[0]) + 1)                     # wrong count of changed genes
        f[3] = " ".join(e)
    elif op == "AG":
        e = f[0].split()
        e[5] = str((int(e[5]) + 65536) % (1 << 32)) if rng.below(2) else str(int(e[5]) % 65536 + 1)
        if e[5] == e[4]:
            return None
        f[0] = " ".join(e)
    elif op == "DX":
        if rng.below(2):
            e = f[6].split()
            e[4] = str(int(e[4]) + 1)                 # age is not the maximum
            f[6] = " ".join(e)
        else:
            f[5] = " ".join(f[5].split()[:-1])        # a gene is missing
    elif op == "DC":
        slots = f[0][3:].split(" / ")
        g = f[1].split()
        j = rng.below(len(g))
        g[j] = str(d2b(max(b2d(int(x)) for x in slots[j].split()[1::2])))   # gene = open end of its interval
        f[1] = " ".join(g)
    elif op == "GS":
        f[7] = str(max(int(x) for x in (f[5] + " " + f[6]).split()) + 1)   # offspring older than every candidate parent
    elif op == "DS":
        f[8] = str(max(int(x) for x in f[7].split()) + 1)
    else:
        return None
    return " | ".join(f)


def run(chk, replay=None):
    rng = C.SplitMix(chk.seed)
    broken = []

    # ---- translator: the model is regenerated from the AST of the current tree -------------------------------
    gen = os.path.join(C.LEAN, "Vita", "C17", "Gen.lean")
    translated = False
    try:
        o, changed = translate_gade.emit(gen)
        translated = True
        chk.cov["translated"] = sorted(o)
        chk.cov["gen_changed_vs_committed"] = bool(changed)
    except Refuse as e:
        broken.append("translator tools/translate_gade.py refuses the current sources (the extracted model no longer "
                      "describes the code): %s" % e)

    ok, msg = chk.prove("Vita.C17.Props", ["Vita.C17.Props", "c17_driver"])
    drv_ok = True
    if not ok:
        broken.append("theorems of Vita.C17.Props no longer check against the generated terms: " + msg)
        drv_ok, out = C.lake_build(["c17_driver"])
        if not drv_ok:
            broken.append("c17_driver does not build: " + C.lean_errors(out))
    elif not translated:
        chk.discharged = 0

    try:
        exe = C.build_harness("c17_gade", "asan")
    except RuntimeError as e:
        chk.violation("the harness (which declares intervals through every public way: vita::range with same-type "
                      "and mixed-type arguments, std::pair, make_pair, …) no longer compiles against the library: "
                      + str(e)[-1500:], {"broken": "harness build"}, no_input=True)
        return chk.finish(level="proof", checker_cmd="(harness build failed)", rule="-")

    corpus = []
    cdir = os.path.join(C.ROOT, "corpus", "C17")
    if os.path.isdir(cdir):
        for f in sorted(os.listdir(cdir)):
            corpus += [ln.strip() for ln in open(os.path.join(cdir, f)) if ln.strip() and not ln.startswith("#")]
    if replay:
        r = json.load(open(replay))["replay"]["request"]
        reqs = [(r, meta_of(r))]
    else:
        reqs = [(r, meta_of(r)) for r in corpus] + gen_requests(rng, chk.tier)

    answers, deaths = C.run_lines(exe, [r for r, _ in reqs], timeout=1500)
    for idx, rc, se in deaths:
        chk.violation("harness died (rc=%d, sanitizer report or crash) on request `%s`\n%s"
                      % (rc, reqs[idx][0][:300], se[-1500:]),
                      {"request": reqs[idx][0]}, tags={"kind": reqs[idx][0].split()[0], "clause": "died"})

    steps = []          # (request index, fields, driver line)
    for i, a in enumerate(answers):
        if a.startswith(("died", "skipped")):
            continue
        if a.startswith(("bad-request", "exception")):
            broken.append("harness answered `%s` to `%s`" % (a[:200], reqs[i][0][:200]))
            continue
        pop = None
        for part in a.split(" ;; "):
            f = part.split(" | ")
            if f[0] == "POP":
                pop = ([x.strip() for x in f[1].split(";")], f[2].split(), f[3].split())
                continue
            steps.append((i, f, driver_line(reqs[i][1], f, pop), pop))

    controls = []
    for k in range(0, len(steps), 5):
        if steps[k][2] is not None:
            c = corrupt(steps[k][2], rng)
            if c is not None:
                controls.append(c)
    malformed = ["", "GC 1 2", "GX 0 1 | 1 | 2", "DX 1 2 3 | 1 | 2 | 3 | 4 | 5", "GC 0 x | 1 | 0", "ZZ 1 | 2",
                 "GM 0 9 | 1 | 1 | 0 0", "DC 1 | 2", "AG inc 0 1", "GS 0 1 | 1 | 2"]
    dlines = [s[2] for s in steps] + controls + malformed
    dout = C.run_driver("c17_driver", dlines) if drv_ok else ["n/a"] * len(dlines)
    if len(dout) != len(dlines):
        broken.append("driver answered %d lines for %d requests" % (len(dout), len(dlines)))

    found = []
    failed_requests = set()
    nanskips = 0
    at_lo = 0
    law_athi = 0
    fwidth = {"point": 0, "<=4ulp": 0, "wide": 0}
    for (i, f, dl, pop), d in zip(steps, dout):
        req, meta = reqs[i]
        op = f[0]
        chk.seen(dl)
        chk.count("op:" + op)
        bad = []
        size = 0
        if op == "AG":
            e = f[1].split()
            if e[0] == "load-failed":
                bad.append("load-failed")
            else:
                lived, obs = int(e[3]), int(e[4])
                size = 1
                mag = ("<2^8" if lived < 250 else "~2^8" if lived < 300 else "~2^16" if 65000 < lived < 66000 else
                       "~2^31" if abs(lived - (1 << 31)) < 100 else "~2^32" if lived > U32 - 100 else "other")
                chk.count("age_via_%s:%s" % (e[0], mag))
                if obs != lived:
                    bad.append("age-not-generations-lived")
        elif op in ("GC", "GM", "GX", "GS"):
            slots = meta["slots"]
            size = len(slots)
            chk.count("len:%s" % ("2-5" if size <= 5 else "6-20" if size <= 20 else "21-40"))
            if op == "GC":
                g = [int(x) for x in f[1].split()]
                for s in slots:
                    for w, _, _ in s:
                        chk.count("ga_declared_by:kind%d" % (w // 100))
                    if len(s) > 1:
                        chk.count("category_with_several_terminals")
                if not in_range(slots, g):
                    bad.append("range")
                if f[2] != "0":
                    bad.append("age")
            elif op == "GM":
                pre, post = [int(x) for x in f[1].split()], [int(x) for x in f[2].split()]
                ret, a0, a1 = [int(x) for x in f[3].split()]
                l0 = int(f[4])
                p = b2d(int(f[5]))
                chk.count("mut_p:%g" % p)
                if len(pre) != len(post):
                    bad.append("length")
                if not in_range(slots, post):
                    bad.append("range")
                if ret != sum(1 for x, y in zip(pre, post) if x != y):
                    bad.append("count")
                if a0 != l0 or a1 != l0:
                    bad.append("age")
                if p == 0.0 and pre != post:
                    bad.append("p0-changed")
                if ret:
                    chk.count("mut_changed")
            elif op == "GX":
                l, r, ch = ([int(x) for x in f[k].split()] for k in (1, 2, 3))
                ages = [int(x) for x in f[4].split()]
                lived = [int(x) for x in f[5].split()]
                bad += oracle_gx(l, r, ch, ages, lived)
                if not in_range(slots, ch):
                    bad.append("range")
                if l != r and ch != r:
                    chk.count("xo_visible_segment")
                if max(lived) > 65535:
                    chk.count("xo_parent_older_than_2^16")
            else:
                if f[1].startswith("wrong-number"):
                    bad.append("offspring-count")
                else:
                    ps = [int(x) for x in f[1].split()]
                    g, ages, lived = pop
                    off = [int(x) for x in f[2].split()]
                    age_off = int(f[3])
                    dc, dm = [int(x) for x in f[4].split()]
                    G = [[int(x) for x in y.split()] for y in g]
                    L = [int(x) for x in lived]
                    cands = [ps[1]] if len(ps) > 1 else list(range(len(G)))
                    chk.count("gs:%s" % ("crossover" if dc else "copy"))
                    chk.count("gs_parents:%d" % len(ps))
                    if not in_range(slots, off):
                        bad.append("range")
                    if meta["pc"] == 1.0 and dc == 0 or meta["pc"] == 0.0 and dc != 0:
                        bad.append("p_cross-extreme")
                    if meta["pm"] == 0.0 and dm != 0:
                        bad.append("p_mutation-zero")
                    if dc:
                        if dc != meta["brood"]:
                            bad.append("brood")
                        if not any(age_off == max(L[ps[0]], L[c]) and len(off) == len(G[c]) and
                                   (dm != 0 or segment_ok(G[ps[0]], G[c], off)) for c in cands):
                            bad.append("age" if not any(age_off == max(L[ps[0]], L[c]) for c in cands) else "segment")
                    else:
                        if not any(age_off == L[c] and len(off) == len(G[c]) and
                                   sum(1 for x, y in zip(G[c], off) if x != y) == dm for c in [ps[0]] + cands):
                            bad.append("copy-mutation")
        elif op == "DC":
            slots = meta["slots"]
            size = len(slots)
            g = [b2d(int(x)) for x in f[1].split()]
            for s in slots:
                for w, lo, hi in s:
                    chk.count("de_declared_by:kind%d" % (w // 100))
                    if (w // 10) % 10 != w % 10:
                        chk.count("de_mixed_type_endpoints")
                    if hi < 0 and hi != int(hi) and (w // 10) % 10 in (1, 2, 5, 6) and w // 100 in (0, 1, 5):
                        chk.count("vita::range(integral, negative fraction)")
                    if hi - lo == float("inf"):
                        chk.count("box_width_not_representable")
            if len(g) != len(slots) or not all(in_slot(s, x) for s, x in zip(slots, g)):
                bad.append("box")
            at_lo += sum(1 for s, x in zip(slots, g) if any(x == lo for _, lo, _ in s))
            if f[2] != "0":
                bad.append("age")
        elif op == "DX":
            p, (wlo, whi) = meta["p"], meta["w"]
            tg, a, b, c, tr = ([b2d(int(x)) for x in f[k].split()] for k in (1, 2, 3, 4, 5))
            ages = [int(x) for x in f[6].split()]
            lived = [int(x) for x in f[7].split()]
            size = len(tg)
            chk.count("de_p:%g" % p)
            chk.count("de_weight:[%g,%g)" % (wlo, whi))
            if ages[:4] != lived:
                bad.append("parent-age-not-generations-lived")
            if ages[4] != max(lived):
                bad.append("age")
            if not finite(tg + a + b + c + tr):
                nanskips += 1
            else:
                b2, Fs = de_form(p, wlo, whi, tg, a, b, c, tr)
                bad += b2
                if Fs:
                    w = key(Fs[1]) - key(Fs[0])
                    fwidth["point" if w == 0 else "<=4ulp" if w <= 4 else "wide"] += 1
                nm = sum(1 for x, y in zip(tr[:-1], tg[:-1]) if x != y)
                chk.count("de_mutant_positions:%s" % ("0" if nm == 0 else "some" if nm < size - 1 else "all"))
        elif op == "DS":
            if f[1].startswith("wrong-number"):
                bad.append("offspring-count")
            else:
                p, (wlo, whi) = meta["p"], meta["w"]
                ps = [int(x) for x in f[1].split()]
                g, ages, lived = pop
                G = [[b2d(int(x)) for x in y.split()] for y in g]
                L = [int(x) for x in lived]
                off = [b2d(int(x)) for x in f[2].split()]
                age_off = int(f[3])
                size = len(off)
                chk.count("ds_parents:%d" % len(ps))
                chk.count("ds_weight:[%g,%g)" % (wlo, whi))
                if [int(x) for x in ages] != L:
                    bad.append("parent-age-not-generations-lived")
                cands = [ps[1]] if len(ps) > 1 else list(range(len(G)))
                tg = G[ps[0]]
                okk = False
                sawnan = not finite(off)
                agematch = False
                for prune in (True, False):        # the pruning is only a shortcut: a failure is confirmed without it
                    for ia in cands:
                        for ib in range(len(G)):
                            for ic in range(len(G)):
                                if age_off != max(L[ps[0]], L[ia], L[ib], L[ic]):
                                    continue
                                agematch = True
                                if not finite(tg + G[ia] + G[ib] + G[ic] + off):
                                    sawnan = True
                                    continue
                                if prune and not plausible(wlo, whi, tg, G[ia], G[ib], G[ic], off):
                                    continue
                                b2, Fs = de_form(p, wlo, whi, tg, G[ia], G[ib], G[ic], off)
                                if not b2:
                                    okk = True
                                    break
                            if okk:
                                break
                        if okk:
                            break
                    if okk or sawnan:
                        break
                if sawnan and not okk:
                    nanskips += 1
                elif not okk:
                    bad.append("no-(a,b,c,F)-explains-the-offspring" if agematch else "age")
        elif op == "LW":
            lo, hi = (b2d(int(x)) for x in f[1].split())
            w = b2d(int(f[2]))
            size = 1
            if w != hi - lo:
                broken.append("IEEE: harness width differs from CPython's for %r" % ((lo, hi),))
            for row in f[3].split(" ; "):
                u, y, x = (b2d(int(v)) for v in row.split())
                same = lambda p_, q_: p_ == q_ or (p_ != p_ and q_ != q_)      # noqa: E731
                if not same(y, u * w) or not same(x, lo + y):
                    broken.append("IEEE: harness arithmetic differs from CPython's at %r u=%r" % ((lo, hi), u))
                if w != float("inf") and not (lo <= x <= hi and 0 <= y <= w):
                    bad.append("ieee-law")
                if x == hi:
                    law_athi += 1
        tags = {"kind": op, "clause": " ".join(bad)}
        if bad and i in failed_requests:
            pass            # a later step of a request whose history already left the property: a consequence
        elif bad:
            failed_requests.add(i)
            found.append((size, "%s: the observed execution breaks the property (%s) – request `%s`; step: %s"
                          % (op, " ".join(bad), req[:400], (dl or "")[:700]),
                          {"request": req, "step": dl, "oracle": bad, "driver": d}, tags))
        if d.startswith("ok"):
            if bad:
                broken.append("oracle reports %s but the Lean step relation accepts: %s" % (bad, (dl or "")[:300]))
        elif d == "nan":
            pass
        elif d != "n/a" and not bad:
            # the model's step relation rejects an execution on which the property itself (oracle) holds:
            # the model no longer describes the code – reported without a failing input
            if len(broken) < 5:
                broken.append("%s: observed execution rejected by the Lean step relation (%s) although the property "
                              "holds on it – request `%s`; step: %s" % (op, d, req[:300], (dl or "")[:500]))
        if len(chk.cov["samples"]) < 6 and 0 < size <= 4 and chk.evaluations % 11 == 0:
            chk.sample({"request": req[:200], "step": (dl or "")[:300], "driver": d})
    for _, what, rep, tags in sorted(found, key=lambda x: (x[0], x[1]))[:40]:
        chk.violation(what, rep, tags=tags)

    if drv_ok:
        base = len(steps)
        rej = sum(1 for d in dout[base:base + len(controls)] if d.startswith("bad"))
        chk.cov["negative_controls"] = {"sent": len(controls), "rejected": rej}
        if rej != len(controls):
            acc = [c for c, d in zip(controls, dout[base:base + len(controls)]) if not d.startswith("bad")]
            broken.append("the driver accepted %d corrupted steps (negative controls), e.g. %s"
                          % (len(controls) - rej, acc[0][:300]))
        mal = dout[base + len(controls):]
        chk.cov["malformed_lines"] = {"sent": len(malformed), "refused": sum(1 for d in mal if d.startswith("bad"))}
        if any(not d.startswith("bad") for d in mal):
            broken.append("the driver accepted a malformed line: %r" % (mal,))
    chk.cov["real_genes_at_lower_bound"] = at_lo
    chk.cov["ieee_law_rows_reaching_upper_bound_before_clamp"] = law_athi
    chk.cov["de_steps_skipped_nan_inf"] = nanskips
    chk.cov["de_admissible_F_interval"] = fwidth
    chk.cov["requests"] = len(reqs)

    if broken and not [v for v in chk.violations if not v[2]]:
        for b in broken[:6]:
            chk.violation(b, {"broken": b, "searched": "%d requests / %d observed executions: none violating the "
                              "property" % (len(reqs), len(steps))}, no_input=True)
    elif broken:
        chk.notes += broken[:10]
    chk.assumptions += [
        "IEEE-754 facts are hypotheses of the theorems (structure Rounding: monotone idempotent rounding, u <= umax < 1, "
        "absorbed product => exact width, nextafter inside the interval); instances are evaluated on hardware doubles "
        "by the `laws` requests and recomputed by the Lean driver and CPython",
        "std::uniform_int_distribution / bernoulli_distribution honour their range contracts (draws are arbitrary "
        "values of the range); libstdc++'s uniform_int algorithm itself: int_draw_in_range"]
    return chk.finish(
        level="proof",
        checker_cmd="python3 tools/translate_gade.py && lake build Vita.C17.Props c17_driver && lake env lean <#print "
                    "axioms for every theorem>",
        rule="one evaluation = one observed execution (i_ga(problem) / mutation / crossover / recombination::base::run / "
             "i_de(problem) / i_de::crossover / recombination::de::run / an age produced by inc_age or load / an IEEE law "
             "instance); distinct = distinct (operator, declared intervals, inputs, result); each is decided by the "
             "Lean driver against the intervals the request wrote and by the Python oracle",
        trusted=["Lean 4.33 kernel", "tools/translate_gade.py + clang-14 JSON AST (syntax only; refuses unknown shapes)",
                 "harness/c17_gade.cc (observation; declares intervals the way a user would)",
                 "int -> double -> int is the identity on 32-bit integers (number<int>::init returns terminal_param_t)",
                 "IEEE double arithmetic of the compiled Lean driver and of CPython equals that of g++ -O1 (no FMA "
                 "contraction; checked by the `laws` rows)", "g++ 12.2 ASan/UBSan"])
