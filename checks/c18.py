"""C18 — fitness comparison is a coherent order; dominance is a strict partial order.

translator (clang AST of the six relational operators of basic_fitness_t<double> and of
model_measurements::operator>= -> Vita/C18/GenOps.lean) + Lean proofs about the generated
definitions (Vita/C18/Props.lean) + differential run on 64-bit patterns of the generated
definitions / the hand-written model against the compiled operators + the property's own
oracle evaluated on the C++ answers: the law instances (trichotomy, >= <=> !<, transitivity,
dominance laws, selection winner) and an independent Python reference of the lexicographic
order and of the scalar definitions of the element-wise operations.
"""
import itertools
import json
import math
import os
import struct
import sys

from vlib import common as C

sys.path.insert(0, os.path.join(C.ROOT, "tools"))
import translate_fitness_ops  # noqa: E402
import fitness_users  # noqa: E402
from cxx2lean import Refuse  # noqa: E402

SIGN = 1 << 63
INF = 0x7FF0000000000000


def bits(x):
    return struct.unpack("<Q", struct.pack("<d", x))[0]


def dbl(b):
    return struct.unpack("<d", struct.pack("<Q", b))[0]


def is_nan(b):
    return (b & (SIGN - 1)) > INF


def table():
    """~40 boundary patterns: both zeros, denormals, around 1, rounding boundaries of round_to,
    2^52, 2^53, values whose products/sums overflow, +-max, +-inf."""
    pos = [0, 1, 0x000FFFFFFFFFFFFF, 0x0010000000000000, bits(1e-300), bits(5e-5), bits(1e-4),
           bits(0.5), bits(1.0) - 1, bits(1.0), bits(1.0) + 1, bits(1.5), bits(2.0), bits(2.5),
           bits(3.0), bits(2.0 ** 52), bits(2.0 ** 53), bits(1e300), 0x7FEFFFFFFFFFFFFE,
           0x7FEFFFFFFFFFFFFF, INF]
    return sorted(set(pos + [p | SIGN for p in pos]))



def build_header_only(name, extra_flags=()):
    """Compile harness/<name>.cc against the HEADERS of the working tree only (the code under
    test is header-only: no libvita.a needed, which saves the 28-file library build).  Cached
    by the hash of the source tree, the harness and the flags."""
    import hashlib
    import time
    out = os.path.join(C.BUILD, "asan")
    os.makedirs(out, exist_ok=True)
    src = os.path.join(C.ROOT, "harness", name + ".cc")
    exe = os.path.join(out, name)
    flags = C.cxx_flags("asan") + ["-I" + os.path.join(C.ROOT, "harness")] + list(extra_flags)
    h = hashlib.sha256()
    h.update(C.repo_tree_hash(" ".join(flags)).encode())
    for s in (src, os.path.join(C.ROOT, "harness", "common", "verif.h")):
        h.update(open(s, "rb").read())
    key = h.hexdigest()
    stamp = exe + ".stamp"
    if os.path.exists(exe) and os.path.exists(stamp) and open(stamp).read() == key:
        return exe
    t0 = time.time()
    rc, so, se = C.sh(["g++"] + flags + [src, "-o", exe])
    if rc != 0:
        raise RuntimeError("harness %s does not compile against the working tree:\n%s" % (name, se[-6000:]))
    with open(stamp, "w") as f:
        f.write(key)
    C.log("[build] harness %s (asan, header-only) built in %.1fs" % (name, time.time() - t0))
    return exe


# ---------------------------------------------------------------------------
# independent reference (Python floats are IEEE doubles)
# ---------------------------------------------------------------------------

def ref_lex_lt(a, b):
    fa, fb = [dbl(x) for x in a], [dbl(x) for x in b]
    for x, y in zip(fa, fb):
        if x < y:
            return True
        if y < x:
            return False
    return len(fa) < len(fb)


def ref_eq(a, b):
    return len(a) == len(b) and all(dbl(x) == dbl(y) for x, y in zip(a, b))


def ref_dom(a, b):
    """Pareto dominance for equal lengths; a non-empty vector dominates the empty one."""
    if len(a) == len(b):
        fa, fb = [dbl(x) for x in a], [dbl(x) for x in b]
        return all(x >= y for x, y in zip(fa, fb)) and any(x > y for x, y in zip(fa, fb))
    if not b:
        return bool(a)
    if not a:
        return False
    return None


def c_round(x):
    if math.isnan(x) or math.isinf(x) or abs(x) >= 2.0 ** 52:
        return x
    ax = abs(x)
    f = math.floor(ax)
    r = f + 1.0 if ax - f >= 0.5 else float(f)
    return math.copysign(r, x)


def fdiv(x, y):
    if math.isnan(x) or math.isnan(y):
        return math.nan
    if y == 0.0:
        if x == 0.0:
            return math.nan
        neg = (math.copysign(1.0, x) < 0) != (math.copysign(1.0, y) < 0)
        return -math.inf if neg else math.inf
    if math.isinf(x) and math.isinf(y):
        return math.nan
    return x / y


def fsqrt(x):
    if math.isnan(x) or x < 0:
        return math.nan
    return math.sqrt(x)


def fmt(x):
    return "nan" if math.isnan(x) else str(bits(x))


def fmtv(v):
    return " ".join(["v", str(len(v))] + [fmt(x) for x in v])


EPS2 = 2.0 * 2.0 ** -52


def ref_issmall(v):
    return math.fabs(v) < EPS2


def ref_aeq(v1, v2, e):
    """utility.h almost_equal on doubles, written from its documentation"""
    diff = math.fabs(v1 - v2)
    if ref_issmall(diff):
        return True
    v1, v2 = math.fabs(v1), math.fabs(v2)
    largest = v2 if v1 < v2 else v1            # std::max
    return diff <= largest * e


def ref_show(x):
    """what `std::ostream << double` writes with the default format (%g, precision 6)"""
    if math.isnan(x):
        return "-nan" if bits(x) & SIGN else "nan"
    return "%g" % x


def ref_value(cmd, a, b, s):
    """Scalar-definition oracle of the element-wise operations (a, b patterns; s scalar)."""
    fa = [dbl(x) for x in a]
    fb = [dbl(x) for x in b] if b is not None else None
    if cmd == "aeq":
        if len(fb) < len(fa):
            return "fault"
        return "r 1" if all(ref_aeq(x, y, dbl(s)) for x, y in zip(fa, fb)) else "r 0"
    if cmd == "isfinite":
        return "r 1" if all(not (math.isnan(x) or math.isinf(x)) for x in fa) else "r 0"
    if cmd == "isnan":
        return "r 1" if any(math.isnan(x) for x in fa) else "r 0"
    if cmd == "issmall":
        return "r 1" if all(ref_issmall(x) for x in fa) else "r 0"
    if cmd == "isnonneg":
        return "r 1" if all(x >= 0.0 for x in fa) else "r 0"
    if cmd == "show":
        return "t (" + ", ".join(ref_show(x) for x in fa) + ")"
    if cmd in ("add", "sub", "mul"):
        if len(fb) < len(fa):
            return "fault"
        f = {"add": lambda x, y: x + y, "sub": lambda x, y: x - y, "mul": lambda x, y: x * y}[cmd]
        return fmtv([f(x, y) for x, y in zip(fa, fb)])
    if cmd == "divs":
        return fmtv([fdiv(x, dbl(s)) for x in fa])
    if cmd == "muls":
        return fmtv([x * dbl(s) for x in fa])
    if cmd == "abs":
        return fmtv([math.fabs(x) for x in fa])
    if cmd == "sqrt":
        return fmtv([fsqrt(x) for x in fa])
    if cmd == "round":
        return fmtv([c_round(fdiv(x, 0.0001)) * 0.0001 for x in fa])
    if cmd == "combine":
        return fmtv(fa + fb)
    if cmd == "dist":
        if len(fb) < len(fa):
            return "fault"
        acc = 0.0
        for x, y in zip(fa, fb):
            acc = acc + math.fabs(x - y)
        return "s " + fmt(acc)
    return None


# ---------------------------------------------------------------------------
# line construction
# ---------------------------------------------------------------------------

def vtxt(v):
    return " ".join([str(len(v))] + [str(x) for x in v])


def rel_line(a, b):
    return "rel %s %s" % (vtxt(a), vtxt(b))


def same_dim(a, b):
    return len(a) == len(b) or not a or not b


class Gen:
    def __init__(self, rng, T):
        self.rng, self.T = rng, T

    def elem(self, nan_ok=False):
        r = self.rng
        k = r.below(10)
        if k < 6:
            return r.choice(self.T)
        if k < 9 or not nan_ok:
            while True:
                b = r.next()
                if not is_nan(b):
                    return b
        return r.choice([0x7FF8000000000000, 0xFFF8000000000000, 0x7FF0000000000001])

    def vec(self, maxlen=5, nan_ok=False):
        return tuple(self.elem(nan_ok) for _ in range(self.rng.below(maxlen + 1)))

    def mutate(self, a, nan_ok=False):
        """A vector related to `a`: shares a prefix, so that deep components decide."""
        r = self.rng
        k = r.below(8)
        a = list(a)
        if k == 0:
            return self.vec(5, nan_ok)
        if k == 1:
            return tuple(a)
        if k == 2:                                   # flip the sign of zeros: == must survive
            return tuple((x ^ SIGN) if (x & (SIGN - 1)) == 0 else x for x in a)
        if k == 3 and a:                             # truncate
            return tuple(a[:r.below(len(a))])
        if k == 4:                                   # extend
            return tuple(a + [self.elem(nan_ok) for _ in range(1 + r.below(2))])
        if a:                                        # change one component (often the last)
            i = len(a) - 1 if r.chance(0.5) else r.below(len(a))
            x = a[i]
            m = r.below(4)
            if m == 0:
                a[i] = self.elem(nan_ok)
            elif m == 1 and not is_nan(x + 1) and (x & (SIGN - 1)) < INF:
                a[i] = x + 1
            elif m == 2 and (x & (SIGN - 1)) > 0 and not is_nan(x - 1):
                a[i] = x - 1
            else:
                a[i] = x ^ SIGN
            return tuple(a)
        return self.vec(3, nan_ok)


# ---------------------------------------------------------------------------

def run(chk, replay=None):
    rng = C.SplitMix(chk.seed)
    T = table()
    chk.cov["boundary_values"] = len(T)
    gen = os.path.join(C.LEAN, "Vita", "C18", "GenOps.lean")
    broken = []
    table_txt = None
    try:
        tbl, changed = translate_fitness_ops.emit(gen)
        table_txt = ["%s := %s: %s" % p for p in tbl]
        chk.cov["derivation_table"] = table_txt
        chk.cov["gen_changed_vs_committed"] = bool(changed)
    except Refuse as e:
        broken.append("translator tools/translate_fitness_ops.py refuses the current fitness.tcc / utility.h / "
                      "model_measurements.h: %s" % e)

    # users of the order: call sites found by clang's AST matchers -> GenUsers.lean (theorem users_covered)
    try:
        us, rows, uchanged, ucached = fitness_users.emit(os.path.join(C.LEAN, "Vita", "C18", "GenUsers.lean"),
                                                         os.path.join(C.BUILD, "c18_users"))
        chk.cov["users"] = ["%s:%d %s uses %s on %s" % (u["file"], u["line"], u["fn"], u["callee"], u["kind"])
                            for u in us]
        chk.cov["users_changed_vs_committed"] = bool(uchanged)
        for u in us:
            chk.count("user:%s/%s" % (u["callee"], u["kind"]))
    except Refuse as e:
        broken.append("tools/fitness_users.py cannot extract the users of the fitness comparisons: %s" % e)

    drv_ok = False
    if table_txt is not None:
        ok, out = C.lake_build(["c18_driver"])
        drv_ok = ok
        if not ok:
            broken.append("driver does not build from the generated definitions: " + C.lean_errors(out))
        ok, msg = chk.prove("Vita.C18.Props", ["Vita.C18.Props"])
        if not ok:
            broken.append("theorems of Vita.C18.Props no longer check over the bodies regenerated from the AST "
                          "(before any sampling): " + msg)
    else:
        chk.obligations = max(chk.obligations, 1)

    exe = build_header_only("c18_fitness")

    # ---- inputs --------------------------------------------------------
    g = Gen(rng, T)
    lines, line_set = [], set()

    def add(ln):
        if ln not in line_set:
            line_set.add(ln)
            lines.append(ln)

    pairs = []        # (a, b) whose rel line is present
    triples = []      # random triples
    U = []
    if replay:
        r = json.load(open(replay))
        for ln in r["replay"].get("lines", []):
            add(ln)
    else:
        cdir = os.path.join(C.ROOT, "corpus", "C18")
        if os.path.isdir(cdir):
            for f in sorted(os.listdir(cdir)):
                for ln in open(os.path.join(cdir, f)):
                    ln = ln.strip()
                    if ln and not ln.startswith("#"):
                        add(ln)
                        chk.count("corpus_lines")
        # (1) scalars: every pair of the table (this is also the spot check of `KeyMono`)
        S1 = [(x,) for x in T]
        # (2) the structured universe: every vector of length 0..2 over 8 values, length 3 over 4
        m1, d1, one, inf = bits(-1.0), 1, bits(1.0), INF
        R8 = [inf | SIGN, m1, d1 | SIGN, SIGN, 0, d1, one, inf]
        R4 = [inf | SIGN, SIGN, 0, one]
        U = [()] + [(x,) for x in R8] + [(x, y) for x in R8 for y in R8] + \
            [(x, y, z) for x in R4 for y in R4 for z in R4]
        for a in S1:
            for b in S1:
                add(rel_line(a, b))
        for a in U:
            for b in U:
                add(rel_line(a, b))
        # (3) random related pairs and triples of differing lengths (NaN now and then: excluded stream)
        npairs = 30000 if chk.tier == "quick" else 400000
        ntrip = 20000 if chk.tier == "quick" else 300000
        for _ in range(npairs):
            nan_ok = rng.chance(0.03)
            a = g.vec(5, nan_ok)
            b = g.mutate(a, nan_ok)
            add(rel_line(a, b))
            add(rel_line(b, a))
        for _ in range(ntrip):
            a = g.vec(4)
            b = g.mutate(a)
            c = g.mutate(b if rng.chance(0.6) else a)
            if rng.chance(0.3):           # force one dimension (+ the empty vector) for the dominance laws
                n = len(a)
                b = tuple((list(b) + [g.elem() for _ in range(n)])[:n]) if b else b
                c = tuple((list(c) + [g.elem() for _ in range(n)])[:n]) if c else c
            triples.append((a, b, c))
            for x, y in ((a, b), (b, c), (a, c), (b, a), (c, b), (c, a)):
                add(rel_line(x, y))
        # (4) model_measurements >=
        for _ in range(4000 if chk.tier == "quick" else 40000):
            a = g.vec(3)
            b = g.mutate(a)
            add("mm %s %d %s %d" % (vtxt(a), g.elem(), vtxt(b), g.elem()))
        # (5) element-wise operations: table cross products on short vectors + random
        for x in T:
            for y in T:
                for cmd in ("add", "sub", "mul", "dist"):
                    add("%s 1 %d 1 %d" % (cmd, x, y))
                add("divs 1 %d %d" % (x, y))
                add("muls 1 %d %d" % (x, y))
            for cmd in ("abs", "sqrt", "round"):
                add("%s 1 %d" % (cmd, x))
        for _ in range(20000 if chk.tier == "quick" else 300000):
            cmd = rng.choice(["add", "sub", "mul", "dist", "combine", "divs", "muls", "abs", "sqrt", "round"])
            a = g.vec(5, rng.chance(0.05))
            if cmd in ("add", "sub", "mul", "dist"):
                k = rng.below(10)
                n = len(a) if k < 7 else (len(a) + 1 + rng.below(2) if k < 9 else rng.below(len(a) + 1))
                b = tuple(g.elem() for _ in range(n))
                add("%s %s %s" % (cmd, vtxt(a), vtxt(b)))
            elif cmd == "combine":
                add("%s %s %s" % (cmd, vtxt(a), vtxt(g.vec(4))))
            elif cmd in ("divs", "muls"):
                add("%s %s %d" % (cmd, vtxt(a), g.elem()))
            else:
                if cmd == "round" and rng.chance(0.5):      # values near the 1e-4 grid
                    a = tuple(bits((rng.between(-30000, 30000) + rng.choice([0.0, 0.5, 0.49999, 0.50001]))
                                   * 0.0001) for _ in range(len(a)))
                add("%s %s" % (cmd, vtxt(a)))
        # (6) almost_equal, the predicates and operator<<
        eps_vals = [bits(0.00001), bits(0.0), bits(0.5), bits(1.0), bits(1e-300), INF, bits(-0.00001)]
        small = [0, SIGN, 1, bits(2.0 ** -52), bits(2.0 ** -51), bits(2.0 ** -51) - 1, bits(2.0 ** -51) + 1,
                 bits(-2.0 ** -51), bits(4.4e-16), bits(1e-15)]
        for x in T + small:
            for cmd in ("isfinite", "isnan", "issmall", "isnonneg", "show"):
                add("%s 1 %d" % (cmd, x))
            for y in T + small:
                add("aeq 1 %d 1 %d %d" % (x, y, eps_vals[0]))
        add("show 0")
        for _ in range(15000 if chk.tier == "quick" else 200000):
            cmd = rng.choice(["aeq", "aeq", "isfinite", "isnan", "issmall", "isnonneg", "show"])
            a = g.vec(5, rng.chance(0.15))
            if cmd == "aeq":
                k = rng.below(10)
                if k < 5:                          # a neighbour of a: relative error around the tolerance
                    b = []
                    for x in a:
                        m = rng.below(5)
                        fx = dbl(x)
                        if m == 0 or is_nan(x) or math.isinf(fx):
                            b.append(x)
                        elif m == 1:
                            b.append(bits(fx * (1.0 + rng.choice([1e-5, 9e-6, 1.1e-5, -1e-5, 1e-9, 1e-3]))))
                        elif m == 2:
                            b.append(bits(fx + rng.choice([4e-16, 5e-16, -4.4e-16, 2.0 ** -51])))
                        elif m == 3:
                            b.append(x ^ SIGN if (x & (SIGN - 1)) == 0 else x + 1 if not is_nan(x + 1) else x)
                        else:
                            b.append(g.elem())
                    b = tuple(b)
                    if rng.chance(0.2):
                        b = b + (g.elem(),)
                elif k < 8:
                    b = tuple(g.elem(rng.chance(0.1)) for _ in range(len(a) + rng.below(2)))
                else:
                    b = tuple(g.elem() for _ in range(rng.below(len(a) + 1)))
                add("aeq %s %s %d" % (vtxt(a), vtxt(b), rng.choice(eps_vals)))
            else:
                if cmd == "issmall" and rng.chance(0.6):
                    a = tuple(rng.choice(small) for _ in range(len(a)))
                add("%s %s" % (cmd, vtxt(a)))
        # malformed requests: both sides must answer bad-op
        for ln in ("rel 2 1", "rel", "frob 1 2", "add 1 x 1 2", "rel 1 1 1 2 3", "mm 1 1 1 1", "aeq 1 1 1 1",
                   "show 2 1", "isnan"):
            add(ln)

    cpp, deaths = C.run_lines(exe, lines)
    for idx, rc, se in deaths:
        chk.violation("harness died (rc=%d) while evaluating: %s\n%s" % (rc, lines[idx], se[-1500:]),
                      {"lines": [lines[idx]]}, tags={"law": "died", "line": lines[idx]})
    lean = None
    if drv_ok:
        try:
            lean = C.run_driver("c18_driver", lines)
        except RuntimeError as e:
            broken.append("driver failed: %s" % e)

    # ---- per line: model vs code, reference oracle ----------------------
    rel = {}          # (a, b) -> 8 booleans from the C++ run
    ndis = 0
    for i, ln in enumerate(lines):
        if i >= len(cpp):
            break
        t = ln.split()
        cmd, c = t[0], cpp[i]
        l = lean[i] if lean is not None and i < len(lean) else None
        chk.seen(ln)
        chk.count("op:" + cmd)
        if c.startswith("died") or c == "skipped":
            continue
        excluded = (l == "nan")
        if cmd in ("rel", "mm") and c.startswith("r ") and l is None:
            # no model available: decide exclusion ourselves
            excluded = any(is_nan(int(x)) for x in t[1:] if x.isdigit())
        if excluded:
            chk.count("excluded_nan")
            continue
        if c == "bad-op":
            chk.count("bad-op")
            if l is not None and l != "bad-op":
                ndis += 1
                broken.append("model answers %r to the malformed request %r" % (l, ln))
            continue
        if cmd == "rel":
            xs = [int(x) for x in t[1:]]
            a = tuple(xs[1:1 + xs[0]])
            b = tuple(xs[2 + xs[0]:])
            r = tuple(ch == "1" for ch in c[2:])
            rel[(a, b)] = r
            chk.count("len:%d,%d" % (len(a), len(b)))
            chk.count("outcome:" + ("lt" if r[0] else "eq" if r[1] else "gt" if r[2] else "none"))
            if r[6] or r[7]:
                chk.count("dominance:yes")
            want = None
        elif cmd == "mm":
            xs = [int(x) for x in t[1:]]
            a = tuple(xs[1:1 + xs[0]])
            acc_a = xs[1 + xs[0]]
            rest = xs[2 + xs[0]:]
            b = tuple(rest[1:1 + rest[0]])
            acc_b = rest[1 + rest[0]]
            d = ref_dom(a, b)
            want = None
            if d is not None:
                want = "r 1" if (d and dbl(acc_a) >= dbl(acc_b)) else "r 0"
                if want == "r 1":
                    chk.count("mm:true")
        else:
            xs = t[1:]
            n = int(xs[0])
            a = [int(x) for x in xs[1:1 + n]]
            rest = xs[1 + n:]
            if cmd in ("add", "sub", "mul", "dist", "combine"):
                b = [int(x) for x in rest[1:]]
                want = ref_value(cmd, a, b, None)
            elif cmd == "aeq":
                m = int(rest[0])
                b = [int(x) for x in rest[1:1 + m]]
                want = ref_value(cmd, a, b, int(rest[1 + m]))
                if want == "r 1":
                    chk.count("aeq:true")
            elif cmd in ("divs", "muls"):
                want = ref_value(cmd, a, None, int(rest[0]))
            else:
                want = ref_value(cmd, a, None, None)
            if cmd == "show" and l is not None and l.startswith("t "):
                # the model prints `#bits` where the code prints a double through the stream
                import re as _re
                l = _re.sub(r"#(\d+)", lambda mo: ref_show(dbl(int(mo.group(1)))), l)
            if cmd == "aeq" and c == "fault" and l == "r 0":
                l = "fault"          # an earlier pair already differs: the model need not read past the end
            if "nan" in c:
                chk.count("result_has_nan")
            if c == "fault":
                chk.count("contract_fault")
        if want is not None and c != want:
            what = ("model_measurements operator>= differs from dominance-and-accuracy" if cmd == "mm" else
                    "%s disagrees with its scalar definition" % cmd)
            chk.violation("%s on `%s`: code %r, scalar definition %r" % (what, ln, c, want),
                          {"lines": [ln], "cpp": c, "expected": want}, tags={"law": "scalar:" + cmd, "line": ln})
        if l is not None and l != c:
            ndis += 1
            if ndis <= 5 and (cmd == "rel" or want is None or c == want):
                broken.append("model disagrees with compiled code on `%s`: model %r, code %r" % (ln, l, c))
        if i % 4999 == 0:
            chk.sample({"line": ln, "cpp": c, "model": l})
    chk.cov["model_vs_code_disagreements"] = ndis

    # ---- the property's own oracle on the C++ answers: law instances ----
    LT, EQ, GT, GE, LE, NE, DAB, DBA = range(8)
    nlaw = 0

    def viol(law, vs, msg):
        ls = [rel_line(x, y) for x in vs for y in vs]
        chk.violation("%s violated by the compiled operators: %s; vectors (bit patterns) %s = %s"
                      % (law, msg, [list(v) for v in vs], [[dbl(x) for x in v] for v in vs]),
                      {"lines": ls, "law": law, "vectors": [list(v) for v in vs]},
                      tags={"law": law, "vectors": json.dumps([list(v) for v in vs])})

    for (a, b), r in rel.items():
        nlaw += 1
        if [r[LT], r[EQ], r[GT]].count(True) != 1:
            viol("lex_trichotomy", (a, b), "a<b=%s a==b=%s a>b=%s" % (r[LT], r[EQ], r[GT]))
        if r[GE] != (not r[LT]):
            viol("ge_iff_not_lt", (a, b), "a>=b=%s a<b=%s" % (r[GE], r[LT]))
        if r[LE] != (not r[GT]):
            viol("le_iff_not_gt", (a, b), "a<=b=%s a>b=%s" % (r[LE], r[GT]))
        if r[NE] != (not r[EQ]):
            viol("ne_iff_not_eq", (a, b), "a!=b=%s a==b=%s" % (r[NE], r[EQ]))
        if r[LT] != ref_lex_lt(a, b):
            viol("lt_is_lex", (a, b), "a<b=%s, lexicographic order says %s" % (r[LT], not r[LT]))
        if r[GT] != ref_lex_lt(b, a):
            viol("gt_is_lex", (a, b), "a>b=%s, lexicographic order says %s" % (r[GT], not r[GT]))
        if r[EQ] != ref_eq(a, b):
            viol("eq_is_lex", (a, b), "a==b=%s, component-wise equality says %s" % (r[EQ], not r[EQ]))
        back = rel.get((b, a))
        if back is not None and (r[GT] != back[LT] or r[DAB] != back[DBA]):
            viol("gt_iff_lt_swap", (a, b), "a>b=%s but b<a=%s" % (r[GT], back[LT]))
        if a == b and r[DAB]:
            viol("dom_irrefl", (a,), "a dominates itself")
        if same_dim(a, b):
            chk.count("same_dim_pairs")
            if r[DAB] and r[DBA]:
                viol("dom_asymm", (a, b), "each dominates the other")
            if r[DAB] and not r[GT]:
                viol("dom_imp_lex_gt", (a, b), "a dominates b but !(a>b)")
            d = ref_dom(a, b)
            if d is not None and r[DAB] != d:
                viol("dom_is_pareto" if a and b else "nonempty_dom_empty", (a, b),
                     "dominating(a,b)=%s, definition says %s" % (r[DAB], d))

    def tri(a, b, c):
        ab, bc, ac = rel.get((a, b)), rel.get((b, c)), rel.get((a, c))
        if ab is None or bc is None or ac is None:
            return 0
        if ab[LT] and bc[LT] and not ac[LT]:
            viol("lt_trans", (a, b, c), "a<b, b<c but !(a<c)")
        if ab[GT] and bc[GT] and not ac[GT]:
            viol("gt_trans", (a, b, c), "a>b, b>c but !(a>c)")
        if ab[GE] and bc[GE] and not ac[GE]:
            viol("ge_trans", (a, b, c), "a>=b, b>=c but !(a>=c)")
        if ab[EQ] and bc[EQ] and not ac[EQ]:
            viol("eq_trans", (a, b, c), "a==b, b==c but !(a==c)")
        if ab[DAB] and bc[DAB] and same_dim(a, b) and same_dim(b, c) and not ac[DAB]:
            viol("dom_trans", (a, b, c), "a dominates b, b dominates c, a does not dominate c")
        return 1

    ntri = 0
    if not replay:
        S1 = [(x,) for x in T]
        for a in S1:
            for b in S1:
                for c in S1:
                    ntri += tri(a, b, c)
        if chk.tier == "thorough":
            for a in U:
                for b in U:
                    for c in U:
                        ntri += tri(a, b, c)
        else:
            for _ in range(400000):
                ntri += tri(rng.choice(U), rng.choice(U), rng.choice(U))
        for a, b, c in triples:
            for p in itertools.permutations((a, b, c)):
                ntri += tri(*p)
        # selection: the winner of a fold with `>` does not depend on the order of the candidates
        nwin = 0
        for _ in range(20000 if chk.tier == "quick" else 200000):
            cand = [rng.choice(U) for _ in range(2 + rng.below(5))]
            perm = list(cand)
            for j in range(len(perm) - 1, 0, -1):
                k = rng.below(j + 1)
                perm[j], perm[k] = perm[k], perm[j]

            def win(l):
                best = l[0]
                for y in l[1:]:
                    r = rel.get((y, best))
                    if r is None:               # the harness died on this pair (reported above)
                        return None
                    if r[GT]:
                        best = y
                return best
            w1, w2 = win(cand), win(perm)
            if w1 is None or w2 is None or (w1, w2) not in rel:
                chk.count("winner_skipped_harness_died")
                continue
            nwin += 1
            if not rel[(w1, w2)][EQ]:
                viol("winner_order_indep", tuple(dict.fromkeys(cand)),
                     "winner %s for order %s, winner %s for order %s" % (list(w1), cand, list(w2), perm))
        chk.count("winner_instances", nwin)
    else:
        vs = sorted({v for k in rel for v in k})
        for a in vs:
            for b in vs:
                for c in vs:
                    ntri += tri(a, b, c)
    chk.count("pair_law_instances", nlaw)
    chk.count("triple_law_instances", ntri)

    # smallest failing inputs first (finish() reports the first five)
    chk.violations.sort(key=lambda v: (v[2], 0 if isinstance(v[1], dict) and 'law' in v[1] else 1,
                                       len(json.dumps(v[1], default=str))))
    if broken and not [v for v in chk.violations if not v[2]]:
        for b in broken[:4]:
            chk.violation(b, {"broken": b, "searched": "%d requests (table cross products, structured universe, "
                              "random related vectors) with the law and reference oracles on the C++ answers: "
                              "no failing input" % len(lines)}, no_input=True)
    elif broken:
        chk.notes += broken[:6]
    return chk.finish(
        level="proof",
        checker_cmd="lake build Vita.C18.Props && lake env lean <#print axioms for every theorem>",
        rule="requests: all pairs of %d boundary scalars; all pairs of %d structured vectors (lengths 0..3); "
             "random related pairs/triples of lengths 0..5; element-wise operations, almost_equal, the predicates "
             "and operator<< on table cross products and random vectors.  distinct = distinct request lines; each "
             "is answered by the compiled vita functions and by the Lean terms generated from the BODIES in the "
             "AST (loop language of Loop.lean), and the C++ answers are checked against the law instances and an "
             "independent Python reference" % (len(T), len(U)),
        trusted=["Lean 4.33 kernel", "tools/translate_fitness_ops.py + cxx2lean.py (clang-14 JSON AST -> bodies as "
                 "terms of the loop language; refuses unknown shapes)", "Vita/C18/Loop.lean: meaning of the loop "
                 "combinators (forIdx, rd, wr, call) and of the library algorithms the bodies call "
                 "(std::lexicographical_compare, std::equal, all_of/any_of, inner_product, max, memcmp, copy into "
                 "infix_iterator; operator[] / size / begin / end / insert-at-end / reserve of the containers), tied by "
                 "the differential run", "tools/fitness_users.py (clang-query-14 AST matchers) and "
                 "tools/tu/fitness_users_tu.cc (which templates are instantiated)", "law KeyMono: IEEE-754 comparison "
                 "of non-NaN doubles = comparison of dkey; a > b is b < a, a >= b is b <= a, a != b is !(a == b) "
                 "(spot-checked on all table pairs + random patterns each run)", "g++ 12.2 / ASan+UBSan build",
                 "Python floats / '%g' as IEEE doubles and the default ostream format (reference oracle)"])
