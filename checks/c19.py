"""C19 — exported source code denotes the same expression as the program.

translators (clang AST of every display() -> Vita/C19/GenTemplates.lean; of the print-format enums,
the out:: manipulators, operator<<(i_mep) and operator<<(team) -> Vita/C19/GenExport.lean) + Lean
proofs over the extracted tables (Vita/C19/Props.lean) + correspondence on generated GENOMES x four
formats (a program is handed to vita as the matrix genome_(row, category): several active genes per
row, one gene referenced from several parents / argument positions, chains, inactive loci filled with
random valid genes, equal symbols shared between genes):

  * the text printed by the real `out::X_language << i_mep` equals the Lean model of language()
    reading genes by LOCUS (sequential replace_all, outer parentheses stripped); the model's own
    unfolding of the genome equals the generator's tree; is_valid() = wfRows;
  * the Lean executable parser applied to vita's text returns the program's tree (every
    function node = its template's tree with each hole replaced by the complete argument tree);
  * independent oracles (no Lean involved): the text equals a Python simultaneous substitution
    into the *compiled* display() strings; clang's AST of the C / C++ text equals clang's AST of
    the fully parenthesised substitution (ParenExpr removed); Python's `ast` likewise;
    gcc compiles the C text (batched) and the compiled expression returns, bit for bit, what
    `vita::run` returns on every input vector (programs whose constants print exactly);
  * teams: `out::X_language << team<i_mep>` = the members' texts, one per line (Python and the
    extracted team loop run by the model);
  * stream histories: after any sequence of manipulators / prints / fresh streams a print shows the
    format of the last format manipulator (Python last-wins oracle) and the flag / callee the Lean
    stream model predicts.
"""
import ast as pyast
from fractions import Fraction
import concurrent.futures as cf
import json
import math
import os
import re
import struct
import sys
import time

from vlib import common as C

sys.path.insert(0, os.path.join(C.ROOT, "tools"))
import translate_templates  # noqa: E402
from cxx2lean import Refuse  # noqa: E402

FMT = ["c", "cpp", "mql", "python"]
DOMS = ["R", "S", "I", "B"]
CTYPE = {"R": "double", "S": "const char*", "I": "int", "B": "int"}
VARS = [("X1", "R"), ("X2", "R"), ("X3", "R"), ("S1", "S"), ("S2", "S"), ("I1", "I"), ("I2", "I"), ("B1", "B")]
MARK = re.compile(r"%%(\d)%%")
WORK = os.path.join(C.BUILD, "c19")


def hx(b):
    if isinstance(b, str):
        b = b.encode("latin1")
    return b.hex() if b else "-"


def unhx(h):
    return b"" if h == "-" else bytes.fromhex(h)


def dbits(x):
    return struct.unpack("<Q", struct.pack("<d", x))[0]


def bitsd(u):
    return struct.unpack("<d", struct.pack("<Q", u))[0]


# ---------------------------------------------------------------------------------------------
# adversarial texts: every character that is special in SOME substitution / pattern mechanism
# (regex patterns, regex / sed / printf / format replacement strings, vita's own placeholders), alone
# and in the combinations that form escapes
# ---------------------------------------------------------------------------------------------

SPECIAL_CHARS = list("$&\\^.*+?()[]{}|%'`\"") + ["#", "@", "~", "/", "<", ">", "=", "!", ";", ":", ",", "-", "_"]
ESCAPES = ["$1", "$&", "$$", "$`", "$'", "$0", "$2", "$9", "$10", "$11", "$99", "${1}", "$<a>", "$+", "$_", "$",
           "\\1", "\\0", "\\\\", "\\&", "\\$", "\\n", "\\g<1>", "\\",
           "%%", "%1", "%1%", "%%1", "1%%", "%%1%", "%1%%", "%%%", "%%%%", "%s", "%d", "%n", "%", "%%a%%", "%% 1%%",
           "&", "&&", "&amp;", "{0}", "{}", "#{x}", "(?:", "[^", ".*", "^$", "a|b", "x{2}", "(", ")", "[", "]", "??/",
           "/*", "*/", "//", "'", "`", "''"]
MARKERS = ["%%1%%", "%%2%%", "%%3%%", "%%4%%", "%%9%%"]
FILLERS = ["a", "K", "50", "x y", "R", "D", "abc", "<", "0", "1", "S1", " "]
KNOWN_BAD = re.compile(r'["\\\n]|%%\d%%')       # the classes of the two known findings on string constants


def adv_string(rng, safe):
    """a text built from escape combinations, special characters and fillers.  safe = outside the classes of the
       known findings (no double quote, backslash, newline, complete %%k%% marker)"""
    for _ in range(50):
        parts = []
        for _ in range(rng.between(1, 5)):
            x = rng.below(100)
            if x < 50:
                parts.append(rng.choice(ESCAPES))
            elif x < 72:
                parts.append(rng.choice(SPECIAL_CHARS))
            elif x < 77 and not safe:
                parts.append(rng.choice(MARKERS))
            else:
                parts.append(rng.choice(FILLERS))
        out = "".join(parts)
        if safe and KNOWN_BAD.search(out):
            continue
        return out
    return "$1"


def adv_name(rng):
    """a variable name from the same alphabet (no blank-only / empty names, no quote, backslash, newline or complete
       marker: those are the string-constant findings); mostly NOT an identifier"""
    for _ in range(50):
        n = adv_string(rng, True)
        if rng.chance(0.5):
            n = rng.choice(["x", "V", "_t", "p1", "Abc"]) + n
        if rng.chance(0.3):
            n = n + rng.choice(["x", "9", "_"])
        if n.strip() and not n.startswith(" ") and not n.endswith(" ") and "\n" not in n:
            return n
    return "x$1"


IDENT = re.compile(r"^[A-Za-z_][A-Za-z0-9_]*$")
SPECIAL_CLASSES = [("$digit", re.compile(r"\$\d")), ("$&", re.compile(r"\$&")), ("$$", re.compile(r"\$\$")),
                   ("$`", re.compile(r"\$`")), ("$'", re.compile(r"\$'")), ("$other", re.compile(r"\$(?![\d&$`'])")),
                   ("\\digit", re.compile(r"\\\d")), ("\\other", re.compile(r"\\(?!\d)")),
                   ("%%", re.compile(r"%%")), ("%digit", re.compile(r"%\d")), ("%other", re.compile(r"%(?![%\d])")),
                   ("marker", re.compile(r"%%\d%%")), ("&", re.compile(r"&")), ("^", re.compile(r"\^")),
                   (".", re.compile(r"\.")), ("*", re.compile(r"\*")), ("+", re.compile(r"\+")), ("?", re.compile(r"\?")),
                   ("()", re.compile(r"[()]")), ("[]", re.compile(r"[\[\]]")), ("{}", re.compile(r"[{}]")),
                   ("|", re.compile(r"\|")), ("'", re.compile(r"'")), ("`", re.compile(r"`")), ('"', re.compile(r'"'))]


def special_classes(text):
    return [k for k, rx in SPECIAL_CLASSES if rx.search(text)]


def is_custom_var(t):
    """a variable whose name is not the name of the harness input it reads (the C oracles declare only those)"""
    return t[0] == "T" and t[1] == "var" and (t[2][1] >= len(VARS) or VARS[t[2][1]][0] != t[2][0])


def has_custom_names(t):
    return any(is_custom_var(tm) for tm in terminals_of(t))


def names_class(t):
    """do the variable names of the program contain one that is not an identifier"""
    return "nonident" if any(tm[1] == "var" and not IDENT.match(tm[2][0]) for tm in terminals_of(t)) else "none"


def repl_triples(rng, nrandom):
    """(s, from, to) for the direct differential of vita::replace_all"""
    out = []
    tos = ESCAPES + MARKERS + [c for c in SPECIAL_CHARS] + ["", "x", "yx", "xy", "%%1%%x", "x%%1%%", "%%1%%%%1%%",
                                                         'the "to"', "a\nb", "\x00", "\xff$1"]
    froms = ["%%1%%", "%%2%%", "x", ".", "$", "a.c", "(", "[a-z]", "\\", "aa", "%", "%%", "^a", "a*", "$1", "a|b", ""]
    for to in tos:
        for frm in froms:
            if frm in ("%%1%%", "%%2%%") or rng.chance(0.35):
                f = frm or "q"
                ss = ["(" + f + "+" + f + ")", f, f + f + f, "a" + f[:-1] + f + f[1:] + "b", "no occurrence",
                      f[:-1], "", f + "$&" + f, "%" + f + "%", "abcabc", "aaaaa", "a.c abc a|b [a-z] ^a a*"]
                out.append((rng.choice(ss), frm, to))
                out.append((rng.choice(ss), frm, to))
    alph = list("ab%$&\\.1(")
    for _ in range(nrandom):
        frm = "".join(rng.choice(alph) for _ in range(rng.between(1, 5))) if rng.chance(0.7) else \
            rng.choice(["%%1%%", "%%3%%", "aa", "aba", ".", "$", "%%"])
        to = adv_string(rng, False) if rng.chance(0.7) else \
            "".join(rng.choice(alph + [frm]) for _ in range(rng.between(0, 4)))
        parts = []
        for _ in range(rng.between(0, 8)):
            x = rng.below(10)
            parts.append(frm if x < 4 else frm[:rng.below(len(frm) + 1)] if x < 6 else frm[rng.below(len(frm)):]
                         if x < 7 else rng.choice(alph) if x < 9 else adv_string(rng, False))
        out.append(("".join(parts), frm, to))
    return out


# ---------------------------------------------------------------------------------------------
# symbols and typed program generation
# ---------------------------------------------------------------------------------------------

def dom0_of(key):
    if key == "real::length":
        return ["S"]
    if key == "str::ife":
        return ["S", "S", "S", "R", "I", "B"]      # SIFE compares any two values; mostly strings
    ns = key.split("::")[0]
    return {"real": ["R"], "integer": ["I"], "boolean": ["B"]}[ns]


def dom1_of(key):
    if key in ("real::gt", "real::lt"):
        return ["B", "B", "I"]
    if key == "real::length":
        return ["R"]
    return DOMS


class Sym:
    def __init__(self, fields):
        (self.key, self.kind, name, arity, res, sig, par, c, cpp, mql, py) = fields
        self.name = unhx(name).decode("latin1")
        self.arity = int(arity)
        self.res = 0 if res == "10" else 1
        self.sig = [] if sig == "-" else [0 if s == "10" else 1 for s in sig.split(",")]
        self.parametric = par == "P"
        self.tpl = [unhx(x).decode("latin1") for x in (c, cpp, mql, py)]
        self.ncats = 1 + max([self.res] + self.sig)


def node_count(t):
    return 1 + (sum(node_count(k) for k in t[3]) if t[0] == "F" else 0)


def depth(t):
    return 1 + (max(depth(k) for k in t[3]) if t[0] == "F" else 0)


def symbols_of(t, acc=None):
    acc = [] if acc is None else acc
    acc.append(t[1])
    if t[0] == "F":
        for k in t[3]:
            symbols_of(k, acc)
    return acc


def terminals_of(t, acc=None):
    acc = [] if acc is None else acc
    if t[0] == "T":
        acc.append(t)
    else:
        for k in t[3]:
            terminals_of(k, acc)
    return acc


class Gen:
    """typed random programs; a tree is ('F', key, (d0, d1), [kids]) or ('T', kind, payload, dom)"""

    def __init__(self, rng, syms, exact):
        self.rng, self.syms, self.exact = rng, syms, exact
        self.funcs = [s for s in syms.values() if s.kind == "F"]
        self._prod, self._prodw = {}, {}

    # -- terminals --------------------------------------------------------------------------
    def real_value(self, sign=None):
        r = self.rng
        if self.exact or r.chance(0.6):
            k = r.choice([0, 1, 2, 3, 5, 32, 64, 65, 96, 100, 128, 640, 6400, 12345, 64000])
            v = k / 64.0
        else:
            v = r.choice([0.1, 1e-7, 123456.789, 2.5e-7, 0.0078125, 1e15, 3.14159265358979, 0.9999995,
                          1.0 / 3, 4.9e-324, 1e22])
        if sign is None:
            sign = r.chance(0.4)
        return -v if sign else v

    def term_kinds(self, dom):
        return {"R": ["real+", "real-", "rint+", "rint-", "cd+", "cd-", "var"],
                "S": ["cs", "var"],
                "I": ["num+", "num-", "ci+", "ci-", "var"],
                "B": ["zero", "one", "var"]}[dom]

    def terminal(self, dom, kind=None):
        r = self.rng
        kind = kind or r.choice(self.term_kinds(dom))
        if kind == "var":
            vs = [(n, i) for i, (n, d) in enumerate(VARS) if d == dom]
            n, i = r.choice(vs)
            return ("T", "var", (n, i), dom)
        if kind in ("real+", "real-"):
            return ("T", "real::real", dbits(self.real_value(kind == "real-")), dom)
        if kind in ("rint+", "rint-"):
            v = float(r.choice([0, 1, 2, 7, 100, 127]))
            if kind == "rint-" and v == 0:
                v = 3.0           # static_cast<int>(-0.0) prints 0: the ERC never holds -0.0
            return ("T", "real::integer", dbits(-v if kind == "rint-" else v), dom)
        if kind in ("cd+", "cd-"):
            v = abs(self.real_value(False))
            if not self.exact and r.chance(0.3):
                txt = r.choice(["0.1", "2.50", "1e3", "12.5", "0.000001", ".5"])
            else:
                txt = ("%.8f" % v).rstrip("0")
                if txt.endswith("."):
                    txt += "0"
            return ("T", "const:d", ("-" if kind == "cd-" else "") + txt, dom)
        if kind in ("num+", "num-"):
            v = float(r.choice([0, 1, 2, 3, 31, 32, 100, 127, 65536, 2147483647]))
            return ("T", "integer::number", dbits(-v if kind == "num-" else v), dom)
        if kind in ("ci+", "ci-"):
            v = r.choice([0, 1, 2, 5, 31, 33, 1000, 46341, 2147483647])
            return ("T", "const:i", ("-" if kind == "ci-" else "") + str(v), dom)
        if kind == "cs" and r.chance(0.3):
            return ("T", "const:s", adv_string(r, r.chance(0.85)), dom)
        if kind == "cs":
            return ("T", "const:s", r.choice(["abc", "", "a b", "x", "hello world", "(a)", "1+2", "A,B", "it's", "100%", "a%b%%"
                                                ]) if not r.chance(0.3) else r.choice(["abc", "abd", "S1"]), dom)
        if kind == "zero":
            return ("T", "boolean::zero", None, dom)
        if kind == "one":
            return ("T", "boolean::one", None, dom)
        raise ValueError(kind)

    # -- functions --------------------------------------------------------------------------
    def producers(self, dom):
        """[(sym, d0, d1)] of functions whose result domain can be `dom`"""
        if dom not in self._prod:
            self._prod[dom] = self._producers(dom)
        return self._prod[dom]

    def producers_within(self, dom, doms):
        """the producers of `dom` whose categories all belong to `doms`"""
        key = (dom, frozenset(doms))
        if key not in self._prodw:
            ds = key[1]
            self._prodw[key] = [(s, d0, d1) for (s, d0, d1) in self.producers(dom)
                                if d0 in ds and d1 in ds and all(d in ds for d in self.arg_doms(s, d0, d1))]
        return self._prodw[key]

    def _producers(self, dom):
        out = []
        for s in self.funcs:
            for d0 in sorted(set(dom0_of(s.key))):
                if s.ncats == 1:
                    if d0 == dom:
                        out.append((s, d0, d0))
                else:
                    for d1 in sorted(set(dom1_of(s.key))):
                        if (d1 if s.res == 1 else d0) == dom:
                            out.append((s, d0, d1))
        return out

    def arg_doms(self, s, d0, d1):
        return [d1 if c == 1 else d0 for c in s.sig]

    def tree(self, dom, depth_left, pfun=0.7):
        r = self.rng
        if depth_left <= 0 or not r.chance(pfun):
            return self.terminal(dom)
        ps = self.producers(dom)
        if not ps:
            return self.terminal(dom)
        s, d0, d1 = r.choice(ps)
        if s.key == "str::ife":
            d0 = r.choice(dom0_of(s.key))
        kids = [self.tree(d, depth_left - 1, pfun) for d in self.arg_doms(s, d0, d1)]
        return ("F", s.key, (d0, d1), kids)

    def apply(self, s, d0, d1, fixed):
        """node for (s, d0, d1) with the kids given in `fixed` {pos: tree}, others small random"""
        kids = []
        for i, d in enumerate(self.arg_doms(s, d0, d1)):
            kids.append(fixed[i] if i in fixed else self.tree(d, 1, 0.35))
        return ("F", s.key, (d0, d1), kids)


def tree_dom(t):
    if t[0] == "T":
        return t[3]
    return None


def result_dom(syms, t):
    if t[0] == "T":
        return t[3]
    s = syms[t[1]]
    return t[2][1] if (s.ncats == 2 and s.res == 1) else t[2][0]


# ---------------------------------------------------------------------------------------------
# genomes: a program is handed to vita as the matrix genome_(row, category) of an i_mep
# ---------------------------------------------------------------------------------------------

class TooBig(Exception):
    pass


class Genome:
    """n rows x len(doms) categories; doms[c] = domain of category c (doms[0] = domain of the best
       locus [0,0]); cells[(r, c)] = ('T', kind, payload, dom) | ('F', key, (d0, d1), [arg rows])"""

    def __init__(self, n, doms, cells):
        self.n, self.doms, self.cells = n, list(doms), cells

    def to_json(self):
        return {"n": self.n, "doms": self.doms,
                "cells": [[r, c, list_gene(g)] for (r, c), g in sorted(self.cells.items())]}

    @staticmethod
    def from_json(o):
        return Genome(o["n"], o["doms"], {(r, c): tuple_gene(g) for r, c, g in o["cells"]})


def list_gene(g):
    if g[0] == "T":
        return ["T", g[1], list(g[2]) if isinstance(g[2], tuple) else g[2], g[3]]
    return ["F", g[1], list(g[2]), list(g[3])]


def tuple_gene(g):
    if g[0] == "T":
        return ("T", g[1], tuple(g[2]) if isinstance(g[2], list) else g[2], g[3])
    return ("F", g[1], tuple(g[2]), list(g[3]))


def arg_loci(gen, G, g):
    """g.locus_of_argument(i): (args[i], arg_category(i))"""
    cm = {d: i for i, d in enumerate(G.doms)}
    s = gen.syms[g[1]]
    return [(a, cm[d]) for a, d in zip(g[3], gen.arg_doms(s, g[2][0], g[2][1]))]


def unfold(gen, G, r=0, c=0, budget=None):
    """the program as a tree, unfolded from locus [r,c] (the generator's own unfolding: the oracles
       work on this tree; the Lean model unfolds the genome itself and the two are compared)"""
    count = [0]

    def go(r, c):
        count[0] += 1
        if budget is not None and count[0] > budget:
            raise TooBig()
        g = G.cells[(r, c)]
        if g[0] == "T":
            return g
        return ("F", g[1], g[2], [go(a, ac) for a, ac in arg_loci(gen, G, g)])

    return go(r, c)


def genome_stats(gen, G):
    """active loci, references per locus, rows holding several active genes"""
    refs, order, stack = {(0, 0): 0}, [], [(0, 0)]
    while stack:
        l = stack.pop()
        order.append(l)
        g = G.cells[l]
        if g[0] == "F":
            for al in arg_loci(gen, G, g):
                if al not in refs:
                    refs[al] = 0
                    stack.append(al)
                refs[al] += 1
    rows = {}
    for (r, c) in refs:
        rows.setdefault(r, set()).add(c)
    # a locus referenced from two argument positions of ONE gene
    twice = 0
    for l in refs:
        g = G.cells[l]
        if g[0] == "F":
            al = arg_loci(gen, G, g)
            if len(set(al)) < len(al):
                twice += 1
    return {"active": len(refs), "shared_rows": sum(1 for v in rows.values() if len(v) > 1),
            "max_in_row": max(len(v) for v in rows.values()),
            "shared_genes": sum(1 for v in refs.values() if v > 1), "max_refs": max(list(refs.values()) + [1]),
            "same_gene_twice_in_one_parent": twice}


def junk_gene(gen, rng, doms, dom, r, n):
    """an inactive gene of domain `dom` for row r of an n-row genome (valid: arguments in later rows)"""
    if r < n - 1 and rng.chance(0.55):
        ps = gen.producers_within(dom, doms)
        if ps:
            s, d0, d1 = rng.choice(ps)
            return ("F", s.key, (d0, d1), [rng.between(r + 1, n) for _ in range(s.arity)])
    return gen.terminal(dom)


def used_doms(syms, t, acc=None):
    acc = set() if acc is None else acc
    acc.add(result_dom(syms, t))
    if t[0] == "F":
        acc.add(t[2][0])
        acc.add(t[2][1])
        for k in t[3]:
            used_doms(syms, k, acc)
    return acc


LAYOUT_MODES = ["chain", "packed", "packed", "spread"]
SHARE_MODES = ["none", "all", "all", "some"]


def layout(gen, rng, t, mode=None, share=None):
    """place the program `t` into a genome.
       mode : chain  = one active gene per row (what i_mep(vector<gene>) builds)
              packed = every gene in the first free locus below its parents: genes of different
                       categories share rows
              spread = packed with random gaps
       share: none = every occurrence of a sub-expression gets its own gene
              all  = equal sub-expressions (same category) are ONE gene referenced from every parent
                     and argument position (the genome is a DAG)
              some = coin per occurrence
       inactive loci are filled with valid random genes"""
    syms = gen.syms
    mode = mode or rng.choice(LAYOUT_MODES)
    share = share or rng.choice(SHARE_MODES)
    root_dom = result_dom(syms, t)
    others = sorted(used_doms(syms, t) - {root_dom})
    for i in range(len(others) - 1, 0, -1):          # Fisher-Yates
        j = rng.below(i + 1)
        others[i], others[j] = others[j], others[i]
    doms = [root_dom] + others
    if len(doms) < 4 and rng.chance(0.15):
        doms.append(rng.choice([d for d in DOMS if d not in doms]))   # a category no active gene uses
    cm = {d: i for i, d in enumerate(doms)}

    nodes, memo = [], {}          # node = [gene-without-rows, dom, kid ids]

    def build(n):
        dom = result_dom(syms, n)
        if n[0] == "T":
            key, kids = n, []
        else:
            kids = [build(k) for k in n[3]]
            key = ("F", n[1], n[2], tuple(kids))
        if key in memo and share != "none" and (share == "all" or rng.chance(0.5)):
            return memo[key]
        nodes.append([n, dom, kids])
        memo[key] = len(nodes) - 1
        return len(nodes) - 1

    root = build(t)
    level = [0] * len(nodes)
    parents = [[] for _ in nodes]
    for i in range(len(nodes) - 1, -1, -1):          # a parent has a larger id than its kids
        for k in nodes[i][2]:
            level[k] = max(level[k], level[i] + 1)
            parents[k].append(i)
    order = sorted(range(len(nodes)), key=lambda i: (level[i], rng.next()))
    row, taken, nextrow = {}, set(), 0
    for i in order:
        r = 0 if i == root else 1 + max(row[p] for p in parents[i])
        c = cm[nodes[i][1]]
        if mode == "chain":
            r = max(r, nextrow)
        else:
            if mode == "spread" and i != root:
                r += rng.below(3)
            while (r, c) in taken:
                r += 1
        row[i] = r
        taken.add((r, c))
        nextrow = max(nextrow, r + 1)
    n = nextrow + rng.below(3)
    cells = {}
    for i, (nd, dom, kids) in enumerate(nodes):
        cells[(row[i], cm[dom])] = nd if nd[0] == "T" else ("F", nd[1], nd[2], [row[k] for k in kids])
    for r in range(n):
        for c, d in enumerate(doms):
            if (r, c) not in cells:
                cells[(r, c)] = junk_gene(gen, rng, doms, d, r, n)
    G = Genome(n, doms, cells)
    return G, mode, share


def random_genome(gen, rng, n, doms, pfun=0.7):
    """a genome filled the way vita fills one: every locus a random gene of its category, functions
       point to later rows, the last row holds terminals"""
    cells = {}
    for r in range(n):
        for c, d in enumerate(doms):
            g = None
            if r < n - 1 and (r == 0 and c == 0 or rng.chance(pfun)):
                ps = gen.producers_within(d, doms)
                if ps:
                    s, d0, d1 = rng.choice(ps)
                    g = ("F", s.key, (d0, d1), [rng.between(r + 1, n) for _ in range(s.arity)])
            cells[(r, c)] = g or gen.terminal(d)
    return Genome(n, doms, cells)


def show_genome(gen, G):
    """the active genes, in the style of vita's out::list"""
    act, stack = set(), [(0, 0)]
    while stack:
        l = stack.pop()
        if l in act:
            continue
        act.add(l)
        if G.cells[l][0] == "F":
            stack += arg_loci(gen, G, G.cells[l])
    out = []
    for l in sorted(act):
        g = G.cells[l]
        if g[0] == "T":
            out.append("[%d,%d] %s" % (l[0], l[1], show(g)))
        else:
            out.append("[%d,%d] %s %s" % (l[0], l[1], g[1], " ".join("[%d,%d]" % al for al in arg_loci(gen, G, g))))
    return "; ".join(out)


STREAM_KINDS = ["list", "dump", "inline", "tree", "graphviz"]
STREAM_REF = " ".join("%s print" % k for k in STREAM_KINDS) + " long " + " ".join("%s print" % k for k in STREAM_KINDS)
STREAM_TOKENS = ["c", "cpp", "mql", "py"] * 3 + STREAM_KINDS + ["long", "short", "print", "print", "print", "fresh"] + \
                ["pf%d" % i for i in range(9)]


def stream_ops(rng):
    ops = [rng.choice(STREAM_TOKENS) for _ in range(rng.between(2, 14))]
    return ops + ["print"]


def term_kind_of(t):
    """the terminal kind (as in Gen.term_kinds) of a terminal node"""
    k = t[1]
    if k == "var":
        return "var"
    sg = "-" if neg_term(t) else "+"
    return {"real::real": "real" + sg, "real::integer": "rint" + sg, "const:d": "cd" + sg,
            "integer::number": "num" + sg, "const:i": "ci" + sg, "const:s": "cs",
            "boolean::zero": "zero", "boolean::one": "one"}[k]


# ---------------------------------------------------------------------------------------------
# encodings for the harness and the driver
# ---------------------------------------------------------------------------------------------

def cat_map(root_dom):
    order = [root_dom] + [d for d in DOMS if d != root_dom]
    return {d: i for i, d in enumerate(order)}


def term_key(t):
    k = t[1]
    if k == "var":
        return "var:%s:%d" % (hx(t[2][0]), t[2][1])
    if k.startswith("const:"):
        return "%s:%s" % (k, hx(t[2]))
    return k


def term_bits(t):
    k = t[1]
    if k in ("real::real", "real::integer", "integer::number"):
        return t[2]
    if k == "const:d":
        return dbits(float(t[2]))
    if k == "const:i":
        return dbits(float(int(t[2])))
    return 0


def harness_gene(syms, cm, g):
    if g[0] == "T":
        return "%s %d %d 0" % (term_key(g), cm[g[3]], term_bits(g))
    s = syms[g[1]]
    cats = [cm[g[2][0]]] + ([cm[g[2][1]]] if s.ncats == 2 else [])
    return "%s %s 0 %d %s" % (g[1], ",".join(map(str, cats)), len(g[3]), " ".join(map(str, g[3])))


def harness_line(syms, G, inputs):
    cm = {d: i for i, d in enumerate(G.doms)}
    genes = [harness_gene(syms, cm, G.cells[(r, c)]) for r in range(G.n) for c in range(len(G.doms))]
    line = "genome %d %d %s %d" % (G.n, len(G.doms), " ".join(genes), len(inputs))
    for ex in inputs:
        line += " %d %s" % (len(ex), " ".join(ex))
    return line


TERM_MODEL_KEY = {"real::real": "real::real", "real::integer": "real::integer", "integer::number": "integer::number",
                  "const:d": "constant<double>", "const:i": "constant<int>", "const:s": "constant<std::string>",
                  "var": "variable", "boolean::zero": "boolean::zero", "boolean::one": "boolean::one"}


def driver_tree(t, fidx, tidx):
    if t[0] == "T":
        k = t[1]
        text = t[2][0] if k == "var" else (t[2] if k == "const:s" else "")
        return "T %d %s %d" % (tidx[TERM_MODEL_KEY[k]], hx(text), term_bits(t))
    return "F %d %d %s" % (fidx[t[1]], len(t[3]), " ".join(driver_tree(k, fidx, tidx) for k in t[3]))


def driver_genome(gen, G, fidx, tidx):
    out = ["%d %d" % (G.n, len(G.doms))]
    for r in range(G.n):
        for c in range(len(G.doms)):
            g = G.cells[(r, c)]
            if g[0] == "T":
                out.append(driver_tree(g, fidx, tidx))
            else:
                al = arg_loci(gen, G, g)
                out.append("F %d %d %s" % (fidx[g[1]], len(al), " ".join("%d %d" % (ac, a) for a, ac in al)))
    return " ".join(out)


# ---------------------------------------------------------------------------------------------
# Python-side oracle of the rendering (compiled display() strings, simultaneous substitution)
# ---------------------------------------------------------------------------------------------

def term_text(t, f):
    s = term_display(t, f)
    return "(" + s + ")" if s.startswith("-") else s      # language(): negative literals in parentheses


def term_display(t, f):
    k = t[1]
    if k == "var":
        return t[2][0]
    if k in ("real::real", "integer::number"):
        return "%f" % bitsd(t[2])
    if k == "real::integer":
        return "%d.0" % int(bitsd(t[2]))
    if k == "const:d":
        return "%f" % float(t[2])
    if k == "const:i":
        return "%d" % int(t[2])
    if k == "const:s":
        return '"' + t[2] + '"'
    if k == "boolean::zero":
        return ["0", "false", "0", "False"][f]
    if k == "boolean::one":
        return ["1", "true", "1", "True"][f]
    raise ValueError(k)


def oracle_text(syms, t, f, paren, top=True, terms=None, override=None):
    """simultaneous substitution; paren=True wraps every argument in parentheses"""
    if t[0] == "T":
        out = term_text(t, f)
        if top and not paren and len(out) > 2 and out[0] == "(" and out[-1] == ")":
            out = out[1:-1]
        return out
    tpl = None
    if override and t[1] in override:
        tpl = override[t[1]](t) if callable(override[t[1]]) else override[t[1]]
    if tpl is None:
        tpl = syms[t[1]].tpl[f]
    ks = [oracle_text(syms, k, f, paren, False, terms, override) for k in t[3]]

    def rep(m):
        i = int(m.group(1))
        if 1 <= i <= len(ks):
            return "(" + ks[i - 1] + ")" if paren else ks[i - 1]
        return m.group(0)

    out = MARK.sub(rep, tpl)
    if top and not paren and len(out) > 2 and out[0] == "(" and out[-1] == ")":
        out = out[1:-1]
    return out


def oracle_text_seq(syms, t, f, top=True):
    """the algorithm of language() itself, independently of Lean: display(), then for i = 1..arity
       replace_all("%%i%%", text of argument i) one after the other; outer parentheses stripped"""
    if t[0] == "T":
        out = term_text(t, f)
    else:
        out = syms[t[1]].tpl[f]
        for i, k in enumerate(t[3]):
            out = out.replace("%%" + str(i + 1) + "%%", oracle_text_seq(syms, k, f, False))
    if top and len(out) > 2 and out[0] == "(" and out[-1] == ")":
        out = out[1:-1]
    return out


# ---------------------------------------------------------------------------------------------
# gcc / clang oracles
# ---------------------------------------------------------------------------------------------

C_PRELUDE = r"""
#include <math.h>
#include <float.h>
#include <string.h>
#include <stdio.h>
#include <stdint.h>
#include <limits.h>
#include <stdlib.h>
/* the helper functions the default NAME(a,b) templates of the integer primitives assume:
   the documented saturating / guarded semantics of kernel/gp/src/primitive/int.h */
static int ADD(int a,int b){long long r=(long long)a+b;return r>INT_MAX?INT_MAX:r<INT_MIN?INT_MIN:(int)r;}
static int SUB(int a,int b){long long r=(long long)a-b;return r>INT_MAX?INT_MAX:r<INT_MIN?INT_MIN:(int)r;}
static int MUL(int a,int b){long long r=(long long)a*b;return r>INT_MAX?INT_MAX:r<INT_MIN?INT_MIN:(int)r;}
static int DIV(int a,int b){return (b==0||(a==INT_MIN&&b==-1))?a:a/b;}
static int MOD(int a,int b){return (b==0||(a==INT_MIN&&b==-1))?b:a%b;}
static int SHL(int a,int b){return (a<0||b<0||b>=32||a>(INT_MAX>>b))?a:(int)((unsigned)a<<b);}
#define IFE(a,b,c,d) ((a)==(b)?(c):(d))
#define IFL(a,b,c,d) ((a)<(b)?(c):(d))
#define IFZ(a,b,c) ((a)==0?(b):(c))
static void pd(double d){uint64_t u;memcpy(&u,&d,8);printf(" d:%llu",(unsigned long long)u);}
static void pi(int i){printf(" i:%d",i);}
static void ps(const char*s){printf(" s:");if(!*s)printf("-");for(;*s;++s)printf("%02x",(unsigned char)*s);}
static double ud(uint64_t u){double d;memcpy(&d,&u,8);return d;}
/* the interpreter's own formula of FSIGMOID (real.h): used only to attribute a value mismatch */
static double vc19_sig(double x){ if (x >= 0.0) return 1.0 / (1.0 + exp(-x)); return exp(x) / (1.0 + exp(x)); }
/* AQ with the square computed by a correctly rounded operation (glibc's pow(y,2.0) is within 1 ulp, not correctly
   rounded): used only to attribute a value mismatch to the accuracy of libm */
static double vc19_aq(double x,double y){ return x / sqrt(1.0 + y * y); }
"""

CPP_PRELUDE = r"""
#include <cmath>
#include <cfloat>
#include <cstring>
#include <string>
#include <limits>
#include <climits>
static int ADD(int a,int b){return a+b;}
static int SUB(int a,int b){return a-b;}
static int MUL(int a,int b){return a*b;}
static int DIV(int a,int b){return a/b;}
static int MOD(int a,int b){return a%b;}
static int SHL(int a,int b){return a<<b;}
template<class A,class B,class C,class D> auto IFE(A a,B b,C c,D d) -> decltype(true ? c : d) {return a==b?c:d;}
template<class A,class B,class C,class D> auto IFL(A a,B b,C c,D d) -> decltype(true ? c : d) {return a<b?c:d;}
static int IFZ(int a,int b,int c){return a==0?b:c;}
"""

PARAMS = ", ".join("%s %s" % (CTYPE[d], n) for n, d in VARS)


def c_function(i, dom, text):
    return "static %s vc19_%d(%s) { return %s ; }" % (CTYPE[dom], i, PARAMS, text)


class OracleTimeout(Exception):
    pass


def sh_retry(cmd, timeout):
    """C.sh with one retry; a second timeout (overloaded machine) raises OracleTimeout"""
    for attempt in range(2):
        try:
            return C.sh(cmd, timeout=timeout)
        except Exception as e:  # subprocess.TimeoutExpired
            if "TimeoutExpired" not in type(e).__name__:
                raise
    raise OracleTimeout(" ".join(cmd[:2]))


def compile_and_run(tag, progs, inputs_of, cc="gcc"):
    """progs: [(id, root dom, c text)].  Returns (values {id: [str]}, compile_errors {id: msg}).
       cc = "gcc" (the value oracle) | "clang" (second opinion on a mismatch)"""
    os.makedirs(WORK, exist_ok=True)
    errors = {}
    live = list(progs)
    for attempt in range(6):
        if not live:
            return {}, errors
        src = os.path.join(WORK, "%s.c" % tag)
        exe = os.path.join(WORK, "%s.exe" % tag)
        lines = [C_PRELUDE.rstrip("\n")]
        first_line = C_PRELUDE.rstrip("\n").count("\n") + 2
        line_of = {}
        for k, (pid, dom, text) in enumerate(live):
            line_of[first_line + k] = pid
            lines.append(c_function(pid, dom, text.replace("\n", " ")))
        main = ["int main(int argc, char **argv){ int start = argc > 1 ? atoi(argv[1]) : 0; setvbuf(stdout, 0, _IOLBF, 0);"]
        pre = []
        for k, (pid, dom, text) in enumerate(live):
            ins = inputs_of[pid]
            main.append('if (%d >= start) { printf("%d");' % (k, pid))
            for j, ex in enumerate(ins):
                args = []
                for (n, d), v in zip(VARS, ex):
                    if d == "R":
                        args.append("ud(%dULL)" % int(v[2:]))
                    elif d == "S":
                        args.append("sb_%d_%d_%s" % (pid, j, n))
                        pre.append("static char sb_%d_%d_%s[] = {%s0};" %
                                   (pid, j, n, "".join("%d," % b for b in unhx(v[2:]))))
                    else:
                        args.append(v[2:])
                fn = {"R": "pd", "S": "ps", "I": "pi", "B": "pi"}[dom]
                main.append("%s(vc19_%d(%s));" % (fn, pid, ", ".join(args)))
            main.append('printf("\\n"); }')
        main.append("return 0;}")
        with open(src, "w") as f:
            f.write("\n".join(lines) + "\n" + "\n".join(pre) + "\n" + "\n".join(main) + "\n")
        rc, so, se = sh_retry((["gcc", "-fmax-errors=0"] if cc == "gcc" else ["clang-14", "-ferror-limit=0"]) +
                              ["-std=gnu11", "-O0", "-w", "-fno-builtin", "-ffp-contract=off", src, "-o", exe, "-lm"], 1200)
        if rc == 0:
            vals, start = {}, 0
            order = [p[0] for p in live]
            for _ in range(60):
                rc2, so2, se2 = sh_retry([exe, str(start)], 900)
                done = 0
                for ln in so2.splitlines():
                    t = ln.split()
                    if t:
                        vals[int(t[0])] = t[1:]
                        done += 1
                if rc2 == 0:
                    break
                # the program after the last complete line died (SIGFPE = integer division by zero, ...)
                complete = so2.count("\n")
                culprit = start + complete
                if culprit >= len(order):
                    break
                vals.pop(order[culprit], None)
                errors[order[culprit]] = "the compiled expression died with signal %d" % (-rc2)
                start = culprit + 1
            return vals, errors
        badl, pending = {}, None
        for m in re.finditer(r"%s:(\d+):\d+: (error|note): ([^\n]*)" % re.escape(src), se):
            ln = int(m.group(1))
            if m.group(2) == "error":
                pending = None
                if ln in line_of:
                    badl.setdefault(line_of[ln], m.group(3))
                else:
                    pending = m.group(3)       # inside a helper macro of the prelude: the use follows as a note
            elif pending is not None and ln in line_of and "in expansion of macro" in m.group(3):
                badl.setdefault(line_of[ln], pending)
                pending = None
        if not badl:
            for pid, _, _ in live:
                errors[pid] = "gcc failed, no attributable line: " + se[-300:]
            return {}, errors
        errors.update(badl)
        live = [p for p in live if p[0] not in badl]
    return {}, errors


DUMP_HEAD = re.compile(r"^Dumping (vc19_\d+):")
NODE = re.compile(r"^([|` -]*)([A-Za-z]+)\b(.*)$")


def clang_trees(tag, lang, progs):
    """progs: [(id, dom, text)] -> {id: normalised AST of the return expression (ParenExpr removed)}
       or {id: 'error: ...'}"""
    os.makedirs(WORK, exist_ok=True)
    ext = "c" if lang == "c" else "cc"
    src = os.path.join(WORK, "%s.%s" % (tag, ext))
    with open(src, "w") as f:
        f.write(C_PRELUDE if lang == "c" else CPP_PRELUDE)
        for pid, dom, text in progs:
            if lang == "c":
                f.write(c_function(pid, dom, text.replace("\n", " ")) + "\n")
            else:
                f.write("static auto vc19_%d(%s) { return %s ; }\n" % (pid, PARAMS, text.replace("\n", " ")))
    cmd = (["clang-14", "-std=gnu11"] if lang == "c" else ["clang++-14", "-std=c++17"]) + \
          ["-w", "-fsyntax-only", "-ferror-limit=0", "-fbracket-depth=2048", "-Xclang", "-ast-dump", "-Xclang",
           "-ast-dump-filter=vc19_", src]
    rc, so, se = sh_retry(cmd, 1200)
    out, cur, rows = {}, None, []

    def flush():
        if cur is not None:
            out[cur] = normalise(rows)

    for ln in so.splitlines():
        m = DUMP_HEAD.match(ln)
        if m:
            flush()
            cur, rows = int(m.group(1)[5:]), []
        elif cur is not None and ln.strip():
            rows.append(ln)
    flush()
    first = (C_PRELUDE if lang == "c" else CPP_PRELUDE).count("\n") + 1
    for m in re.finditer(r"%s:(\d+):\d+: error: ([^\n]*)" % re.escape(src), se):
        k = int(m.group(1)) - first
        if 0 <= k < len(progs):
            out[progs[k][0]] = "error: " + m.group(2)
    return out


def normalise(rows):
    """list of (depth, kind, detail) of the ReturnStmt subtree with ParenExpr nodes spliced out"""
    nodes, started, base = [], False, 0
    drop = []                       # depths of removed ParenExpr ancestors
    for ln in rows:
        m = NODE.match(ln)
        if not m:
            continue
        d = len(m.group(1)) // 2
        kind, rest = m.group(2), m.group(3)
        if not started:
            if kind == "ReturnStmt":
                started, base = True, d
            continue
        if d <= base:
            break
        while drop and drop[-1] >= d:
            drop.pop()
        if kind == "ParenExpr":
            drop.append(d)
            continue
        rest = re.sub(r"0x[0-9a-f]+", "", rest)
        q = rest.find("'")
        head, tail = (rest, "") if q < 0 else (rest[:q], rest[q:])
        head = re.sub(r"<.*>", "", head)            # source locations (types / cast kinds come after the first quote)
        head = re.sub(r"\b(?:line|col):\d+(?::\d+)?", "", head)
        rest = head + tail
        nodes.append((d - len(drop), kind, " ".join(rest.split())))
    return nodes


def py_tree(text):
    try:
        return pyast.dump(pyast.parse(text, mode="eval"))
    except SyntaxError as e:
        return "error: %s" % (e.msg,)
    except Exception as e:  # noqa: BLE001
        return "error: %r" % (e,)


# ---------------------------------------------------------------------------------------------
# inputs
# ---------------------------------------------------------------------------------------------

def input_vectors(rng, n):
    out = []
    strs = ["abc", "abd", "", "hello", "x y", "abc"]
    for j in range(n):
        ex = []
        same = rng.chance(0.5)
        s1 = rng.choice(strs)
        for name, d in VARS:
            if d == "R":
                ex.append("d:%d" % dbits(rng.choice([0, 1, -1, 2, 3, -3, 5, 8, -8, 16, 100, -100, 7, 12, 40]) / 8.0
                                         if j else {"X1": 0.5, "X2": -2.0, "X3": 3.25}[name]))
            elif d == "S":
                ex.append("s:" + hx(s1 if (same or name == "S1") else rng.choice(strs)))
            elif d == "I":
                ex.append("i:%d" % rng.choice([0, 1, -1, 2, 7, -7, 31, 32, 1000, 65536, 2147483647, -2147483648]))
            else:
                ex.append("i:%d" % rng.below(2))
        out.append(ex)
    return out


# ---------------------------------------------------------------------------------------------
# the check
# ---------------------------------------------------------------------------------------------

def sclass(s, cls):
    if '"' in s:
        cls.add("quote")
    if "\\" in s:
        cls.add("backslash")
    if re.search(r"%%\d%%", s):
        cls.add("marker")
    if "\n" in s:
        cls.add("newline")


def str_class(t):
    """which troublesome characters do the string constants of the program contain"""
    cls = set()
    for tm in terminals_of(t):
        if tm[1] == "const:s":
            sclass(tm[2], cls)
    return "+".join(sorted(cls)) or "none"


def show(t):
    if t[0] == "T":
        k = t[1]
        if k == "var":
            return t[2][0]
        if k in ("real::real", "real::integer", "integer::number"):
            return "%s(%r)" % (k, bitsd(t[2]))
        if k.startswith("const:"):
            return "%s(%r)" % (k, t[2])
        return k
    return "%s[%s%s](%s)" % (t[1], t[2][0], t[2][1], ", ".join(show(k) for k in t[3]))


def run(chk, replay=None):
    rng = C.SplitMix(chk.seed)
    quick = chk.tier == "quick"
    phases, t_last = {}, [time.time()]

    def phase(name):
        now = time.time()
        phases[name] = round(phases.get(name, 0) + now - t_last[0], 1)
        t_last[0] = now
    gen_path = os.path.join(C.LEAN, "Vita", "C19", "GenTemplates.lean")
    broken = []
    table_ok = False
    try:
        fs, ts, changed = translate_templates.emit(gen_path)
        chk.cov["translated_functions"] = len(fs)
        chk.cov["translated_terminals"] = len(ts)
        chk.cov["gen_changed_vs_committed"] = bool(changed)
        table_ok = True
    except Refuse as e:
        broken.append("translator tools/translate_templates.py refuses the current sources: %s" % e)
    export = None
    try:
        export, changed2 = translate_templates.emit_export(os.path.join(C.LEAN, "Vita", "C19", "GenExport.lean"))
        chk.cov["translated_manipulators"] = len(export["manipulators"])
        chk.cov["gen_export_changed_vs_committed"] = bool(changed2)
    except Refuse as e:
        broken.append("translator tools/translate_templates.py refuses the print-format machinery "
                      "(individual.cc / i_mep.cc / team.tcc): %s" % e)

    repl_ok = False
    try:
        rx, changed3 = translate_templates.emit_replace(os.path.join(C.LEAN, "Vita", "C19", "GenReplace.lean"))
        chk.cov["translated_replace_all"] = {"std_string_members_called": rx["calls"], "locals": rx["locals"]}
        chk.cov["gen_replace_changed_vs_committed"] = bool(changed3)
        repl_ok = True
    except Refuse as e:
        broken.append("translator tools/translate_templates.py refuses the body of vita::replace_all "
                      "(src/utility/utility.cc): %s" % e)

    drv_ok = False
    if table_ok:
        ok, out = C.lake_build(["c19_driver"])
        drv_ok = ok
        if not ok:
            broken.append("driver does not build from the generated table: " + C.lean_errors(out))
        ok, msg = chk.prove("Vita.C19.Props", ["Vita.C19.Props"])
        if not ok:
            broken.append("theorems of Vita.C19.Props no longer check over the extracted table: " + msg)

    phase("translate+lake+audit")
    exe = C.build_harness("c19_lang", "asan")
    rc, so, se = C.run_harness(exe, inp="syms\n")
    if rc != 0 or not so.strip():
        raise RuntimeError("harness syms failed: " + se[-1000:])
    syms = {}
    for e in so.split():
        s = Sym(e.split("|"))
        syms[s.key] = s

    # ---- table cross-check: extracted templates == compiled display() ------------------------
    fidx, tidx = {}, {}
    if drv_ok:
        tab = C.run_driver("c19_driver", ["tables"])[0].split()
        fi = ti = 0
        model_f = {}
        for e in tab:
            p = e.split("|")
            if p[0] == "F":
                fidx[p[1]] = fi
                fi += 1
                model_f[p[1]] = (int(p[2]), [unhx(x).decode("latin1") for x in p[4:8]])
            else:
                tidx[p[1]] = ti
                ti += 1
        hf = {k: s for k, s in syms.items() if s.kind == "F"}
        if set(model_f) != set(hf):
            broken.append("symbol sets differ: sources (AST) have %s, the harness instantiates %s" %
                          (sorted(set(model_f) - set(hf)), sorted(set(hf) - set(model_f))))
        for k in sorted(set(model_f) & set(hf)):
            if model_f[k][0] != hf[k].arity or model_f[k][1] != hf[k].tpl:
                broken.append("extracted table disagrees with the compiled display() of %s: %r vs %r" %
                              (k, model_f[k], (hf[k].arity, hf[k].tpl)))
        chk.count("table_templates_crosschecked", 4 * len(set(model_f) & set(hf)))
        for k in TERM_MODEL_KEY.values():
            if k not in tidx:
                broken.append("terminal class %s missing from the extracted table" % k)
                drv_ok = False

    phase("build vita+harness")
    # ---- vita::replace_all itself: real code vs literal substitution (Python) vs the Lean model vs the
    #      extracted body run by the Lean semantics of std::string ----------------------------------------
    repl_replay = None
    if replay:
        repl_replay = json.load(open(replay)).get("replay", {}).get("repl")
    triples = [tuple(unhx(h).decode("latin1") for h in repl_replay)] if repl_replay else \
        ([] if replay else repl_triples(rng, 1500 if quick else 20000))
    repl_fails = []
    if triples:
        rl = ["repl %s %s %s" % (hx(a), hx(b), hx(c)) for a, b, c in triples]
        ra, rdeaths = C.run_lines(exe, rl)
        rm = C.run_driver("c19_driver", rl) if drv_ok else [None] * len(rl)
        for (a, b, c), got, mod in zip(triples, ra, rm):
            want = a.replace(b, c) if b else a          # literal, leftmost, non-overlapping, inserted text not rescanned
            chk.count("replace_all_triples")
            chk.count("replace_all_occurrences:%s" % (min(a.count(b), 3) if b else "empty-pattern"))
            for k in special_classes(c):
                chk.count("replace_all_to_contains:" + k)
            if any(ch in b for ch in ".^$|()[]{}*+?\\"):
                chk.count("replace_all_from_has_regex_metacharacters")
            if b and b in c:
                chk.count("replace_all_to_contains_from")
            if got.startswith(("died", "skipped", "bad-op")):
                repl_fails.append(("vita::replace_all(%r, %r, %r) %s" % (a, b, c, got), (a, b, c), got))
                continue
            got = unhx(got).decode("latin1")
            if got != want:
                repl_fails.append(("vita::replace_all(%r, %r, %r) returns %r; replacing every occurrence of the pattern "
                                   "(leftmost first, not overlapping) by the replacement text copied verbatim gives %r"
                                   % (a, b, c, got, want), (a, b, c), got))
            if mod is not None:
                mp = mod.split()
                if len(mp) != 3:
                    broken.append("driver answered %r to a repl request" % mod)
                    continue
                if unhx(mp[0]).decode("latin1") != got and got == want:
                    broken.append("Lean model replaceAll disagrees with vita::replace_all on (%r, %r, %r): model %r, code %r"
                                  % (a, b, c, unhx(mp[0]).decode("latin1"), got))
                if repl_ok and mp[1] != mp[0]:
                    broken.append("the extracted body of vita::replace_all, run with the model's std::string semantics, "
                                  "does not return replaceAll on (%r, %r, %r): %s" % (a, b, c, mp[1]))
                if mp[2] != "lit=1":
                    broken.append("replaceAll is not the `to`-independent segmentation joined with `to` on (%r, %r, %r)" % (a, b, c))
        repl_fails.sort(key=lambda x: len(x[1][0]) + len(x[1][1]) + len(x[1][2]))
        for what, (a, b, c), got in repl_fails[:3]:
            chk.violation("[replace-all] " + what, {"repl": [hx(a), hx(b), hx(c)], "returned": got, "kind": "replace-all"},
                          tags={"kind": "replace-all", "fmt": "-", "strings": "none", "names": "none", "origin": "repl"})
        chk.count("replace_all_mismatches", len(repl_fails))
    phase("replace_all differential")
    # ---- programs ----------------------------------------------------------------------------
    g_exact = Gen(rng, syms, True)
    g_any = Gen(rng, syms, False)
    programs = []          # (tree, origin)
    genomes = {}           # pid -> (Genome, layout mode, share mode)

    def add(t, origin, G=None):
        if G is not None:
            genomes[len(programs)] = G
        programs.append((t, origin))

    # corpus (regressions) first
    cdir = os.path.join(C.ROOT, "corpus", "C19")
    corpus = []
    if os.path.isdir(cdir):
        for fn in sorted(os.listdir(cdir)):
            if fn.endswith(".json"):
                for item in json.load(open(os.path.join(cdir, fn))):
                    corpus.append(tuple_tree(item["tree"]))
    forced_team, forced_stream, forced_inputs = 0, None, None
    if replay:
        r = json.load(open(replay))
        rp = r.get("replay", {})
        if "team_members" in rp:
            corpus = []
            for m in rp["team_members"]:
                add(tuple_tree(m["tree"]), "corpus", (Genome.from_json(m["genome"]), m.get("layout", "?"), m.get("share", "?")))
            forced_team = len(rp["team_members"])
        elif "tree" in rp:
            corpus = []
            add(tuple_tree(rp["tree"]), "corpus",
                (Genome.from_json(rp["genome"]), rp.get("layout", "?"), rp.get("share", "?")) if "genome" in rp else None)
            forced_stream = rp.get("stream_ops")
            forced_inputs = rp.get("inputs")
    for t in corpus:
        add(t, "corpus")
    for fn in (sorted(os.listdir(cdir)) if os.path.isdir(cdir) and not replay else []):
        if fn.endswith(".genomes"):
            for item in json.load(open(os.path.join(cdir, fn))):
                add(tuple_tree(item["tree"]), "corpus",
                    (Genome.from_json(item["genome"]), item.get("layout", "?"), item.get("share", "?")))

    possible_triples = set()
    if not replay:
        # every parent / argument position / child symbol
        child_kinds = {d: [("T", k) for k in g_exact.term_kinds(d)] + [("F", p) for p in g_exact.producers(d)]
                       for d in DOMS}
        for s in g_exact.funcs:
            for d0 in sorted(set(dom0_of(s.key))):
                for d1 in (sorted(set(dom1_of(s.key))) if s.ncats == 2 else [d0]):
                    doms = g_exact.arg_doms(s, d0, d1)
                    for pos, d in enumerate(doms):
                        for ck in child_kinds[d]:
                            possible_triples.add((s.key, d0 + d1, pos, ck[1] if ck[0] == "T" else ck[1][0].key))
                            g = g_exact if rng.chance(0.8) else g_any
                            if ck[0] == "T":
                                child = g.terminal(d, ck[1])
                            else:
                                cs, c0, c1 = ck[1]
                                child = g.apply(cs, c0, c1, {})
                            node = g.apply(s, d0, d1, {pos: child})
                            add(node, "pair")
                            # the same pair below a random grandparent
                            rd = d1 if (s.ncats == 2 and s.res == 1) else d0
                            gps = [(q, q0, q1) for dd in DOMS for (q, q0, q1) in g.producers(dd)
                                   if rd in g.arg_doms(q, q0, q1)]
                            if gps and (not quick or rng.chance(0.5)):
                                q, q0, q1 = rng.choice(gps)
                                qpos = rng.choice([i for i, x in enumerate(g.arg_doms(q, q0, q1)) if x == rd])
                                add(g.apply(q, q0, q1, {qpos: node}), "pair-nested")
        nrand = 1200 if quick else 20000
        for i in range(nrand):
            g = g_exact if i % 2 == 0 else g_any
            add(g.tree(rng.choice(["R", "R", "R", "S", "I", "B"]), rng.between(2, 6), 0.8), "random")
        # nested conditionals
        for i in range(150 if quick else 2000):
            g = g_exact
            conds = [p for p in g.producers("R") if (p[0].ncats == 2 or p[0].key in ("real::ifz",)) and p[0].arity >= 3]
            t = g.terminal("R")
            for _ in range(rng.between(2, 5)):
                s, d0, d1 = rng.choice(conds)
                if s.key == "str::ife":
                    d0 = rng.choice(dom0_of(s.key))
                ds = g.arg_doms(s, d0, d1)
                rpos = [j for j, x in enumerate(ds) if x == "R"]
                t = g.apply(s, d0, d1, {rng.choice(rpos): t})
            add(t, "nested-cond")
        # malformed stream: string constants with quotes, backslashes, markers, newlines
        for sconst in ['a"b', "a\\b", "%%1%%", "x%%2%%y", "%%3%%", 'q"%%1%%', "tail\\", "%%", "50%", "%1%", "a\nb"]:
            for s in ("str::ife", "real::length"):
                sy = syms[s]
                if s == "str::ife":
                    node = ("F", s, ("S", "R"), [("T", "const:s", sconst, "S"), ("T", "var", ("S1", 3), "S"),
                                                 g_exact.terminal("R", "real+"), g_exact.terminal("R", "cd+")])
                    add(node, "malformed-string")
                    node = ("F", s, ("S", "R"), [("T", "var", ("S1", 3), "S"), ("T", "const:s", sconst, "S"),
                                                 g_exact.terminal("R", "real+"), g_exact.terminal("R", "var")])
                    add(node, "malformed-string")
                else:
                    add(("F", s, ("S", "R"), [("T", "const:s", sconst, "S")]), "malformed-string")

        # adversarial string constants (class labels of nominal attributes are arbitrary text): every escape
        # combination in every string argument position, at nesting depths 1..4
        s_positions = []                  # (symbol, d0, d1, position) whose argument domain is S
        for sy in g_exact.funcs:
            for d0 in sorted(set(dom0_of(sy.key))):
                for d1 in (sorted(set(dom1_of(sy.key))) if sy.ncats == 2 else [d0]):
                    for pos, d in enumerate(g_exact.arg_doms(sy, d0, d1)):
                        if d == "S":
                            s_positions.append((sy, d0, d1, pos))

        def wrap(node, levels):
            """`levels` random ancestors above `node`"""
            g = g_exact
            for _ in range(levels):
                rd = result_dom(syms, node)
                gps = [(q, q0, q1) for dd in DOMS for (q, q0, q1) in g.producers(dd) if rd in g.arg_doms(q, q0, q1)]
                if not gps:
                    break
                q, q0, q1 = rng.choice(gps)
                qpos = rng.choice([i for i, x in enumerate(g.arg_doms(q, q0, q1)) if x == rd])
                node = g.apply(q, q0, q1, {qpos: node})
            return node

        for combo in ESCAPES + MARKERS + SPECIAL_CHARS:
            for (sy, d0, d1, pos) in s_positions:
                if quick and not rng.chance(0.34):
                    continue
                x = rng.below(4)
                text = combo if x == 0 else rng.choice(FILLERS) + combo if x == 1 else combo + rng.choice(FILLERS) \
                    if x == 2 else rng.choice(FILLERS) + combo + rng.choice(FILLERS + ESCAPES)
                node = g_exact.apply(sy, d0, d1, {pos: ("T", "const:s", text, "S")})
                add(wrap(node, rng.below(4)), "special-string")
        # the same special text in SEVERAL arguments of one node (each replace_all call must leave the others alone)
        for i in range(60 if quick else 600):
            sy, d0, d1 = syms["str::ife"], "S", rng.choice(["S", "R"])
            fixed = {0: ("T", "const:s", adv_string(rng, rng.chance(0.8)), "S"),
                     1: ("T", "const:s", adv_string(rng, rng.chance(0.8)), "S")}
            if d1 == "S":
                fixed[2] = ("T", "const:s", adv_string(rng, True), "S")
                fixed[3] = ("T", "const:s", adv_string(rng, True), "S")
            add(wrap(g_exact.apply(sy, d0, d1, fixed), rng.below(3)), "special-string")
        # adversarial VARIABLE NAMES (column headers of the data file are arbitrary text): in every argument
        # position of every function (a variable exists in every domain)
        for sy in g_exact.funcs:
            for d0 in sorted(set(dom0_of(sy.key))):
                for d1 in (sorted(set(dom1_of(sy.key))) if sy.ncats == 2 else [d0]):
                    for pos, d in enumerate(g_exact.arg_doms(sy, d0, d1)):
                        if quick and sy.key == "str::ife" and not rng.chance(0.4):
                            continue
                        vi = rng.choice([i for i, (n, dd) in enumerate(VARS) if dd == d])
                        node = g_exact.apply(sy, d0, d1, {pos: ("T", "var", (adv_name(rng), vi), d)})
                        add(wrap(node, rng.below(3)), "special-name")

        # string equality held in different variables / literals (SIFE compares addresses in C)
        for a, b in [(("T", "var", ("S1", 3), "S"), ("T", "var", ("S2", 4), "S")),
                     (("T", "var", ("S1", 3), "S"), ("T", "const:s", "abc", "S")),
                     (("T", "const:s", "abc", "S"), ("T", "const:s", "abc", "S"))]:
            add(("F", "str::ife", ("S", "R"), [a, b, ("T", "real::real", dbits(1.0), "R"),
                                               ("T", "real::real", dbits(2.0), "R")]), "sife-strings")

        # genomes filled the way vita fills them (every locus a random gene of its category): the
        # program is a DAG – one gene is the argument of several parents / of several positions of one
        # parent – and several genes of a row are active
        for i in range(500 if quick else 6000):
            g = g_exact if i % 2 == 0 else g_any
            nd = rng.between(1, 5)
            doms = [rng.choice(["R", "R", "S", "I", "B"])]
            while len(doms) < nd:
                d = rng.choice(DOMS)
                if d not in doms:
                    doms.append(d)
            for attempt in range(8):
                G = random_genome(g, rng, rng.between(3, 9 - attempt // 2), doms, 0.75)
                try:
                    t = unfold(g, G, budget=150)
                except TooBig:
                    continue
                if t[0] == "F":
                    add(t, "random-genome", (G, "random-genome", "dag"))
                    break
        # long chains (deep programs: the recursion of language() goes through many rows)
        for i in range(40 if quick else 400):
            g = g_exact if i % 2 == 0 else g_any
            d = rng.choice(DOMS)
            t = g.terminal(d)
            for _ in range(rng.between(15, 41)):
                gps = [(q, q0, q1) for dd in DOMS for (q, q0, q1) in g.producers(dd) if d in g.arg_doms(q, q0, q1)]
                q, q0, q1 = rng.choice(gps)
                qpos = rng.choice([j for j, x in enumerate(g.arg_doms(q, q0, q1)) if x == d])
                fixed = {qpos: t}
                for j, x in enumerate(g.arg_doms(q, q0, q1)):    # short siblings: the text stays linear
                    if j != qpos:
                        fixed[j] = t if (x == d and rng.chance(0.08) and node_count(t) < 40) else g.terminal(x)
                t = ("F", q.key, (q0, q1), [fixed[j] for j in range(q.arity)])
                d = result_dom(syms, t)
            if node_count(t) < 400:
                add(t, "chain")
        # the same program in other layouts (the text must not depend on the layout)
        base = [pid for pid, (t, o) in enumerate(programs) if t[0] == "F" and pid not in genomes]
        for i in range(400 if quick else 5000):
            pid = rng.choice(base)
            t = programs[pid][0]
            add(t, "relayout", layout(g_exact, rng, t, rng.choice(["packed", "spread"]), rng.choice(["all", "some"])))

    # every program that has no genome yet gets a random layout
    for pid, (t, origin) in enumerate(programs):
        if pid not in genomes:
            genomes[pid] = layout(g_exact, rng, t)
        if os.environ.get("VERIF_C19_DEBUG") and unfold(g_exact, genomes[pid][0]) != t:
            raise RuntimeError("layout does not unfold to the program: " + show(t))

    phase("generate programs+layouts")
    # ---- run vita -----------------------------------------------------------------------------
    nin = 3 if quick else 6
    lines, inputs_of = [], {}
    what_line = []          # ("prog", pid) | ("team", [pids]) | ("streamref", pid) | ("stream", pid, ops)
    p_extra = 0.0 if replay else (0.03 if quick else 0.02)
    for pid, (t, origin) in enumerate(programs):
        ins = input_vectors(rng, nin)
        if forced_inputs and len(programs) == 1:
            ins = forced_inputs           # a replay evaluates the program on the recorded input vectors
        inputs_of[pid] = ins
        lines.append(harness_line(syms, genomes[pid][0], ins))
        what_line.append(("prog", pid))
        if (rng.chance(p_extra) and pid >= 1) or (forced_team and pid == len(programs) - 1):
            k = forced_team or rng.between(1, min(pid + 1, 6))
            lines.append("team %d" % k)
            what_line.append(("team", list(range(pid - k + 1, pid + 1))))
        if rng.chance(p_extra) or forced_stream:
            lines.append("stream " + STREAM_REF)
            what_line.append(("streamref", pid))
            for _ in range(1 if forced_stream else 3):
                ops = forced_stream or stream_ops(rng)
                lines.append("stream " + " ".join(ops))
                what_line.append(("stream", pid, ops))
    allans, deaths0 = C.run_lines(exe, lines)
    cpp = [None] * len(programs)
    extra_ans = []
    prog_line = {}
    line_of_pid = {}
    for i, (wl, ans) in enumerate(zip(what_line, allans)):
        if wl[0] == "prog":
            cpp[wl[1]] = ans
            line_of_pid[wl[1]] = i
        else:
            extra_ans.append((i, wl, ans))
    for i, wl in enumerate(what_line):
        if wl[0] == "prog":
            prog_line[i] = wl[1]
    deaths = [(prog_line[idx], rc_, se_) for idx, rc_, se_ in deaths0 if idx in prog_line]
    for idx, rc_, se_ in deaths0:
        if idx not in prog_line:
            broken.append("harness died (rc=%d) on `%s`: %s" % (rc_, lines[idx][:80], se_[-600:]))
    dead_lines = sorted(idx for idx, _, _ in deaths0)

    def replay_of(pid, **extra):
        G, mode, share = genomes[pid]
        o = {"tree": list_tree(programs[pid][0]), "genome": G.to_json(), "layout": mode, "share": share}
        o.update(extra)
        return o

    for idx, rc_, se_ in deaths:
        t = programs[idx][0]
        chk.violation("harness died (rc=%d) while printing/evaluating %s\n%s" % (rc_, show(t), se_[-1200:]),
                      replay_of(idx), tags={"kind": "crash", "strings": str_class(t)})

    texts, values = {}, {}
    for pid, ans in enumerate(cpp):
        if ans.startswith(("died", "skipped", "bad-op")):
            if ans.startswith("bad-op"):
                broken.append("harness rejected a generated program: %s" % show(programs[pid][0]))
            continue
        parts = ans.split(" ; ")
        head = parts[0].split()
        texts[pid] = [unhx(h).decode("latin1") for h in head[:4]]
        values[pid] = parts[1:]
        if head[4:] != ["valid=1"]:
            broken.append("i_mep::is_valid() rejects a generated genome: %s" % json.dumps(genomes[pid][0].to_json()))

    phase("harness (vita)")
    # ---- the oracles and the model run side by side -------------------------------------------------
    # programs with variables that are not the harness inputs X1.. (adversarial names): the C / C++ oracles declare
    # only those, so such programs are checked at the text level, by the Lean model and by python3's parser only
    custom = {p for p in texts if has_custom_names(programs[p][0])}
    chk.count("programs_with_adversarial_variable_names(no clang/gcc oracle)", len(custom))

    # clang's parser (C and C++): actual vs fully parenthesised
    def clang_job(lang, f):
        A, B = {}, {}
        # programs with unescaped quotes etc. go to their own translation unit (error cascades)
        for part, ids in (("n", [p for p in sorted(texts) if str_class(programs[p][0]) == "none" and p not in custom]),
                          ("s", [p for p in sorted(texts) if str_class(programs[p][0]) != "none" and p not in custom])):
            if not ids:
                continue
            A.update(clang_trees("ast_%s_%s_a" % (lang, part), lang,
                                 [(p, result_dom(syms, programs[p][0]), texts[p][f]) for p in ids]))
            B.update(clang_trees("ast_%s_%s_b" % (lang, part), lang,
                                 [(p, result_dom(syms, programs[p][0]), oracle_text(syms, programs[p][0], f, True))
                                  for p in ids]))
        return lang, f, A, B

    # gcc: compile + run the C text
    def sife_on_strings(t):
        return t[0] == "F" and ((t[1] == "str::ife" and t[2][0] == "S") or any(sife_on_strings(k) for k in t[3]))

    exact_ids = []
    for p in sorted(texts):
        if p in custom:
            continue
        if not prints_exactly(programs[p][0]):
            chk.count("value_check_skipped_constants_do_not_print_exactly")
        else:
            if sife_on_strings(programs[p][0]):
                chk.count("value_check_programs_with_sife_on_strings")
            exact_ids.append(p)
    batches = [exact_ids[i:i + 400] for i in range(0, len(exact_ids), 400)]

    def gcc_job(bi):
        b = batches[bi]
        return compile_and_run("run_%d" % bi, [(p, result_dom(syms, programs[p][0]), texts[p][0]) for p in b], inputs_of)

    ex = cf.ThreadPoolExecutor(6)
    # ---- model (driver) ------------------------------------------------------------------------
    dl, keys, dj = [], [], []
    if drv_ok:
        for pid in texts:
            tt = driver_genome(g_exact, genomes[pid][0], fidx, tidx) + " " + driver_tree(programs[pid][0], fidx, tidx)
            for f in range(4):
                dl.append("gchk %d %s %s" % (f, hx(texts[pid][f]), tt))
                keys.append((pid, f))
        step = max(1, (len(dl) + 3) // 4)
        dj = [ex.submit(C.run_driver, "c19_driver", dl[i:i + step]) for i in range(0, len(dl), step)]
    cj = [ex.submit(clang_job, "c", 0), ex.submit(clang_job, "cpp", 1)]
    gj = [ex.submit(gcc_job, i) for i in range(len(batches))]
    phase("submit oracles+model")
    # ---- teams and stream histories (format selection) -------------------------------------------------
    fails = []       # (size, what, replay, tags)
    doc_kind = {"c": ("lang", 0), "cpp": ("lang", 1), "mql": ("lang", 2), "py": ("lang", 3)}
    for k in STREAM_KINDS:
        doc_kind[k] = ("fn", k)
    enum_kind = {}
    for name, v in (export["print_format_t"] if export else []):
        nm = name[:-2] if name.endswith("_f") else name
        if nm.endswith("_language") and nm[:-9] in ("c", "cpp", "mql", "python"):
            enum_kind[v] = ("lang", ["c", "cpp", "mql", "python"].index(nm[:-9]))
        elif nm.replace("_", "") in STREAM_KINDS:
            enum_kind[v] = ("fn", nm.replace("_", ""))
    refs, dreq, dkey = {}, [], []
    for li, wl, ans in extra_ans:
        if ans.startswith(("died", "skipped")):
            continue
        if wl[0] == "team":
            pids = wl[1]
            if any(pp not in texts for pp in pids) or any(line_of_pid[pids[0]] <= d <= li for d in dead_lines):
                chk.count("team_exports_skipped_after_a_harness_restart")
                continue
            if ans == "bad-op":
                broken.append("harness rejected `team %d`" % len(pids))
                continue
            got = [unhx(h).decode("latin1") for h in ans.split()]
            chk.count("team_size:%d" % len(pids))
            for f in range(4):
                want = "".join(texts[pp][f] + "\n" for pp in pids)
                chk.count("team_exports_checked")
                if got[f] != want:
                    big = sum(node_count(programs[pp][0]) for pp in pids)
                    tags = {"kind": "team-text", "fmt": FMT[f], "origin": "team",
                            "strings": "+".join(sorted({str_class(programs[pp][0]) for pp in pids}))}
                    fails.append((big, "[%s/team-text] a team of %d members is not printed as its members' texts, each "
                                  "followed by a newline\n  printed: %r\n  expected: %r" % (FMT[f], len(pids), got[f][:300], want[:300]),
                                  {"team_members": [replay_of(pp) for pp in pids], "tree": list_tree(programs[pids[-1]][0]),
                                   "format": FMT[f], "kind": "team-text", "printed": got[f]}, tags))
                if drv_ok:
                    dreq.append("team %d %s %d %s" % (f, hx(got[f]), len(pids), " ".join(hx(texts[pp][f]) for pp in pids)))
                    dkey.append(("team", pids, f))
        elif wl[0] == "streamref":
            outs = [o.split(":") for o in ans.split()]
            if wl[1] in texts and len(outs) == 10:
                refs[wl[1]] = {(STREAM_KINDS[j % 5], j // 5): unhx(o[2]).decode("latin1") for j, o in enumerate(outs)}
        elif wl[0] == "stream":
            pid, ops = wl[1], wl[2]
            if pid not in texts or pid not in refs or ans == "bad-op":
                continue
            outs = [] if ans == "-" else [o.split(":") for o in ans.split()]
            cur, lf, exp = ("fn", "list"), 0, []
            for op in ops:
                if op == "print":
                    exp.append((cur, lf))
                elif op == "fresh":
                    cur, lf = ("fn", "list"), 0
                elif op in ("long", "short"):
                    lf = 1 if op == "long" else 0
                elif op.startswith("pf"):
                    cur = enum_kind.get(int(op[2:]), ("fn", "?"))
                else:
                    cur = doc_kind[op]
            chk.count("stream_histories_checked")
            if len(exp) != len(outs):
                broken.append("harness printed %d times for the history %s" % (len(outs), " ".join(ops)))
                continue
            for j, ((kind, l), (flag, lfs, hexs)) in enumerate(zip(exp, outs)):
                text = unhx(hexs).decode("latin1")
                want = texts[pid][kind[1]] if kind[0] == "lang" else refs[pid].get((kind[1], l))
                chk.count("stream_prints_checked:" + (FMT[kind[1]] if kind[0] == "lang" else "other"))
                if want is None or text != want or int(lfs) != l:
                    f = kind[1] if kind[0] == "lang" else 0
                    t = programs[pid][0]
                    tags = {"kind": "format-selection", "fmt": FMT[f], "origin": programs[pid][1], "strings": str_class(t)}
                    fails.append((node_count(t), "[format-selection] after the stream history `%s` print #%d must be the %s "
                                  "rendering (long form %d)\n  program: %s\n  printed: %r\n  expected: %r" %
                                  (" ".join(ops), j + 1, FMT[kind[1]] if kind[0] == "lang" else kind[1], l, show(t),
                                   text[:300], (want or "")[:300]),
                                  replay_of(pid, stream_ops=ops, kind="format-selection", printed=text), tags))
                    break
            if drv_ok:
                dreq.append("stream " + " ".join(ops))
                dkey.append(("stream", ops, [(o[0], o[1]) for o in outs], exp))
    if dreq:
        for key, a in zip(dkey, C.run_driver("c19_driver", dreq)):
            if key[0] == "team":
                if a != "team=1 lines=1" and not (a == "team=1 lines=0" and
                                                  any("\n" in texts[pp][key[2]] for pp in key[1])):
                    broken.append("Lean model of operator<<(team) disagrees with the code (%s) on a team of %d [%s]"
                                  % (a, len(key[1]), FMT[key[2]]))
            else:
                want = " ".join("%s:%s:%s" % (fl, lfs, ("L%d" % k[1]) if k[0] == "lang" else
                                             "F" + {"inline": "in_line"}.get(k[1], k[1]))
                                for (fl, lfs), (k, l) in zip(key[2], key[3])) or "-"
                if a != want:
                    broken.append("Lean model of the stream state / operator<< switch disagrees with the code on the "
                                  "history `%s`: model %s, code %s" % (" ".join(key[1]), a, want))
        chk.count("stream_and_team_requests_to_the_model", len(dreq))

    # ---- pair matrix / distribution ---------------------------------------------------------------
    pairs = {}
    seen_triples = set()
    for pid in texts:
        t, origin = programs[pid]
        chk.count("origin:" + origin)
        dp = depth(t)
        chk.count("depth:%s" % (dp if dp < 8 else "8-15" if dp < 16 else "16-31" if dp < 32 else "32+"))
        chk.count("root_domain:" + result_dom(syms, t))
        G, mode, share = genomes[pid]
        st = genome_stats(g_exact, G)
        chk.count("layout:" + mode)
        chk.count("genome_categories:%d" % len(G.doms))
        chk.count("genome_rows:%s" % (G.n if G.n < 8 else "8-15" if G.n < 16 else "16-31" if G.n < 32 else "32+"))
        if st["shared_rows"]:
            chk.count("programs_with_several_active_genes_in_one_row")
            chk.count("active_genes_in_one_row_max:%d" % st["max_in_row"])
        if st["shared_genes"]:
            chk.count("programs_with_a_gene_referenced_from_several_places")
            chk.count("references_to_one_gene_max:%s" % (st["max_refs"] if st["max_refs"] < 5 else "5+"))
        if st["same_gene_twice_in_one_parent"]:
            chk.count("programs_with_one_gene_in_two_argument_positions_of_a_parent")
        if st["active"] < G.n * len(G.doms):
            chk.count("programs_with_inactive_genes")

        def walk3(n):
            if n[0] == "F":
                for i, k in enumerate(n[3]):
                    seen_triples.add((n[1], n[2][0] + n[2][1], i, k[1] if k[0] == "F" else term_kind_of(k)))
                    walk3(k)
        walk3(t)

        def walkp(n):
            if n[0] == "F":
                for i, k in enumerate(n[3]):
                    ck = k[1] if k[0] == "F" else ("var" if k[1] == "var" else k[1] + ("-" if neg_term(k) else ""))
                    pairs.setdefault(n[1], {}).setdefault(ck, 0)
                    pairs[n[1]][ck] += 1
                    walkp(k)
        walkp(t)
        for tm in terminals_of(t):
            if neg_term(tm):
                chk.count("negative_numeric_terminals")
            if tm[1] in ("real::real", "const:d") and bitsd(term_bits(tm)) != int(bitsd(term_bits(tm))):
                chk.count("fractional_terminals")
            if tm[1] == "const:s":
                chk.count("string_constants")

        def walks(n, d, parent):
            if n[0] == "F":
                for i, k in enumerate(n[3]):
                    walks(k, d + 1, "%s.%d" % (n[1], i))
            elif n[1] == "const:s" or is_custom_var(n):
                text = n[2] if n[1] == "const:s" else n[2][0]
                cl = special_classes(text)
                what = "string" if n[1] == "const:s" else "name"
                if what == "name":
                    chk.count("variable_names:" + ("identifier" if IDENT.match(text) else "not-an-identifier"))
                if cl:
                    chk.count("special_%ss" % what)
                    for k in cl:
                        chk.count("special_%s_contains:%s" % (what, k))
                    chk.count("special_%s_at:%s" % (what, parent))
                    chk.count("special_%s_depth:%s" % (what, d if d < 6 else "6+"))
                    if what == "string":
                        chk.count("special_string_class:" + ("known-finding(quote/backslash/newline/marker)"
                                                             if KNOWN_BAD.search(text) else "plain"))
        walks(t, 0, "root")
    children = sorted({c for p in pairs.values() for c in p})
    chk.cov["pair_matrix"] = {"children": children,
                              "rows": {p: [pairs[p].get(c, 0) for c in children] for p in sorted(pairs)}}
    chk.cov["pair_matrix_cells_covered"] = sum(1 for p in pairs.values() for c in p.values() if c)
    # (parent symbol [category instantiation], argument position, child symbol / terminal kind)
    missing = sorted(possible_triples - seen_triples)
    chk.cov["triples"] = {"type_compatible": len(possible_triples),
                          "covered": len(possible_triples & seen_triples),
                          "covered_symbol_level": len({(a, c, d) for a, b, c, d in seen_triples}),
                          "not_covered": ["%s[%s] arg %d <- %s" % m for m in missing[:50]]}
    if missing and not replay:
        broken.append("generator: %d type-compatible (parent, position, child) triples were not exercised, e.g. %r"
                      % (len(missing), missing[0]))

    phase("teams+streams+stats")
    verdict = {}
    ans = [a for j in dj for a in j.result()]
    for k, a in zip(keys, ans):
        verdict[k] = a
    phase("driver (Lean model, waited)")
    # ---- per program / format checks ---------------------------------------------------------------

    def fail(pid, f, kind, detail):
        t = programs[pid][0]
        tags = {"kind": kind, "fmt": FMT[f], "strings": str_class(t), "names": names_class(t), "origin": programs[pid][1]}
        what = "[%s/%s] %s\n  program: %s\n  printed: %s\n  genome (active genes, %d rows x %d categories, %s/%s): %s" % (
            FMT[f], kind, detail, show(t), texts[pid][f][:400], genomes[pid][0].n, len(genomes[pid][0].doms),
            genomes[pid][1], genomes[pid][2], show_genome(g_exact, genomes[pid][0])[:600])
        tags["layout"] = genomes[pid][1]
        # exact attribution helpers for the known findings on string constants: the printed text IS the
        # simultaneous substitution (so only a terminal's own text can be wrong) / IS what the sequential
        # replace_all loop produces (so only a marker inside a constant can be the cause)
        tags["subst"] = "1" if texts[pid][f] == oracle_text(syms, t, f, False) else "0"
        tags["seqsubst"] = "1" if texts[pid][f] == oracle_text_seq(syms, t, f) else "0"
        fails.append((node_count(t), what, replay_of(pid, format=FMT[f], kind=kind, printed=texts[pid][f],
                                                     detail=detail, inputs=inputs_of[pid]), tags))

    ndis_model = 0
    canon_genome = {pid: json.dumps(genomes[pid][0].to_json()) for pid in texts}
    for pid in texts:
        t = programs[pid][0]
        for f in range(4):
            chk.seen((canon_genome[pid], f), nontrivial=t[0] == "F")
            want = oracle_text(syms, t, f, False)
            if texts[pid][f] != want:
                fail(pid, f, "text-vs-substitution",
                     "the printed text is not the template with each placeholder replaced by its argument's text: expected %r" % want[:400])
            v = verdict.get((pid, f))
            if v is None:
                continue
            flags = dict(x.split("=") for x in v.split() if "=" in x)
            if not flags:
                broken.append("driver answered %r" % v)
                continue
            if flags.get("unf") != "1":
                broken.append("the Lean model unfolds the genome of %s into a different program than the generator"
                              % show(t))
            if flags.get("exact") != ("1" if nums_exact(t) else "0"):
                broken.append("the model's class `constants print exactly` (exact6 / intExact) differs from the "
                              "exact rational test (v * 10^6 is a whole number) on %s" % show(t))
            elif f == 0:
                chk.count("constants_print_exactly:" + flags.get("exact", "?"))
            if flags.get("wf") != "1":
                broken.append("wfRows (model of i_mep::is_valid) rejects a genome that is_valid() accepts: %s" % show(t))
            if flags["render"] != "1":
                ndis_model += 1
                if texts[pid][f] == want:
                    broken.append("Lean model of language() disagrees with the code on %s [%s]: model %r, code %r" %
                                  (show(t), FMT[f], unhx(v.split()[-1]).decode("latin1")[:300], texts[pid][f][:300]))
            if flags.get("clean") != "1":
                chk.count("hypothesis_clean_terminal_violated")
            if flags.get("adm") == "1":
                chk.count("programs_x_formats_within_theorem_hypotheses")
            elif str_class(t) == "none" and names_class(t) == "none" and not any(
                    "%%" in tm[2] or tm[2].endswith("%") for tm in terminals_of(t) if tm[1] == "const:s"):
                broken.append("a generated program with harmless terminals is outside the hypotheses of the "
                              "theorems (Admissible fails): %s [%s]" % (show(t), FMT[f]))
            else:
                chk.count("programs_x_formats_outside_theorem_hypotheses(special strings / names)")
            if flags["term"] != "1":
                fail(pid, f, "terminal-not-an-operand", "a terminal's text is not a self-contained operand (termOk fails)")
            elif flags["parse"] != "1" or flags["ok"] != "1" or flags["lex"] != "1":
                fail(pid, f, "parse",
                     "read with the language's precedence rules the text is not the program's expression tree "
                     "(model flags %s)" % " ".join("%s=%s" % kv for kv in sorted(flags.items())))
            if flags["sim"] != "1":
                fail(pid, f, "sequential-replace",
                     "sequential replace_all differs from simultaneous substitution")
    chk.cov["model_vs_code_text_disagreements"] = ndis_model

    phase("per-program flags")
    # Python's own parser
    for pid in texts:
        t = programs[pid][0]
        a = py_tree(texts[pid][3].strip())     # blanks around the whole expression are harmless
        b = py_tree(oracle_text(syms, t, 3, True))
        chk.count("python_ast_checked")
        if b.startswith("error") and any(w in b for w in ("too many nested parentheses", "RecursionError", "MemoryError",
                                                            "too complex", "parser stack overflow")):
            chk.count("python_ast_skipped_nesting_limit_of_the_oracle")      # a limit of python3's parser, not of vita
            continue
        if a.startswith("error"):
            fail(pid, 3, "python-syntax", "python3 ast.parse rejects the text: " + a)
        elif a != b:
            fail(pid, 3, "python-ast", "python3's parse differs from the parse of the fully parenthesised substitution")

    phase("python ast")
    clang_res, gcc_res = [], []
    for j in cj:
        try:
            clang_res.append(j.result())
        except OracleTimeout as e:
            chk.count("oracle_batches_skipped_timeout(clang)")
            chk.notes.append("a clang AST batch timed out twice (overloaded machine): skipped, no verdict from it")
    for j in gj:
        try:
            gcc_res.append(j.result())
        except OracleTimeout as e:
            chk.count("oracle_batches_skipped_timeout(gcc)")
            chk.notes.append("a gcc batch timed out twice (overloaded machine): skipped, no verdict from it")
    ex.shutdown()

    phase("clang+gcc oracles")
    for lang, f, A, B in clang_res:
        for pid in texts:
            if pid in custom:
                continue
            a, b = A.get(pid), B.get(pid)
            chk.count("clang_ast_checked_" + lang)
            if a is None or b is None:
                if a is None and b is not None:
                    fail(pid, f, "clang-syntax", "clang produced no AST for the text")
                continue
            if isinstance(a, str):
                if not isinstance(b, str):
                    fail(pid, f, "clang-syntax", "clang rejects the text (%s) but accepts the parenthesised substitution" % a)
                else:
                    chk.count("clang_rejects_both_" + lang)
                    if f == 0:
                        fail(pid, f, "clang-syntax", "clang rejects the text: %s" % a)
            elif isinstance(b, str):
                chk.count("clang_rejects_paren_only_" + lang)
            elif a != b:
                fail(pid, f, "clang-ast", "clang's parse differs from the parse of the fully parenthesised substitution")

    nval = nvoid = 0
    mism = []         # (pid, j, got, want)
    for vals, errs in gcc_res:
        for pid, msg in errs.items():
            if msg.startswith("the compiled expression died"):
                if any(w not in ("void", "exc") for w in values[pid]):
                    fail(pid, 0, "value", msg + " on an input for which the interpreter yields a value")
                else:
                    chk.count("c_expression_trapped_where_interpreter_is_void")
            else:
                fail(pid, 0, "gcc-compile", "gcc rejects the C text: " + msg)
        for pid, got in vals.items():
            t = programs[pid][0]
            has_fmax = "real::max" in symbols_of(t)
            for j, (g, w) in enumerate(zip(got, values[pid])):
                if w in ("void", "exc"):
                    nvoid += 1
                    continue
                nval += 1
                if g != w and g.startswith("d:") and w.startswith("d:") and has_fmax and \
                        bitsd(int(g[2:])) == 0.0 and bitsd(int(w[2:])) == 0.0:
                    # +0 vs -0 only: C leaves the sign of fmax(+0,-0) unspecified (libm and the inlined
                    # / folded forms differ), and a zero's sign can only propagate to another zero here
                    chk.count("values_equal_up_to_sign_of_zero_with_fmax")
                    continue
                if g != w:
                    mism.append((pid, j, g, w))
                    break

    # attribute a mismatch to a known finding only by an EXACT test, never by a tolerance: the same text
    # is recompiled with the suspected template replaced
    #   sigmoid-formula : every FSIGMOID computed by the interpreter's own formula (helper vc19_sig)
    #   sife-address    : every SIFE over strings comparing the TEXT (strcmp) instead of the addresses
    # and only if that variant agrees bit for bit with vita::run on every input is the case tagged
    # `value-<cause>`; however much a later discontinuous primitive amplified the difference.  Any
    # other mismatch stays an unmatched `value` violation.
    CAUSES = {"sigmoid-formula": ("real::sigmoid", "vc19_sig(%%1%%)"),
              "sife-address": ("str::ife", lambda n: "(strcmp(%%1%%,%%2%%)==0 ? %%3%% : %%4%%)" if n[2][0] == "S" else None),
              "libm-pow-square": ("real::aq", "vc19_aq(%%1%%,%%2%%)")}
    # causes that are a limit of the ORACLE, not a property of the exported text: under a correctly rounded libm
    # pow(y, 2.0) IS y * y (glibc's pow is only within 1 ulp: pow(-123456789.0, 2.0) != -123456789.0 * -123456789.0);
    # gcc 12 folds `0.0 - (double)strlen(s)` to `-(double)strlen(s)` at -O0 (-0.0 instead of +0.0 for an empty s),
    # clang does not.  They are attributed as exactly as the findings: the text recompiled with the square computed by
    # `*` / recompiled with clang must agree bit for bit with vita::run on every input; then the case is counted
    # (`value_mismatch_explained_by_the_oracle:*`), not reported.
    ORACLE_CAUSES = {"libm-pow-square"}

    def applicable(t):
        out = []
        if "real::aq" in symbols_of(t):
            out.append("libm-pow-square")
        if "real::sigmoid" in symbols_of(t):
            out.append("sigmoid-formula")
        if sife_on_strings(t):
            out.append("sife-address")
        return out

    def same_values(p, got):
        return all(w in ("void", "exc") or g == w or
                   (g.startswith("d:") and w.startswith("d:") and "real::max" in symbols_of(programs[p][0])
                    and bitsd(int(g[2:])) == 0.0 and bitsd(int(w[2:])) == 0.0)
                   for g, w in zip(got, values[p]))

    def subsets_of(cs, with_empty):
        out = [[]] if with_empty else []
        for size in range(1, len(cs) + 1):
            for mask in range(1, 1 << len(cs)):
                sub = [c for i, c in enumerate(cs) if mask >> i & 1]
                if len(sub) == size:
                    out.append(sub)
        return out

    cause_of = {}               # pid -> (causes, compiler)
    for stage, cc in ((1, "gcc"), (2, "clang")):
        variants, vin = [], {}          # (variant id, pid, causes)
        for pid in sorted({pid for pid, _, _, _ in mism}):
            t = programs[pid][0]
            if pid in cause_of or texts[pid][0] != oracle_text(syms, t, 0, False):
                continue
            for sub in subsets_of(applicable(t), cc == "clang"):
                vid = len(variants)
                variants.append((vid, pid, sub))
                vin[vid] = inputs_of[pid]
        if not variants:
            continue
        try:
            v2, e2 = compile_and_run("run_attr_%s" % cc,
                                     [(vid, result_dom(syms, programs[p][0]),
                                       oracle_text(syms, programs[p][0], 0, False,
                                                   override={CAUSES[c][0]: CAUSES[c][1] for c in sub}))
                                      for vid, p, sub in variants], vin, cc=cc)
            for vid, p, sub in variants:
                if p not in cause_of and vid in v2 and same_values(p, v2[vid]):
                    cause_of[p] = (sub, cc)
        except OracleTimeout:
            chk.count("oracle_batches_skipped_timeout(%s)" % cc)
    for pid, j, g, w in mism:
        kind = "value"
        det = "compiled C text returns %s, the interpreter %s on input %s" % (g, w, " ".join(inputs_of[pid][j]))
        if g.startswith("d:") and w.startswith("d:"):
            a, b = bitsd(int(g[2:])), bitsd(int(w[2:]))
            det += " (%r vs %r)" % (a, b)
        if pid in cause_of:
            sub, cc = cause_of[pid]
            real = [c for c in sub if c not in ORACLE_CAUSES]
            if not real:
                chk.count("value_mismatch_explained_by_the_oracle:" + "+".join(
                    sub + (["gcc-only(clang-14 agrees with the interpreter)"] if cc == "clang" else [])))
                continue
            kind = "value-" + "+".join(real)
            det += "; recompiled with " + " and ".join(
                {"sigmoid-formula": "every FSIGMOID computed by the interpreter's formula (x<0: exp(x)/(1+exp(x)))",
                 "sife-address": "every SIFE over strings comparing the text (strcmp) instead of the addresses",
                 "libm-pow-square": "the square of AQ computed by a correctly rounded multiplication instead of glibc's pow"}[c]
                for c in sub) + (" (clang-14)" if cc == "clang" else "") + " the same text agrees bit for bit on every input"
        fail(pid, 0, kind, det)
    chk.count("values_compared", nval)
    chk.count("values_skipped_interpreter_void", nvoid)
    chk.count("programs_compiled_with_gcc", sum(len(v) for v, _ in gcc_res))
    chk.cov["programs"] = len(texts)

    phase("compare+attribute")
    chk.cov["phase_seconds"] = phases
    # ---- verdict ------------------------------------------------------------------------------------
    fails.sort(key=lambda x: x[0])
    if os.environ.get("VERIF_C19_DEBUG"):
        with open(os.path.join(WORK, "fails.json"), "w") as fh:
            json.dump([(w, t) for _, w, _, t in fails], fh, indent=1)
    # smallest failing program of every (kind, format) first, then the rest
    groups = {}
    for size, what, rep, tags in fails:
        chk.count("fail:" + tags["kind"])
        tags = dict(tags)
        tags["symbols"] = ",".join(sorted(set(symbols_of(tuple_tree(rep["tree"])))))
        groups.setdefault((tags["kind"], tags["fmt"]), []).append((what, rep, tags))
    prio = ["text-vs-substitution", "format-selection", "team-text", "sequential-replace", "parse",
            "terminal-not-an-operand", "python-syntax", "python-ast", "clang-syntax", "clang-ast", "gcc-compile", "value"]
    rank = 0
    while any(len(g) > rank for g in groups.values()) and rank < 40:
        for key in sorted(groups, key=lambda k: (prio.index(k[0]) if k[0] in prio else len(prio), k[1])):
            if len(groups[key]) > rank:
                what, rep, tags = groups[key][rank]
                chk.violation(what, rep, tags=tags)
        rank += 1
    for pid in list(texts)[:: max(1, len(texts) // 5)]:
        chk.sample({"program": show(programs[pid][0]), "c": texts[pid][0], "python": texts[pid][3],
                    "interpreter": values[pid][:2]})

    if broken and not [v for v in chk.violations if not v[2]]:
        for b in broken[:5]:
            chk.violation(b, {"broken": b, "searched": "%d programs x 4 formats (pairs, random, nested conditionals, strings) "
                              "with the parse, clang, python and gcc oracles: no failing input" % len(texts)}, no_input=True)
    elif broken:
        chk.notes += broken[:10]
    return chk.finish(
        level="proof",
        checker_cmd="lake build Vita.C19.Props && lake env lean <#print axioms for every theorem>",
        rule="genomes (full matrix rows x categories, best locus [0,0], inactive loci = random valid genes, equal "
             "symbols shared): every type-compatible (parent, argument position, child symbol / terminal kind) triple at "
             "the root and below a random grandparent, random typed trees, nested conditionals, string constants with "
             "special characters, each laid out chain / packed (several active genes per row) / spread with sub-expression "
             "sharing none / all / some; random genomes filled as vita fills them; long chains; re-layouts of the same "
             "program; x 4 formats; teams of the last k individuals; random stream histories; distinct = distinct "
             "(genome, format) with at least one function node",
        trusted=["Lean 4.33 kernel", "tools/translate_templates.py + cxx2lean.py (clang-14 JSON AST -> template table, "
                 "print-format enumerators, manipulator stores, operator<< switch, team loop)",
                 "hand model of language() on genomes (Vita.C19.Genome.langG), tied by text equality on every generated genome",
                 "std::ios_base::iword semantics (fresh stream = 0, independent streams)",
                 "the C / Python expression grammars as encoded by Vita.C19.Syntax (`ok`): validated against clang-14 "
                 "and python3 parsers on every generated case, not proved",
                 "gcc 12 / glibc libm for the compile-and-run oracle", "harness/c19_lang.cc"])


def neg_term(t):
    k = t[1]
    if k in ("real::real", "real::integer", "integer::number"):
        return t[2] >> 63 == 1
    if k in ("const:d", "const:i"):
        return t[2].startswith("-")
    return False


def prints_exactly(t):
    """all numeric constants print exactly with 6 decimals, strings are plain"""
    for tm in terminals_of(t):
        k = tm[1]
        if k in ("real::real", "const:d", "real::integer", "integer::number", "const:i"):
            v = bitsd(term_bits(tm))
            if not math.isfinite(v) or float("%f" % v) != v:
                return False
            if k == "real::integer" and v != int(v):
                return False
            if k in ("integer::number", "const:i") and (v != int(v) or abs(v) > 2147483647):
                return False
        if k == "const:s":
            cl = set()
            sclass(tm[2], cl)
            if cl:
                return False
    return True


def nums_exact(t):
    """the class "constants print exactly" for the numeric terminals, as Vita.C19.exactT defines it:
       std::to_string(double) classes: the 6 printed decimals ARE the value (a whole number of millionths);
       std::to_string(int) classes: the value is a whole number that fits an int.  (`prints_exactly` below is
       the larger round-trip class used for the compile-and-run oracle: the decimal text converts back to the
       same double, e.g. 0.1 -> `0.100000` -> 0.1.)"""
    for tm in terminals_of(t):
        k = tm[1]
        if k in ("real::real", "integer::number", "const:d"):
            v = bitsd(term_bits(tm))
            if not math.isfinite(v) or (Fraction(v) * 1000000).denominator != 1:
                return False
        elif k in ("real::integer", "const:i"):
            v = bitsd(term_bits(tm))
            if not math.isfinite(v) or v != int(v) or abs(v) > 2147483647:
                return False
    return True


def list_tree(t):
    if t[0] == "T":
        return ["T", t[1], list(t[2]) if isinstance(t[2], tuple) else t[2], t[3]]
    return ["F", t[1], list(t[2]), [list_tree(k) for k in t[3]]]


def tuple_tree(x):
    if x[0] == "T":
        return ("T", x[1], tuple(x[2]) if isinstance(x[2], list) else x[2], x[3])
    return ("F", x[1], tuple(x[2]), [tuple_tree(k) for k in x[3]])
