"""C20 — the inline-storage vector behaves like a standard vector.

Lean: a model of small_vector<T,S> with explicit storage and object lifetimes
(Vita/C20/Model.lean), parametric in the element type's == and <, and the proofs that, for
every operation sequence, it refines the List semantics of std::vector, raises no lifetime
fault and leaks nothing at the end (Vita/C20/Props.lean).
Tie (A): tools/translate_smallvec.py regenerates Vita/C20/Gen.lean from the clang AST (statement
skeleton of every function of small_vector.{h,tcc}; members used by the library); Props proves
that the skeletons are the ones the model implements and that every used member is modelled.
Tie (B): scripts of public operations on two vectors are run through the compiled
small_vector<T,S> (S = 1..8; T = int, double, std::string, a lifetime-tracking type, a padded
POD with key-only equality; values include +-0, NaN, inf) under ASan/LSan next to a
std::vector<T> (the harness's own oracle) and through the compiled Lean model; contents,
observations (incl. all six relational operators, also across inline capacities) and lifetime
events are compared after every operation.
"""
import json
import os
import sys

from vlib import common as C

sys.path.insert(0, os.path.join(C.ROOT, "tools"))
import translate_smallvec  # noqa: E402

TYPES = ["int", "double", "string", "tracked", "pod"]
TRIVIAL = ("int", "double", "pod")
EVN = ["construct-over-alive", "destroy-raw", "assign-to-raw", "read-raw", "read-moved"]
CMPS = ["eq", "ne", "lt", "gt", "le", "ge"]
MAXSIZE = str(2 ** 64 - 1)

# ---------------------------------------------------------------------------
# the element VALUE class: an id names a representation; `==` and `<` belong to the element type
# (third opinion, independent of the Lean driver's tables and of the C++ types)
# ---------------------------------------------------------------------------
D_NEG0, D_NAN, D_NAN2, D_INF, D_NINF, D_M1, D_DEN, D_M2 = range(90000001, 90000009)
D_SPECIAL = {D_NEG0: -0.0, D_NAN: float("nan"), D_NAN2: float("nan"), D_INF: float("inf"),
             D_NINF: float("-inf"), D_M1: -1.0, D_DEN: 5e-324, D_M2: -2.0}
POD = 1000000


def value(ty, i):
    if ty == "double":
        return D_SPECIAL[i] if i in D_SPECIAL else float(i)
    if ty == "pod":
        return i % POD
    return i


def vec_eq(ty, x, y):
    return len(x) == len(y) and all(value(ty, a) == value(ty, b) for a, b in zip(x, y))


def vec_lt(ty, x, y):
    for a, b in zip(x, y):
        va, vb = value(ty, a), value(ty, b)
        if va < vb:
            return True
        if vb < va:
            return False
    return len(x) < len(y)


def vec_cmp(ty, k, x, y):
    if k == "eq":
        return vec_eq(ty, x, y)
    if k == "ne":
        return not vec_eq(ty, x, y)
    if k == "lt":
        return vec_lt(ty, x, y)
    if k == "gt":
        return vec_lt(ty, y, x)
    if k == "le":
        return not vec_lt(ty, y, x)
    return not vec_lt(ty, x, y)


def variants(ty, v):
    """ids whose value is `==` to v's but whose representation differs (empty if the type has none)"""
    if ty == "double":
        return [D_NEG0] if v == 0 else [0] if v == D_NEG0 else []
    if ty == "pod":
        return [(v % POD) + POD * a for a in (1, 2, 37) if (v % POD) + POD * a != v]
    return []


def unordered(ty):
    """ids that are not even `==` to themselves"""
    return [D_NAN, D_NAN2] if ty == "double" else []


def specials(ty):
    if ty == "double":
        return sorted(D_SPECIAL)
    return []



def build_header_only(name, extra_flags=(), parts=6, jobs=6):
    """Compile harness/<name>.cc against the HEADERS of the working tree only (the code under
    test is header-only: no libvita.a needed, which saves the 28-file library build).  The source
    is compiled in `parts` pieces (-DC20_PART=i: one element type each) in parallel and linked.
    Cached by the hash of the source tree, the harness and the flags."""
    import concurrent.futures as cf
    import hashlib
    import time
    out = os.path.join(C.BUILD, "asan")
    os.makedirs(out, exist_ok=True)
    src = os.path.join(C.ROOT, "harness", name + ".cc")
    exe = os.path.join(out, name)
    flags = C.cxx_flags("asan") + ["-I" + os.path.join(C.ROOT, "harness")] + list(extra_flags)
    h = hashlib.sha256()
    h.update(C.repo_tree_hash(" ".join(flags)).encode())
    for s in (src, os.path.join(C.ROOT, "harness", "common", "verif.h")):
        h.update(open(s, "rb").read())
    key = h.hexdigest()
    stamp = exe + ".stamp"
    if os.path.exists(exe) and os.path.exists(stamp) and open(stamp).read() == key:
        return exe
    t0 = time.time()

    def comp(i):
        o = "%s.part%d.o" % (exe, i)
        rc, so, se = C.sh(["g++"] + flags + ["-DC20_PART=%d" % i, "-c", src, "-o", o])
        return o, rc, se

    with cf.ThreadPoolExecutor(jobs) as ex:
        res = list(ex.map(comp, range(parts)))
    bad = [se for _, rc, se in res if rc != 0]
    if bad:
        raise RuntimeError("harness %s does not compile against the working tree:\n%s" % (name, bad[0][-6000:]))
    rc, so, se = C.sh(["g++"] + flags + [o for o, _, _ in res] + ["-o", exe])
    if rc != 0:
        raise RuntimeError("harness %s does not link:\n%s" % (name, se[-6000:]))
    with open(stamp, "w") as f:
        f.write(key)
    C.log("[build] harness %s (asan, header-only, %d parts) built in %.1fs" % (name, parts, time.time() - t0))
    return exe


# ---------------------------------------------------------------------------
# script generation (Python keeps the List semantics itself: a third opinion)
# ---------------------------------------------------------------------------

class Script:
    def __init__(self, ty, S, tag):
        self.ty, self.S, self.tag = ty, S, tag
        self.lines = ["new %s %d" % (ty, S)]
        self.reg = [[], []]            # abstract contents
        self.spec = [True, True]       # False = moved-from (unspecified)
        self.expect = [None]           # per line: None or expected observation
        self.nid = 1

    def fresh(self):
        self.nid += 1
        return self.nid

    def val(self, rng, p=12):
        """A value for a script: mostly fresh ordinary ids; with probability p% a value on which the
        element type's `==`/`<` differ from the identity of representations (0, -0, NaN, inf, a pod
        with an already used key and another `aux`)."""
        if rng.below(100) < p:
            if self.ty == "double":
                return rng.choice([0, 0] + specials("double"))
            if self.ty == "pod":
                pool = [v for r in self.reg for v in r] or [self.fresh()]
                return (rng.choice(pool) % POD) + POD * rng.below(4)
        return self.fresh()

    def op(self, r, name, *args):
        """Append an operation; returns False (and appends nothing) if its precondition fails."""
        x, y = self.reg[r], self.reg[1 - r]
        sx, sy = self.spec[r], self.spec[1 - r]
        exp = None
        if name == "ctorN":
            self.reg[r] = [0] * args[0]
            self.spec[r] = True
        elif name == "ctorNX":
            self.reg[r] = [args[1]] * args[0]
            self.spec[r] = True
        elif name == "ctorList":
            self.reg[r] = list(args[1:])
            self.spec[r] = True
        elif name in ("ctorCopy", "assignCopy"):
            if not sy:
                return False
            self.reg[r] = list(y)
            self.spec[r] = True
        elif name in ("ctorMove", "assignMove"):
            if not sy:
                return False
            self.reg[r] = list(y)
            self.reg[1 - r] = []
            self.spec[r] = True
            self.spec[1 - r] = False
        elif name == "assignSelf":
            pass
        elif name == "clear":
            self.reg[r] = []
            self.spec[r] = True
        elif name == "maxSize":
            exp = MAXSIZE
        else:
            if not sx:
                return False
            if name in ("pushBack", "emplaceBack"):
                if args[0] == "s":
                    if args[1] >= len(x):
                        return False
                    x.append(x[args[1]])
                else:
                    if args[0] == "a0" and args[1] != 0:
                        return False
                    if args[0] in ("a2", "a3") and self.ty in ("int", "double"):
                        return False
                    x.append(args[1])
            elif name in ("insert", "insertL"):
                pos, vals = args[0], list(args[2:])
                if pos > len(x):
                    return False
                x[pos:pos] = vals
                exp = str(pos)
            elif name in ("front", "back"):
                if not x:
                    return False
                exp = str(x[0] if name == "front" else x[-1])
            elif name in ("setFront", "setBack"):
                if not x:
                    return False
                x[0 if name == "setFront" else -1] = args[0]
            elif name == "dataAt":
                if args[0] >= len(x):
                    return False
                exp = str(x[args[0]])
            elif name == "setData":
                if args[0] >= len(x):
                    return False
                x[args[0]] = args[1]
            elif name in ("iterFwd", "iterRev"):
                l = x if name == "iterFwd" else x[::-1]
                exp = ",".join(str(v) for v in l) if l else "-"
            elif name == "empty":
                exp = "0" if x else "1"
            elif name == "size":
                exp = str(len(x))
            elif name == "capOk":
                exp = "1"
            elif name == "cmp":
                if not sy:
                    return False
                exp = "1" if vec_cmp(self.ty, args[0], x, y) else "0"
            elif name == "cmpMixed":
                if not sy:
                    return False
                a, b = (y, x) if args[2] else (x, y)
                exp = "1" if vec_cmp(self.ty, args[1], a, b) else "0"
            elif name == "resize":
                n = args[0]
                del x[n:]
                x.extend([0] * (n - len(x)))
            elif name == "reserve":
                pass
            elif name == "setAt":
                if args[0] >= len(x):
                    return False
                x[args[0]] = args[1]
            elif name == "getAt":
                if args[0] >= len(x):
                    return False
                exp = str(x[args[0]])
            elif name in ("cmpEq", "cmpLt"):
                if not sy:
                    return False
                exp = "1" if vec_cmp(self.ty, "eq" if name == "cmpEq" else "lt", x, y) else "0"
            else:
                raise ValueError(name)
        self.lines.append("%d %s%s" % (r, name, "".join(" " + str(a) for a in args)))
        self.expect.append(exp)
        return True

    def raw(self, line):
        """A request that must be rejected (`precond` / `bad-op`) by both sides."""
        self.lines.append(line)
        self.expect.append("reject")

    def done(self):
        self.lines.append("end")
        self.expect.append(None)
        return self

    def fill(self, r, n, how):
        """Bring register r to n fresh elements by one of several routes."""
        vals = [self.fresh() for _ in range(n)]
        if how == 0:
            self.op(r, "clear")
            for v in vals:
                self.op(r, "pushBack", "v", v)
        elif how == 1:
            self.op(r, "ctorList", n, *vals) if n <= 10 else self.fill(r, n, 0)
        elif how == 2:
            self.op(r, "clear")
            if n:
                self.op(r, "insert", 0, n, *vals)
        else:
            self.op(r, "ctorN", n)
            for i, v in enumerate(vals):
                self.op(r, "setAt", i, v)


def sizes_around(S):
    return sorted({0, 1, max(S - 1, 0), S, S + 1, S + 2, 2 * S, 2 * S + 1})


def directed(ty, S, rng, quick):
    out = []
    # (a) insert: every size, every position, range lengths 0..3 (+ one longer), with / without spare capacity
    for n in range(0, S + 3):
        for pos in range(0, n + 1):
            for k in (0, 1, 2, 3, n + 2):
                for spare in (0, 1):
                    if quick and spare and (n + pos + k) % 2:
                        continue
                    s = Script(ty, S, "insert")
                    s.fill(0, n, (n + pos + k) % 3)
                    if spare:
                        s.op(0, "reserve", n + k + 1 + (pos % 2) * S)
                    s.op(0, "insert", pos, k, *[s.fresh() for _ in range(k)])
                    s.op(0, "getAt", min(pos, max(len(s.reg[0]) - 1, 0))) if s.reg[0] else None
                    s.op(0, "pushBack", "v", s.fresh())
                    out.append(s.done())
    # (b) construction / assignment across the inline/heap boundary, spare capacity on either side
    szs = sizes_around(S)
    for d in szs:
        for sn in szs:
            for opn in ("assignCopy", "assignMove", "ctorCopy", "ctorMove"):
                for dcap in (0, S + 1, 2 * S + 2):
                    for scap in (0, 2 * S + 2):
                        if quick and (d + sn + dcap + scap + len(opn)) % 3 == 0:
                            continue
                        s = Script(ty, S, opn)
                        s.fill(0, d, (d + sn) % 4)
                        if dcap:
                            s.op(0, "reserve", dcap)
                        s.fill(1, sn, (d + sn + 1) % 4)
                        if scap:
                            s.op(1, "reserve", scap)
                        s.op(0, opn)
                        s.op(0, "cmpEq") if s.spec[1] else None
                        s.op(0, "pushBack", "v", s.fresh())
                        s.op(1, "assignCopy")         # the source (possibly moved-from) is reusable
                        s.op(1, "cmpEq")
                        s.op(1, "pushBack", "s", 0)
                        out.append(s.done())
    # (c) self-referential push_back / emplace_back at every size (hits every capacity boundary)
    for which in ("pushBack", "emplaceBack"):
        for start in (0, 1):
            s = Script(ty, S, which + "-self")
            if start:
                s.op(0, "pushBack", "v", s.fresh())
            else:
                s.op(0, "ctorList", 1, s.fresh())
            for i in range(3 * S + 4):
                s.op(0, which, "s", i % len(s.reg[0]))
                if i % 3 == 2:
                    s.op(0, which, "v", s.fresh())
            out.append(s.done())
    # (d) resize / sized construction / clear transitions
    for a in szs:
        for b in szs:
            for viaheap in (0, 1):
                s = Script(ty, S, "resize")
                if viaheap:
                    s.fill(0, 2 * S + 1, 0)       # leave stale values behind
                    s.op(0, "clear")
                s.fill(0, a, (a + b) % 3)
                s.op(0, "resize", b)
                s.op(0, "resize", a)
                s.op(0, "ctorN", b)
                s.op(0, "pushBack", "v", s.fresh())
                s.op(1, "ctorNX", a, s.fresh())
                s.op(1, "resize", b)
                s.op(0, "cmpLt")
                out.append(s.done())
    # (f) comparison: the six operators, on vectors that are equal / differ only in a value whose `==` is not
    #     the identity of representations (+0/-0, NaN, pod aux) / differ in one ordinary value / in length,
    #     with either operand inline or on the heap, and against a small_vector of another inline capacity
    lens = sorted({0, 1, max(S - 1, 1), S, S + 1, 2 * S + 1})
    idx = 0
    for n in lens:
        base = [s0 for s0 in range(3, 3 + n)]
        if ty == "double" and n:
            base[n // 2] = 0                                    # a zero that can become -0.0
        muts = [("same", None)]
        for pos in sorted({0, n // 2, n - 1}) if n else []:
            for v in variants(ty, base[pos])[:2]:
                muts.append(("variant", (pos, v)))
            for v in unordered(ty):
                muts.append(("unordered", (pos, v)))
            muts.append(("less", (pos, 1)))
            muts.append(("greater", (pos, 99)))
            if ty == "double":
                muts.append(("special", (pos, specials(ty)[(pos + n) % len(specials(ty))])))
        muts += [("shorter", None), ("longer", None)]
        for kind, arg in muts:
            for px in (0, 1):
                for py in (0, 1):
                    idx += 1
                    if quick and (idx + px + 2 * py) % 3 == 0 and kind not in ("variant", "unordered"):
                        continue
                    xs, ys = list(base), list(base)
                    if kind == "unordered":
                        xs[arg[0]] = arg[1]                     # the SAME NaN on both sides: still unequal
                        ys[arg[0]] = arg[1]
                    elif arg is not None:
                        ys[arg[0]] = arg[1]
                    elif kind == "shorter":
                        ys = ys[:-1]
                    elif kind == "longer":
                        ys = ys + [7]
                    sc = Script(ty, S, "compare")
                    for r, vals, heap in ((0, xs, px), (1, ys, py)):
                        if heap:
                            sc.op(r, "reserve", 2 * S + 2)      # elements on the heap whatever the size
                        if (idx + r) % 2 and len(vals) <= 10:
                            sc.op(r, "insert", 0, len(vals), *vals) if vals else None
                        else:
                            for v in vals:
                                sc.op(r, "pushBack", "v", v)
                    for k in CMPS:
                        sc.op(idx % 2, "cmp", k)
                    for j, k in enumerate(CMPS):
                        sc.op((idx + j) % 2, "cmpMixed", (1, 4, 8)[(idx + j) % 3], k, (idx + j // 3) % 2)
                    out.append(sc.done())
    # (g) element access, iterators, observers; emplace_back with 0..3 constructor arguments; list iterators
    for n in szs:
        for heap in (0, 1):
            sc = Script(ty, S, "access")
            if heap:
                sc.op(0, "reserve", 2 * S + 2)
            sc.fill(0, n, n % 3) if not heap else [sc.op(0, "pushBack", "v", sc.val(rng, 30)) for _ in range(n)]
            for nm in ("empty", "size", "capOk", "maxSize", "iterFwd", "iterRev", "front", "back"):
                sc.op(0, nm)
            for i in sorted({0, n // 2, n - 1}) if n else []:
                sc.op(0, "dataAt", i)
                sc.op(0, "setData", i, sc.val(rng, 30))
            sc.op(0, "setFront", sc.val(rng, 30))
            sc.op(0, "setBack", sc.val(rng, 30))
            sc.op(0, "iterFwd")
            sc.op(0, "insertL", n // 2, 2, sc.fresh(), sc.fresh())
            sc.op(0, "iterRev")
            sc.op(1, "ctorMove")
            sc.op(1, "iterFwd")
            sc.op(1, "back")
            sc.op(0, "maxSize")
            out.append(sc.done())
    for start in (0, max(S - 2, 0)):
        sc = Script(ty, S, "emplace-args")
        sc.fill(0, start, 0)
        for i in range(2 * S + 3):
            k = i % 4
            v = 0 if k == 0 else sc.fresh()
            if not sc.op(0, "emplaceBack", "a%d" % k, v):
                sc.op(0, "emplaceBack", "a1", sc.fresh())
        sc.op(0, "iterFwd")
        out.append(sc.done())
    for n in range(0, S + 2):
        for pos in range(0, n + 1):
            for k in (0, 1, n + 1):
                if quick and (n + pos + k) % 2:
                    continue
                sc = Script(ty, S, "insert-list")
                sc.fill(0, n, (n + pos) % 3)
                sc.op(0, "insertL", pos, k, *[sc.fresh() for _ in range(k)])
                sc.op(0, "iterFwd")
                out.append(sc.done())
    # (e) rejected requests leave everything untouched
    s = Script(ty, S, "reject")
    s.fill(0, S, 0)
    for ln in ("0 insert %d 1 5" % (S + 1), "0 getAt %d" % S, "0 setAt %d 1" % S, "0 pushBack s %d" % S,
               "2 clear", "0 frobnicate", "0 insert 0 2 1", "0 resize", "0 pushBack x 1", "0 ctorN 100",
               "0 dataAt %d" % S, "0 setData %d 1" % S, "0 insertL %d 1 5" % (S + 1), "0 cmp xx", "0 cmp",
               "0 cmpMixed 2 eq 0", "0 cmpMixed 4 eq 2", "0 cmpMixed 4 zz 0", "0 emplaceBack a4 1",
               "0 emplaceBack a0 5", "0 front 1", "0 iterFwd 1", "1 front", "1 back", "1 setFront 1", "1 setBack 1"):
        s.raw(ln)
    s.op(1, "ctorMove")
    for ln in ("0 pushBack v 1", "0 getAt 0", "1 assignCopy", "1 cmpEq", "0 resize 2", "0 front", "0 iterFwd",
               "0 empty", "0 size", "0 capOk", "1 cmp eq", "1 cmpMixed 4 lt 0", "0 setData 0 1", "0 emplaceBack a1 3"):
        s.raw(ln)
    s.op(0, "clear")
    s.op(0, "pushBack", "v", 3)
    out.append(s.done())
    return out


def random_script(ty, S, rng, length):
    s = Script(ty, S, "random")
    for _ in range(length):
        r = rng.below(2)
        x = s.reg[r]
        k = rng.below(120)
        n = len(x)
        if k < 20:
            s.op(r, rng.choice(["pushBack", "emplaceBack"]), "v", s.val(rng))
        elif k < 23:
            a = rng.below(4)
            s.op(r, "emplaceBack", "a%d" % a, 0 if a == 0 else s.val(rng))
        elif k < 30:
            if n:
                s.op(r, rng.choice(["pushBack", "emplaceBack"]), "s", rng.below(n))
        elif k < 48:
            cnt = rng.choice([0, 0, 1, 1, 2, 3, S, S + 1])
            if n + cnt <= 40:
                s.op(r, rng.choice(["insert", "insert", "insertL"]), rng.below(n + 1), cnt,
                     *[s.val(rng) for _ in range(cnt)])
        elif k < 56:
            s.op(r, "resize", rng.choice([0, 1, max(n - 1, 0), n + 1, S, S + 1, 2 * S, rng.below(2 * S + 3)]))
        elif k < 62:
            s.op(r, "reserve", rng.choice([0, S, S + 1, n + 1, n + S, 2 * S + 1]))
        elif k < 66:
            s.op(r, "clear")
        elif k < 74:
            s.op(r, "assignCopy")
        elif k < 80:
            s.op(r, "assignMove")
        elif k < 83:
            s.op(r, "assignSelf")
        elif k < 86:
            s.op(r, "ctorCopy")
        elif k < 89:
            s.op(r, "ctorMove")
        elif k < 91:
            s.op(r, "ctorN", rng.below(2 * S + 2))
        elif k < 93:
            s.op(r, "ctorNX", rng.below(2 * S + 2), s.val(rng, 30))
        elif k < 95:
            m = rng.below(min(2 * S + 2, 11))
            s.op(r, "ctorList", m, *[s.val(rng) for _ in range(m)])
        elif k < 97:
            if n:
                s.op(r, rng.choice(["setAt", "setData"]), rng.below(n), s.val(rng, 30))
        elif k < 98:
            if n:
                s.op(r, rng.choice(["getAt", "dataAt"]), rng.below(n))
        elif k < 100:
            s.op(r, rng.choice(["cmpEq", "cmpLt"]))
        elif k < 106:
            s.op(r, "cmp", rng.choice(CMPS))
        elif k < 110:
            s.op(r, "cmpMixed", rng.choice([1, 4, 8]), rng.choice(CMPS), rng.below(2))
        elif k < 112:
            # make the other register an element-wise (nearly) equal copy, then compare
            if s.op(r, "assignCopy") and s.reg[r]:
                i = rng.below(len(s.reg[r]))
                alt = variants(ty, s.reg[r][i]) + unordered(ty)
                if alt:
                    s.op(r, "setAt", i, rng.choice(alt))
                s.op(r, "cmp", rng.choice(CMPS))
        elif k < 115:
            s.op(r, rng.choice(["front", "back", "iterFwd", "iterRev"]))
        elif k < 117:
            s.op(r, rng.choice(["setFront", "setBack"]), s.val(rng, 30))
        else:
            s.op(r, rng.choice(["empty", "size", "capOk", "maxSize"]))
    return s.done()


# ---------------------------------------------------------------------------
# answers
# ---------------------------------------------------------------------------

def parse_reg(txt, with_oracle):
    t = txt.split()
    reg = {"spec": t[0] == "S", "size": int(t[1]), "cap": int(t[2]), "els": None, "ora": None}
    if reg["spec"]:
        reg["els"] = [] if t[3] == "-" else t[3].split(",")
        if with_oracle:
            reg["ora"] = [] if t[5] == "-" else t[5].split(",")
    return reg


_last = [None, None]


def parse_cpp(ans):
    if _last[0] is ans:                  # the same answer is looked at by several stages in a row
        return _last[1]
    p = [x.strip() for x in ans.split("|")]
    r = {"obs": p[0].split()[1], "regs": [parse_reg(p[1], True), parse_reg(p[2], True)],
         "ev": [int(x) for x in p[3].split()[1:]]}
    _last[0], _last[1] = ans, r
    return r


def parse_model(ans):
    p = [x.strip() for x in ans.split("|")]
    return {"obs": p[0].split()[1], "regs": [parse_reg(p[1], False), parse_reg(p[2], False)]}


CMP_OPS = ("cmpEq", "cmpLt", "cmp", "cmpMixed")


def own_oracle(sc, i, ans, S):
    """The property's own oracle on one C++ answer.  Returns (kind, message) or None."""
    ln = sc.lines[i]
    if ans == "skipped":
        return ("skipped", "not evaluated (too many process deaths before this request)")
    if ans.startswith("died"):
        return ("died", "the process died / hung (sanitizer abort, crash or watchdog) on `%s`: %s" % (ln, ans))
    if sc.expect[i] == "reject":
        return None if ans in ("precond", "bad-op") else ("accept", "request `%s` was not rejected: %s" % (ln, ans))
    if ln == "end":
        t = ans.split()
        if t[:2] != ["end", "live"]:
            return ("protocol", "unexpected answer to end: " + ans)
        live, blocks, ev = int(t[2]), int(t[4]), [int(x) for x in t[6:]]
        if live:
            return ("leak", "%d element objects still alive after both vectors were destroyed" % live)
        if blocks:
            return ("leak", "%d heap block(s) allocated during the script were not released (operator new/delete "
                    "balance) after both vectors were destroyed" % blocks)
        for k, n in zip(EVN, ev):
            if n:
                return (k, "%d %s event(s) while destroying the vectors" % (n, k))
        return None
    if ln.startswith("new"):
        return None if ans == "ok new" else ("protocol", ans)
    if not ans.startswith("ok "):
        return ("protocol", "request `%s` answered %r" % (ln, ans))
    a = parse_cpp(ans)
    for k, n in zip(EVN, a["ev"]):
        if n:
            return (k, "%d %s event(s) during `%s`" % (n, k, ln))
    for r in (0, 1):
        g = a["regs"][r]
        if g["cap"] < g["size"] or g["cap"] < S:
            return ("capacity", "register %d: capacity %d with size %d, S=%d" % (r, g["cap"], g["size"], S))
        if g["spec"]:
            if g["els"] != g["ora"]:
                return ("contents", "after `%s` register %d holds [%s], std::vector holds [%s]"
                        % (ln, r, ",".join(g["els"]), ",".join(g["ora"])))
    op = ln.split()[1]
    want = sc.expect[i]
    if op in CMP_OPS:
        o = a["obs"]
        if o[0] != o[1] or o[2] != "c":
            return ("compare", "`%s`: small_vector says %s, std::vector says %s; the six operators == != < > <= >= "
                    "%s" % (ln, o[0], o[1], "agree with std::vector's" if o[2] == "c" else
                            "give (small_vector/std::vector) " + o[4:]))
        if want is not None and o[1] != want:
            return ("harness-oracle", "`%s`: std::vector says %s, the element-wise semantics gives %s" % (ln, o[1], want))
    elif want is not None and a["obs"] != want:
        return ("observation", "`%s` returned %s, std::vector semantics gives %s" % (ln, a["obs"], want))
    if op == "reserve" and a["obs"] != "-":
        return ("capacity", "`%s`: capacity smaller than requested" % ln)
    return None


def spec_mismatch(sc_regs, sc_spec, a):
    """Python's List semantics against the harness's std::vector (sanity of the harness itself)."""
    for r in (0, 1):
        g = a["regs"][r]
        if g["spec"] != sc_spec[r]:
            return "register %d specified=%s, expected %s" % (r, g["spec"], sc_spec[r])
        if g["spec"] and g["ora"] != [str(v) for v in sc_regs[r]]:
            return "register %d std::vector holds %s, List semantics %s" % (r, g["ora"], sc_regs[r])
    return None


def model_vs_cpp(ln, c_ans, m_ans):
    """None if they agree, else a message."""
    if c_ans in ("precond", "bad-op") or m_ans in ("precond", "bad-op"):
        return None if c_ans == m_ans else "code answers %r, model answers %r" % (c_ans, m_ans)
    if ln == "end":
        return None if m_ans == "end ok" else "model: " + m_ans
    if ln.startswith("new"):
        return None if c_ans == m_ans else "code %r model %r" % (c_ans, m_ans)
    if not m_ans.startswith("ok "):
        return "model answers %r" % m_ans
    a, m = parse_cpp(c_ans), parse_model(m_ans)
    op = ln.split()[1]
    co = a["obs"][0] if op in CMP_OPS else a["obs"]
    if co != m["obs"]:
        return "observation: code %s, model %s" % (co, m["obs"])
    for r in (0, 1):
        g, h = a["regs"][r], m["regs"][r]
        if g["spec"] != h["spec"] or g["size"] != h["size"]:
            return "register %d: code size %d (%s), model size %d (%s)" % (
                r, g["size"], "S" if g["spec"] else "U", h["size"], "S" if h["spec"] else "U")
        if g["spec"] and g["els"] != h["els"]:
            return "register %d: code [%s], model [%s]" % (r, ",".join(g["els"]), ",".join(h["els"]))
    return None


# ---------------------------------------------------------------------------

def opname_of(ln):
    t = ln.split()
    return t[1] if len(t) > 1 and t[0] in ("0", "1") else t[0]


def run_scripts(exe, scripts, use_model=True, procs=4):
    """Run every script through the compiled class (several harness processes side by side, each on a
    contiguous group of whole scripts) and, at the same time, through the compiled Lean model."""
    import concurrent.futures as cf
    lines = [ln for s in scripts for ln in s.lines]
    groups, cur, tot = [], [], 0
    per = max(1, len(lines) // procs + 1)
    for sc in scripts:
        cur += sc.lines
        if len(cur) >= per:
            groups.append(cur)
            cur = []
    if cur:
        groups.append(cur)
    model = None
    err = None
    with cf.ThreadPoolExecutor(len(groups) + 1) as ex:
        fm = ex.submit(C.run_driver, "c20_driver", lines) if use_model else None
        fs = [ex.submit(C.run_lines, exe, g, (), None, 1800, 40) for g in groups]
        cpp, deaths, off = [], [], 0
        for g, f in zip(groups, fs):
            a, d = f.result()
            a = (a + ["skipped"] * len(g))[:len(g)]
            cpp += a
            deaths += [(off + i, rc, tail) for i, rc, tail in d]
            off += len(g)
        if fm is not None:
            try:
                model = fm.result()
            except RuntimeError as e:
                err = str(e)
    return lines, cpp, model, deaths, err


def first_failure(sc, cpp, off):
    for i in range(len(sc.lines)):
        if off + i >= len(cpp):
            return None
        f = own_oracle(sc, i, cpp[off + i], sc.S)
        if f:
            return i, f
    return None


LEGEND = {"double": " [element ids: 0 = +0.0, 90000001 = -0.0, 90000002/90000003 = NaN, 90000004 = +inf, 90000005 = "
                    "-inf, 90000006 = -1.0, 90000007 = denorm_min, 90000008 = -2.0, n = double(n)]",
          "pod": " [element ids: aux * 1000000 + key; Pod::operator== and < compare `key` only]"}


def shrink(exe, sc, kind, budget=160):
    """Greedy removal of operations while the same kind of failure persists (own oracle only)."""
    ops = sc.lines[1:-1]

    def fails(cand):
        t = Script(sc.ty, sc.S, sc.tag)
        t.lines = [sc.lines[0]] + cand + ["end"]
        t.expect = [None] * len(t.lines)
        ans, _ = C.run_lines(exe, t.lines, max_restarts=3)
        for i, a in enumerate(ans):
            if a in ("precond", "bad-op"):
                return False                # the candidate is no longer a valid script
            f = own_oracle(t, i, a, sc.S)
            if f:
                return f[0] == kind
        return False

    def twin(i):
        """index of the same operation on the other register (vectors that must stay alike), or None"""
        t = ops[i].split(" ", 1)
        if len(t) < 2 or t[0] not in ("0", "1"):
            return None
        want = ("1" if t[0] == "0" else "0") + " " + t[1]
        for j in range(len(ops) - 1, -1, -1):
            if j != i and ops[j] == want:
                return j
        return None

    changed = True
    while changed and budget > 0:
        changed = False
        i = len(ops) - 1
        while i >= 0 and budget > 0:
            cand = ops[:i] + ops[i + 1:]
            budget -= 1
            if fails(cand):
                ops = cand
                changed = True
            else:
                j = twin(i)
                if j is not None and budget > 0:
                    lo, hi = min(i, j), max(i, j)
                    cand = ops[:lo] + ops[lo + 1:hi] + ops[hi + 1:]
                    budget -= 1
                    if fails(cand):
                        ops = cand
                        changed = True
                        i = min(i, len(ops))
            i -= 1
    return [sc.lines[0]] + ops + ["end"]


def translate(chk, broken):
    """Regenerate lean/Vita/C20/Gen.lean from the clang AST of the working tree (statement skeleton of every
    function of small_vector.{h,tcc}; members used by the library).  Cached by the hash of the source tree and of
    the translator."""
    import hashlib
    gen_path = os.path.join(C.LEAN, "Vita", "C20", "Gen.lean")
    h = hashlib.sha256()
    h.update(C.repo_tree_hash("c20-translate").encode())
    for f in ("translate_smallvec.py", "cxx2lean.py", os.path.join("tu", "smallvec_tu.cc"),
              os.path.join("tu", "smallvec_users_tu.cc")):
        h.update(open(os.path.join(C.ROOT, "tools", f), "rb").read())
    if os.path.exists(gen_path):
        h.update(open(gen_path, "rb").read())
    key = h.hexdigest()
    os.makedirs(C.BUILD, exist_ok=True)
    stamp = os.path.join(C.BUILD, "c20_gen.stamp")
    info_path = os.path.join(C.BUILD, "c20_gen.json")
    if os.path.exists(stamp) and os.path.exists(info_path) and open(stamp).read() == key:
        info = json.load(open(info_path))
    else:
        try:
            info, changed = translate_smallvec.emit(gen_path)
        except Exception as e:      # Refuse, clang failure
            broken.append("translator tools/translate_smallvec.py refuses the current sources: %s" % (e,))
            return
        if changed:
            C.log("[C20] lean/Vita/C20/Gen.lean regenerated (the sources of small_vector or its users changed)")
        h = hashlib.sha256()
        h.update(C.repo_tree_hash("c20-translate").encode())
        for f in ("translate_smallvec.py", "cxx2lean.py", os.path.join("tu", "smallvec_tu.cc"),
                  os.path.join("tu", "smallvec_users_tu.cc")):
            h.update(open(os.path.join(C.ROOT, "tools", f), "rb").read())
        h.update(open(gen_path, "rb").read())
        json.dump(info, open(info_path, "w"))
        with open(stamp, "w") as f:
            f.write(h.hexdigest())
    chk.cov["translated_functions"] = len(info["functions"])
    chk.cov["members_used_by_the_library"] = info["used"]
    chk.cov["translator_mode"] = info.get("mode")
    for spec, sigs in info["used"].items():
        chk.count("user:" + spec, len(sigs))


def skeleton_diff():
    """Which functions of Gen.lean (from the AST) differ from Skeleton.lean (what the model implements)."""
    import difflib
    import re

    def defs(path):
        try:
            txt = open(path).read()
        except OSError:
            return {}
        out = {}
        for m in re.finditer(r"^def (\w+Sk) : List Sk := (.*?)(?=^\s*$)", txt, re.M | re.S):
            out[m.group(1)] = [ln.strip() for ln in m.group(2).strip().splitlines()]
        return out
    g = defs(os.path.join(C.LEAN, "Vita", "C20", "Gen.lean"))
    h = defs(os.path.join(C.LEAN, "Vita", "C20", "Skeleton.lean"))
    msgs = []
    for k in sorted(set(g) | set(h)):
        if k not in h:
            msgs.append("%s: new function, not in the model" % k)
        elif k not in g:
            msgs.append("%s: function no longer in the sources" % k)
        elif g[k] != h[k]:
            d = [ln for ln in difflib.unified_diff(h[k], g[k], "model", "source", lineterm="", n=0)
                 if not ln.startswith(("---", "+++", "@@"))]
            msgs.append("%s: %s" % (k, " | ".join(d[:8])))
    return msgs


def run(chk, replay=None):
    rng = C.SplitMix(chk.seed)
    quick = chk.tier == "quick"
    broken = []

    translate(chk, broken)
    ok, out = C.lake_build(["c20_driver"])
    drv_ok = ok
    if not ok:
        broken.append("the model / driver does not build: " + C.lean_errors(out))
    ok, msg = chk.prove("Vita.C20.Props", ["Vita.C20.Props"])
    if not ok:
        sd = skeleton_diff()
        broken.append("theorems of Vita.C20.Props no longer check: " + msg +
                      ("\nstatement skeletons that differ from the model (- model / + source): " + "; ".join(sd[:6])
                       if sd else ""))

    exe = build_header_only("c20_smallvec", ["-O0"])

    scripts = []
    if replay:
        r = json.load(open(replay))["replay"]
        ls = r["script"]
        t = ls[0].split()
        s = Script(t[1], int(t[2]), "replay")
        s.lines = list(ls)
        s.expect = [None] * len(ls)
        scripts.append(s)
    else:
        cdir = os.path.join(C.ROOT, "corpus", "C20")
        if os.path.isdir(cdir):
            for f in sorted(os.listdir(cdir)):
                cur = None
                for ln in open(os.path.join(cdir, f)):
                    ln = ln.strip()
                    if not ln or ln.startswith("#"):
                        continue
                    if ln.startswith("new"):
                        t = ln.split()
                        cur = Script(t[1], int(t[2]), "corpus")
                        cur.lines = []
                        cur.expect = []
                    cur.lines.append(ln)
                    cur.expect.append(None)
                    if ln == "end":
                        scripts.append(cur)
                        chk.count("corpus_scripts")
        ncorpus = len(scripts)
        for ty in TYPES:
            for S in range(1, 9):
                scripts += directed(ty, S, rng, quick)
        nrand = 2500 if quick else 80000
        for _ in range(nrand):
            ty = rng.choice(TYPES)
            S = 1 + rng.below(8)
            scripts.append(random_script(ty, S, rng, 8 + rng.below(40)))

    if not replay:
        # deterministic shuffle: a defect that kills the process must not starve the other families
        for j in range(len(scripts) - 1, ncorpus, -1):
            k = ncorpus + rng.below(j + 1 - ncorpus)
            scripts[j], scripts[k] = scripts[k], scripts[j]
    lines, cpp, model, deaths, err = run_scripts(exe, scripts, drv_ok)
    if err:
        broken.append("driver failed: " + err)
    chk.cov["scripts"] = len(scripts)
    chk.cov["harness_deaths"] = len(deaths)

    ndis = 0
    nviol = 0
    off = 0
    classes = {}        # failure class -> number of failing scripts (one shrunk representative is reported)
    for sc in scripts:
        n = len(sc.lines)
        # replay of List semantics for the sanity check of the harness oracle
        mirror = Script(sc.ty, sc.S, sc.tag) if sc.tag not in ("corpus", "replay") else None
        fail = None
        for i in range(n):
            if off + i >= len(cpp):
                break
            ln, ans = sc.lines[i], cpp[off + i]
            chk.seen((sc.ty, sc.S, tuple(sc.lines[:i + 1])) if i == n - 1 else None, nontrivial=(i == n - 1))
            t = ln.split()
            opname = t[1] if len(t) > 1 and t[0] in ("0", "1") else t[0]
            chk.count("op:" + opname)
            f = own_oracle(sc, i, ans, sc.S)
            if f and f[0] == "skipped":
                chk.count("scripts_not_evaluated")
                break
            if f and f[0] == "harness-oracle":
                broken.append("the harness's std::vector oracle disagrees with the element-wise semantics kept by "
                              "the check: %s (script %s)" % (f[1], json.dumps(sc.lines[:i + 1])))
                break
            if f:
                fail = (i, f)
                break
            if ans.startswith("ok ") and ln != "end" and not ln.startswith("new"):
                a = parse_cpp(ans)
                g = a["regs"][int(t[0])]
                chk.count("storage:" + ("heap" if g["cap"] > sc.S else "inline-or-heap=S"))
                if mirror is not None and sc.expect[i] != "reject":
                    args = [int(x) if x.isdigit() else x for x in t[2:]]
                    mirror.op(int(t[0]), t[1], *args)
                    mm = spec_mismatch(mirror.reg, mirror.spec, a)
                    if mm:
                        broken.append("harness oracle disagrees with the List semantics on `%s` of %s: %s"
                                      % (ln, sc.lines[:i + 1], mm))
                        break
            elif ans in ("precond", "bad-op"):
                chk.count("rejected")
            if model is not None and off + i < len(model):
                d = model_vs_cpp(ln, ans, model[off + i])
                if d:
                    ndis += 1
                    if ndis <= 3:
                        broken.append("model and compiled code disagree after `%s` of script %s: %s (the code "
                                      "agrees with std::vector there)" % (ln, json.dumps(sc.lines[:i + 1]), d))
                    break
        cls = None
        if fail:
            cls = "%s/%s/%s" % (fail[1][0], opname_of(sc.lines[fail[0]]),
                                "trivial" if sc.ty in TRIVIAL else "non-trivial")
            classes[cls] = classes.get(cls, 0) + 1
        if fail and classes[cls] == 1 and len(classes) <= 12:
            nviol += 1
            i, (kind, msg) = fail
            script = sc.lines[:i + 1] + ([] if sc.lines[i] == "end" else ["end"])
            if not replay:
                t = Script(sc.ty, sc.S, sc.tag)
                t.lines = script
                try:
                    script = shrink(exe, t, kind)
                except Exception as e:      # shrinking is best effort
                    chk.notes.append("shrink failed: %r" % (e,))
            mans = model[off + i] if model is not None and off + i < len(model) else None
            chk.violation("small_vector<%s,%d> %s: %s%s" % (sc.ty, sc.S, kind, msg, LEGEND.get(sc.ty, "")),
                          {"script": script, "found_in": sc.tag, "kind": kind, "cpp_answer": cpp[off + i][:400],
                           "model_answer": mans},
                          tags={"type": sc.ty, "S": sc.S, "kind": kind, "op": opname_of(sc.lines[i]),
                                "script": " ; ".join(script)})
        elif fail:
            nviol += 1
        chk.count("type:" + sc.ty)
        chk.count("S:%d" % sc.S)
        chk.count("kind:" + sc.tag)
        off += n
    chk.cov["model_vs_code_disagreements"] = ndis
    chk.cov["failing_scripts"] = nviol
    chk.cov["failure_classes"] = classes
    if classes:
        C.log("[C20] failure classes: " + json.dumps(classes))
    for sc in scripts[:3]:
        chk.sample({"script": sc.lines[:12]})

    chk.violations.sort(key=lambda v: (v[2], len(json.dumps(v[1], default=str))))
    if broken and not [v for v in chk.violations if not v[2]]:
        for b in broken[:4]:
            chk.violation(b, {"broken": b, "searched": "%d scripts / %d requests under ASan+LSan with the std::vector "
                              "and lifetime oracles: no failing input" % (len(scripts), len(lines))}, no_input=True)
    elif broken:
        chk.notes += broken[:6]
    return chk.finish(
        level="proof",
        checker_cmd="python3 tools/translate_smallvec.py && lake build Vita.C20.Props && lake env lean <#print axioms "
                    "for every theorem>",
        rule="scripts of public operations on two small_vector<T,S> (T in int,double,string,tracked,pod; S in 1..8; "
             "element values include +-0, NaNs, infinities and PODs that are == with different bytes): directed "
             "families (six operators x equal / ==-variant / NaN / smaller / larger / shorter / longer operand x inline "
             "or heap x mixed inline capacities; accessors, iterators, observers; emplace_back with 0..3 arguments; "
             "list iterators; every insert position x range length x spare capacity; assignment/construction matrix "
             "across the inline/heap boundary; self-referential push_back at every capacity boundary; resize "
             "transitions; rejected requests) + random scripts; distinct = distinct complete scripts; after every "
             "operation the compiled vector is compared with std::vector, the lifetime registry and the Lean model; "
             "the statement skeleton of all functions and the members used by the library are re-extracted from the "
             "clang AST and checked against the model by Lean",
        trusted=["Lean 4.33 kernel", "Vita/C20/Model.lean: hand-written model of small_vector.{h,tcc} at the granularity "
                 "of the std algorithms it calls (tied by the differential run, the skeleton obligations and, for "
                 "resize and copy assignment, the denotation theorems)",
                 "tools/translate_smallvec.py + cxx2lean.py (clang-14 JSON AST -> statement skeletons, used members)",
                 "std::vector<T> of libstdc++ as reference semantics", "the Tracked / Pod element types, the id<->value "
                 "encodings and the registry of harness/c20_smallvec.cc", "g++ 12.2 ASan/UBSan/LSan"])
