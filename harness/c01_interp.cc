// C01 correspondence harness.
//
// One request per line on stdin:
//     scn <set> <seed> <rows> <patch> <steps> <nex>      random individuals of vita's own constructor over
//                                                        symbol set <set>, then a chain of mutation /
//                                                        crossover / get_block
//     chain <seed> <rows> <nex>                          hand-built DAG with maximal sharing
// one answer line per request: a transcript of items separated by " ;; "
//     P <rows> <cats> <bi> <bc> ; i c desc par n a0 c0 … ; …       a program (active AND inactive genes)
//     R<k> <example tokens> = <vita's answer> <oracle's answer>
//          k = F  vita::run(ind, example)                (fresh src_interpreter)
//              S  one src_interpreter object reused over the examples, in order
//              0  vita::run(ind)                          (interpreter<i_mep>, no example)
//              L  one reg_lambda_f object reused over the examples
// The oracle is written here and is independent of vita's interpreter AND of the Lean model: the
// active expression tree is evaluated recursively, without memo and without an instruction
// pointer, by calling symbol::eval with a params object that recurses ("skip" when the tree is
// larger than a budget).
#include "c01_wire.h"

#include "kernel/vita.h"
#include "kernel/gp/src/primitive/bool.h"
#include "kernel/gp/src/primitive/int.h"
#include "kernel/gp/src/primitive/real.h"
#include "kernel/gp/src/primitive/string.h"
#include "kernel/gp/src/constant.h"
#include "kernel/gp/src/lambda_f.h"
#include "kernel/gp/src/variable.h"

#include <cmath>
#include <limits>
#include <map>
#include <memory>
#include <variant>

using namespace vita;

namespace
{
struct budget_exceeded {};

// ---- the oracle ---------------------------------------------------------------------------
struct tree_params : symbol_params
{
  const i_mep &prg;
  locus l;
  const std::vector<value_t> *ex;
  unsigned long *steps;

  tree_params(const i_mep &p, locus loc, const std::vector<value_t> *e, unsigned long *s)
    : prg(p), l(loc), ex(e), steps(s) {}

  value_t eval_here()
  {
    if (++*steps > 400000) throw budget_exceeded();
    return prg[l].sym->eval(*this);
  }
  value_t fetch_arg(unsigned i) override
  {
    tree_params sub(prg, prg[l].locus_of_argument(i), ex, steps);
    return sub.eval_here();
  }
  value_t fetch_opaque_arg(unsigned i) override { return fetch_arg(i); }
  terminal_param_t fetch_param() const override { return prg[l].par; }
  value_t fetch_var(unsigned i) override
  {
    return (ex && i < ex->size()) ? (*ex)[i] : value_t();
  }
};

std::string oracle(const i_mep &ind, const std::vector<value_t> *ex)
{
  unsigned long steps = 0;
  try
  {
    tree_params p(ind, ind.best(), ex, &steps);
    return wire::enc(p.eval_here());
  }
  catch (const std::bad_variant_access &) { return "T"; }
  catch (const budget_exceeded &) { return "skip"; }
}

// ---- symbol sets --------------------------------------------------------------------------
struct symset
{
  problem prob;
  std::map<const symbol *, std::string> desc;
  std::vector<char> var_dom;   // domain of variable k: 'd', 'i', 's'

  template<class S, class... A> symbol *fn(A &&... a)
  {
    symbol *s = prob.sset.insert<S>(std::forward<A>(a)...);
    desc[s] = "F:" + s->name();
    return s;
  }
  void var(char dom, category_t c)
  {
    const unsigned k = var_dom.size();
    symbol *s = prob.sset.insert<variable>("X" + std::to_string(k), k, c);
    desc[s] = "X:" + std::to_string(k);
    var_dom.push_back(dom);
  }
  void kd(double v, category_t c)
  {
    auto *s = static_cast<constant<double> *>(prob.sset.insert<constant<double>>(v, c));
    desc[s] = "K:" + wire::enc(s->eval());
  }
  void ki(int v, category_t c)
  {
    auto *s = static_cast<constant<int> *>(prob.sset.insert<constant<int>>(v, c));
    desc[s] = "K:" + wire::enc(s->eval());
  }
  void ks(const std::string &v, category_t c)
  {
    auto *s = static_cast<constant<std::string> *>(prob.sset.insert<constant<std::string>>(v, c));
    desc[s] = "K:" + wire::enc(s->eval());
  }
};

void real_functions(symset &s, category_t c)
{
  s.fn<real::abs>(cvect{c});   s.fn<real::add>(cvect{c});   s.fn<real::aq>(cvect{c});
  s.fn<real::cos>(cvect{c});   s.fn<real::div>(cvect{c});   s.fn<real::idiv>(cvect{c});
  s.fn<real::ifb>(cvect{c, c}); s.fn<real::ife>(cvect{c, c}); s.fn<real::ifl>(cvect{c, c});
  s.fn<real::ifz>(cvect{c});   s.fn<real::ln>(cvect{c});    s.fn<real::max>(cvect{c});
  s.fn<real::mod>(cvect{c});   s.fn<real::mul>(cvect{c});   s.fn<real::sin>(cvect{c});
  s.fn<real::sqrt>(cvect{c});  s.fn<real::sub>(cvect{c});   s.fn<real::sigmoid>(cvect{c});
}

void int_functions(symset &s, category_t c)
{
  s.fn<integer::add>(cvect{c}); s.fn<integer::sub>(cvect{c}); s.fn<integer::mul>(cvect{c});
  s.fn<integer::div>(cvect{c}); s.fn<integer::mod>(cvect{c}); s.fn<integer::shl>(cvect{c});
  s.fn<integer::ife>(cvect{c, c}); s.fn<integer::ifl>(cvect{c, c}); s.fn<integer::ifz>(cvect{c});
}

std::unique_ptr<symset> make_set(const std::string &name)
{
  auto s = std::make_unique<symset>();
  s->prob.env.init();
  if (name == "real")               // single category, every real function
  {
    real_functions(*s, 0);
    for (int k = 0; k < 3; ++k) s->var('d', 0);
    s->fn<real::real>(cvect{0});
    s->fn<real::integer>(cvect{0}, -8, 8);
    s->kd(0.5, 0); s->kd(-3.0, 0); s->kd(1e154, 0);
  }
  else if (name == "int")           // single category, every integer function
  {
    int_functions(*s, 0);
    for (int k = 0; k < 3; ++k) s->var('i', 0);
    s->fn<integer::number>(cvect{0});
    s->fn<integer::number>(cvect{0}, 2000000000, 2147483647);
    s->ki(0, 0); s->ki(-1, 0); s->ki(31, 0); s->ki(std::numeric_limits<int>::min(), 0);
  }
  else if (name == "str2")          // two categories: 0 = real, 1 = string
  {
    real_functions(*s, 0);
    s->fn<real::length>(cvect{1, 0});
    s->fn<str::ife>(cvect{1, 0});   // compares strings, hands back reals
    s->fn<str::ife>(cvect{1, 1});   // compares strings, hands back strings
    s->fn<real::ife>(cvect{0, 1});  // compares reals, hands back strings
    s->fn<real::ifl>(cvect{0, 1});
    s->var('d', 0); s->var('s', 1); s->var('d', 0); s->var('s', 1);
    s->fn<real::real>(cvect{0});
    s->kd(2.0, 0); s->ks("abc", 1); s->ks("", 1); s->ks("plane", 1);
  }
  else if (name == "typed3")        // three categories: 0 = real, 1 = int / boolean, 2 = string
  {
    real_functions(*s, 0);
    int_functions(*s, 1);
    s->fn<real::gt>(cvect{0, 1});       // reals -> boolean (int)
    s->fn<real::lt>(cvect{0, 1});
    s->fn<boolean::l_and>(cvect{1}); s->fn<boolean::l_or>(cvect{1}); s->fn<boolean::l_not>(cvect{1});
    s->fn<boolean::zero>(cvect{1}); s->fn<boolean::one>(cvect{1});
    s->fn<integer::ife>(cvect{1, 0});   // compares ints, hands back reals
    s->fn<integer::ifl>(cvect{1, 2});   // compares ints, hands back strings
    s->fn<real::length>(cvect{2, 0});
    s->fn<str::ife>(cvect{2, 1});       // compares strings, hands back ints
    s->fn<real::ifl>(cvect{0, 2});
    s->var('d', 0); s->var('i', 1); s->var('s', 2); s->var('d', 0);
    s->fn<real::real>(cvect{0}); s->fn<integer::number>(cvect{1});
    s->kd(-0.0, 0); s->ki(7, 1); s->ks("car", 2); s->ks("plane", 2);
  }
  else if (name == "illtyped")      // NOT strongly typed: booleans and strings leak into real arguments
  {                                 // (exceptions leave eval; outside the property, exercises unwinding)
    real_functions(*s, 0);
    s->fn<real::gt>(cvect{0, 0});
    s->fn<real::lt>(cvect{0, 0});
    s->var('d', 0); s->var('d', 0); s->var('s', 0);
    s->fn<real::real>(cvect{0});
    s->kd(1.0, 0);
  }
  else
    return nullptr;
  return s;
}

// ---- serialisation ---------------------------------------------------------------------------
std::string program(const symset &ss, const i_mep &ind)
{
  std::string out = "P " + std::to_string(ind.size()) + " " + std::to_string(ind.categories()) + " " +
                    std::to_string(ind.best().index) + " " + std::to_string(ind.best().category);
  for (index_t i = 0; i < ind.size(); ++i)
    for (category_t c = 0; c < ind.categories(); ++c)
    {
      const gene &g = ind[locus{i, c}];
      const auto it = ss.desc.find(g.sym);
      if (it == ss.desc.end()) continue;
      const bool parametric = g.sym->terminal() && terminal::cast(g.sym)->parametric();
      out += " ; " + std::to_string(i) + " " + std::to_string(c) + " " + it->second + " " +
             wire::hex16(parametric ? verif::bits(g.par) : 0) + " " + std::to_string(g.sym->arity());
      for (unsigned k = 0; k < g.sym->arity(); ++k)
      {
        const locus a = g.locus_of_argument(k);
        out += " " + std::to_string(a.index) + " " + std::to_string(a.category);
      }
    }
  return out;
}

const double DVALS[] = {0.0, -0.0, 1.0, -1.0, 2.0, 0.5, -2.5, 3.0, 7.0, 4.4408920985006262e-16,
                        4.4408920985006267e-16, 4.4408920985006257e-16, 1.0000000000000002, 5e-324, -5e-324,
                        2.2250738585072014e-308, 1.7976931348623157e308, -1.7976931348623157e308, 1e154,
                        -1e154, 1e-154, 3.141592653589793, 1e22, 709.782712893384, -745.2, 123456.789};
const int IVALS[] = {0, 1, -1, 2, 3, 7, 31, 32, 33, -7, 46341, 65536, 2147483647, -2147483647 - 1,
                     2147483646, 1073741824, -1073741825};
const char *SVALS[] = {"", "a", "abc", "car", "plane", "abcd efgh", "A"};

value_t draw(verif::splitmix &r, char dom)
{
  switch (dom)
  {
  case 'd':
    if (r.chance(0.25)) return value_t(double(r.between(-20, 21)) / 4.0);
    return value_t(DVALS[r.below(sizeof DVALS / sizeof *DVALS)]);
  case 'i':
    if (r.chance(0.3)) return value_t(int(r.between(-40, 41)));
    return value_t(IVALS[r.below(sizeof IVALS / sizeof *IVALS)]);
  default:
    return value_t(std::string(SVALS[r.below(sizeof SVALS / sizeof *SVALS)]));
  }
}

std::string tokens(const std::vector<value_t> &ex)
{
  std::string s;
  for (const auto &v : ex) s += (s.empty() ? "" : " ") + wire::enc(v);
  return s;
}

template<class F> std::string guarded(F f)
{
  try { return wire::enc(f()); }
  catch (const std::bad_variant_access &) { return "T"; }
}

void exercise(const symset &ss, const i_mep &ind, verif::splitmix &r, unsigned nex, std::string &out)
{
  out += (out.empty() ? "" : " ;; ") + program(ss, ind);
  std::vector<std::vector<value_t>> exs;
  for (unsigned e = 0; e < nex; ++e)
  {
    std::vector<value_t> ex;
    for (char d : ss.var_dom) ex.push_back(draw(r, d));
    exs.push_back(ex);
  }
  // fresh interpreter per example
  for (const auto &ex : exs)
    out += " ;; RF " + tokens(ex) + " = " + guarded([&] { return vita::run(ind, ex); }) + " " + oracle(ind, &ex);
  // one src_interpreter object over all the examples
  {
    src_interpreter<i_mep> it(&ind);
    for (const auto &ex : exs)
      out += " ;; RS " + tokens(ex) + " = " + guarded([&] { return it.run(ex); }) + " " + oracle(ind, &ex);
    // … and once more in reverse order on the same object
    for (auto e = exs.rbegin(); e != exs.rend(); ++e)
      out += " ;; RS " + tokens(*e) + " = " + guarded([&] { return it.run(*e); }) + " " + oracle(ind, &*e);
  }
  // no example at all
  out += " ;; R0 = " + guarded([&] { return vita::run(ind); }) + " " + oracle(ind, nullptr);
  // the regression lambda keeps one interpreter as well
  {
    const reg_lambda_f<i_mep> lam(ind);
    for (const auto &ex : exs)
    {
      dataframe::example de;
      de.input = ex;
      out += " ;; RL " + tokens(ex) + " = " + guarded([&] { return lam(de); }) + " " + oracle(ind, &ex);
    }
  }
}
}  // namespace

int main()
{
  log::reporting_level = log::lOFF;

  std::map<std::string, std::unique_ptr<symset>> sets;
  for (const char *n : {"real", "int", "str2", "typed3", "illtyped"}) sets[n] = make_set(n);

  std::string line;
  while (std::getline(std::cin, line))
  {
    const auto t = verif::split(line);
    std::string out;
    try
    {
      if (t.size() == 7 && t[0] == "scn" && sets.count(t[1]))
      {
        symset &ss = *sets[t[1]];
        const unsigned long seed = std::stoul(t[2]);
        ss.prob.env.mep.code_length = std::stoul(t[3]);
        ss.prob.env.mep.patch_length = std::stoul(t[4]);
        const unsigned steps = std::stoul(t[5]), nex = std::stoul(t[6]);
        random::seed(seed);
        verif::splitmix r(seed);
        i_mep a(ss.prob), b(ss.prob);
        if (a[a.best()].sym->terminal() && r.chance(0.8))
        {
          // vita's constructor starts at [0,0] whatever is there; move the start to the first function
          bool done = false;
          for (index_t i = 0; i < a.size() && !done; ++i)
            for (category_t c = 0; c < a.categories() && !done; ++c)
              if (a[locus{i, c}].sym->arity()) { a = a.get_block(locus{i, c}); done = true; }
        }
        exercise(ss, a, r, nex, out);
        for (unsigned s = 0; s < steps; ++s)
        {
          switch (r.below(5))
          {
          case 0: a.mutation(0.3, ss.prob); break;
          case 1: a = crossover(a, b); break;
          case 2: b = crossover(b, a); a.mutation(0.1, ss.prob); break;
          case 3:
          {
            const auto bl = a.blocks();
            if (!bl.empty())
            {
              auto it = bl.begin();
              std::advance(it, r.below(bl.size()));
              exercise(ss, a.get_block(*it), r, nex, out);
            }
            break;
          }
          default:   // (i_mep::cse() is deliberately not used: it has undefined behaviour of its own – its
            {        // std::map comparator is not a strict weak order – which is not an interpreter matter)
              i_mep c(ss.prob);
              a = crossover(c, a);
            }
          }
          exercise(ss, a, r, nex, out);
        }
      }
      else if (t.size() == 4 && t[0] == "chain")
      {
        // X0 at the bottom, every other gene adds / multiplies the next gene with itself:
        // 2^(rows-1) leaves in the tree, rows genes in the genome
        symset &ss = *sets["real"];
        const unsigned long seed = std::stoul(t[1]);
        const unsigned rows = std::stoul(t[2]), nex = std::stoul(t[3]);
        verif::splitmix r(seed);
        std::vector<symbol *> f2, term;
        for (auto &kv : ss.desc)
        {
          if (kv.second == "F:FADD" || kv.second == "F:FSUB" || kv.second == "F:FMAX" || kv.second == "F:AQ")
            f2.push_back(const_cast<symbol *>(kv.first));
          if (kv.second[0] == 'X') term.push_back(const_cast<symbol *>(kv.first));
        }
        std::vector<gene> gv;
        for (unsigned i = 0; i + 1 < rows; ++i)
          gv.emplace_back(std::make_pair(f2[r.below(f2.size())], std::vector<index_t>{i + 1, i + 1}));
        gv.emplace_back(std::make_pair(term[r.below(term.size())], std::vector<index_t>{}));
        const i_mep ind(gv);
        exercise(ss, ind, r, nex, out);
      }
      else
        out = "bad-op";
    }
    catch (const std::exception &e)
    {
      out = std::string("bad-op ") + e.what();
    }
    std::cout << out << "\n";
  }
  return 0;
}
